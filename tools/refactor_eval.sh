#!/bin/bash
# tools/refactor_eval.sh <dir with n.diff files> [unit ...]
#   False-alarm test: applies each behaviour-preserving patch to a scratch worktree of /repo HEAD and runs the named contract
#   units (default: the units added in the extension session) against it.  Expected: status=ok; `undecided` (lost anchor) is a
#   brittleness note, never an alarm; `failed` on a harmless edit is a FALSE ALARM and must be fixed in the template.
D=$1; shift
UNITS=${@:-vm_state tc_state extractor lift_passes watchdogs enumerate collect register error_conv vector_map disassemble guards limits}
WT=$(mktemp -d /tmp/refeval_XXXX)
git -C /repo worktree add -f --detach $WT HEAD >/dev/null 2>&1
cd /verif
for p in $(ls $D/*.diff | sort -V); do
  n=$(basename $p .diff)
  git -C $WT checkout -q -- .
  if ! git -C $WT apply $p 2>/dev/null; then echo "$n: patch does not apply"; continue; fi
  files=$(git -C $WT diff --name-only | tr '\n' ' ')
  res=""
  for u in $UNITS; do
    # only units that extract from a changed file
    hit=0; for f in $files; do grep -q "file=$f " units/$u/unit.rs units/common/*.rs 2>/dev/null && grep -q "file=$f " units/$u/unit.rs && hit=1; done
    [ $hit = 0 ] && ! ( [ $u = vector_map ] || [ $u = enumerate ] ) && continue
    [ $hit = 0 ] && ! echo "$files" | grep -q vector_map && continue
    st=$(VX_REPO=$WT python3 vx/vx.py unit $u --raw 2>&1 | grep -o "status=[a-z]*" | head -1)
    res="$res $u:${st#status=}"
  done
  echo "$n: [$files]$res"
done
git -C /repo worktree remove --force $WT; rm -rf $WT
