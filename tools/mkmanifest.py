#!/usr/bin/env python3
"""Regenerates MANIFEST.json from the claim table below (kept by hand, one entry per property)."""
import json, os
V = os.path.dirname(os.path.dirname(os.path.abspath(__file__)))
TECH = "contract-based deductive verification (Verus) of functions mechanically re-extracted from /repo on every run; bounded concrete witness drivers (labelled, never counted as proved) stand in for code no contract reaches and supply failing inputs; Kani full-domain partner harnesses in the thorough tier"
CLAIMS = json.load(open(os.path.join(V, 'tools', 'claims.json')))
props = [json.loads(l) for l in open(os.path.join(V, 'properties.jsonl'))]
checks, na = [], []
for p in props:
    pid = p['id']
    c = CLAIMS.get(pid, {})
    if c.get('claimed'):
        checks.append({
            "property_id": pid,
            "quick_cmd": f"./check {pid} quick",
            "thorough_cmd": f"./check {pid} thorough",
            "evidence_file": f"/verif/evidence/{pid}.json",
            "replay_cmd_template": "./check --replay {path}",
            "engine": "vx",
            "level_claimed": {"category": "proof", "text": c['text'], "design_ref": f"DESIGN.md §6 {pid}"},
            "level_note": c.get('note', "Trusted: Verus/z3, vstd specs, the extractor and its declared rewrites, per-unit assumed contracts (listed in evidence.coverage.trusted_base and evidence.assumptions). The witness drivers (evidence.coverage.witness_drivers) are bounded sampling of the real crate, reported separately and never added to obligations/discharged."),
            "technique": c.get('technique', TECH),
        })
    else:
        na.append({"property_id": pid, "reason": c.get('reason', 'unit not built yet (see DESIGN.md §6/§7)')})
m = {"version": 1, "setup_cmd": "python3 vx/vx.py selftest",
     "hooks": {"guard": "smlxl_storage_layout_extractor_verif",
               "enable": "none needed: checks verify text extracted from /repo/src; no hook is compiled into the crate",
               "baseline_off_cmd": "cd /repo && cargo nextest run --workspace --no-fail-fast --tool-config-file pb:/w/lib/nextest.toml --profile pb --test-threads 8 --offline",
               "source_commits": [], "add_only": True},
     "engines": [{"name": "vx", "path": "/verif/vx", "serves_properties": [c['property_id'] for c in checks],
                  "kind_free_text": "python extractor + Verus single-file verification of functions re-extracted from /repo on every run; Kani partner harnesses on the real crate in the thorough tier"}],
     "checks": checks, "not_applicable": na,
     "notes": "Sliced properties: each check's evidence.coverage.explanation states which sentences of the property are decided and which are not. See DESIGN.md."}
json.dump(m, open(os.path.join(V, 'MANIFEST.json'), 'w'), indent=1)
print('claimed:', [c['property_id'] for c in checks])
