#!/bin/bash
# tools/run_mutations.sh [unit ...] — self-test of the contract units: every units/<u>/mutations.py applies property-breaking
# edits of the real source in a scratch worktree of /repo HEAD (expected: status=failed on the named label) and harmless
# refactors (expected: status=ok; a changed loop form may be undecided, never failed), and removes the worktree afterwards.
# Not part of any registered check; run after changing the generator (vx/gen.py) or a unit template.
cd "$(dirname "$0")/.."
rc=0
for m in ${@:-$(ls units/*/mutations.py | xargs -n1 dirname | xargs -n1 basename)}; do
  wt=$(grep -o "/tmp/wt_[a-z_]*" units/$m/mutations.py | head -1)   # scripts written by sub-agents expect their worktree to exist
  [ -n "$wt" ] && [ ! -d "$wt" ] && git -C /repo worktree add --detach "$wt" HEAD >/dev/null 2>&1
  out=$(python3 units/$m/mutations.py 2>&1); r=$?
  [ -n "$wt" ] && [ -d "$wt" ] && git -C /repo worktree remove --force "$wt" >/dev/null 2>&1
  echo "== $m: exit=$r  $(echo "$out" | tail -1)"
  [ $r -ne 0 ] && { rc=1; echo "$out" | grep -E "^BAD|ANCHOR|COMPILE" | head; }
done
git -C /repo worktree prune
exit $rc
