#!/bin/bash
# tools/run_mutations.sh [unit ...] — self-test of the contract units: every units/<u>/mutations.py applies property-breaking
# edits of the real source in a scratch worktree of /repo HEAD (expected: status=failed on the named label) and harmless
# refactors (expected: status=ok; a changed loop form may be undecided, never failed), and removes the worktree afterwards.
# Not part of any registered check; run after changing the generator (vx/gen.py) or a unit template.
cd "$(dirname "$0")/.."
rc=0
for m in ${@:-$(ls units/*/mutations.py | xargs -n1 dirname | xargs -n1 basename)}; do
  out=$(python3 units/$m/mutations.py 2>&1); r=$?
  echo "== $m: exit=$r  $(echo "$out" | tail -1)"
  [ $r -ne 0 ] && { rc=1; echo "$out" | grep -E "^BAD|ANCHOR|COMPILE" | head; }
done
git -C /repo worktree prune
exit $rc
