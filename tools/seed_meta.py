#!/usr/bin/env python3
"""Writes seeded/<id>/meta.json from the seeding agent's meta (meta.agent.json), my own confirmation run
(confirm.log: suite with change / demo with / demo without) and the latest detection run (detect.log)."""
import json
import os
import re
import sys

V = os.path.dirname(os.path.dirname(os.path.abspath(__file__)))
rows = []
for d in sorted(os.listdir(os.path.join(V, 'seeded'))):
    p = os.path.join(V, 'seeded', d)
    if not os.path.isdir(p):
        continue
    agent = {}
    try:
        agent = json.load(open(os.path.join(p, 'meta.agent.json')))
    except Exception:
        pass
    conf = open(os.path.join(p, 'confirm.log')).read() if os.path.exists(os.path.join(p, 'confirm.log')) else ''
    det = open(os.path.join(p, 'detect.log')).read() if os.path.exists(os.path.join(p, 'detect.log')) else conf

    def grab(rx, txt):
        m = re.search(rx, txt)
        return m.group(1).strip() if m else None
    suite = grab(r'SUITE with change:\s*(.*)', conf)
    dw = grab(r'DEMO with change:\s*((?:.*\n)*?.*)(?=\nDEMO without change|\Z)', conf)
    dw = ' / '.join(x.strip() for x in (dw or '').split('\n') if x.strip())[:300] or None
    dwo = grab(r'DEMO without change:\s*(.*)', conf)
    pid = d.split('_')[0]
    exit_code = grab(r'CHECK %s exit=(\d+)' % pid, det)
    viol = re.findall(r'VIOLATION property=\S+ replay=\S*/(\S+)\.json( no-failing-input-found)?', det)
    und = re.findall(r'UNDECIDED property=\S+ (.*)', det)
    via = []
    for name, nf in viol:
        if '.witness.' in name:
            via.append('witness driver: ' + name.split('.witness.')[1].rsplit('_', 1)[0])
        elif '.kani.' in name:
            via.append('kani: ' + name)
        else:
            via.append('verus obligation: ' + name.split('_', 1)[1].rsplit('_', 1)[0])
    confirmed = bool(suite and '385 passed' in suite and dw and ('FAILED' in dw or 'overflow' in dw or 'error' in dw.lower()) and dwo and dwo.startswith('test result: ok'))
    meta = {
        'property': pid,
        'round': 9 if d.endswith(('_17', '_18')) else 8 if d.endswith(('_15', '_16')) else 7 if d.endswith(('_13', '_14')) else 6 if d.endswith(('_11', '_12')) else 5 if d.endswith(('_9', '_10')) else 4 if d.endswith(('_7', '_8')) else 3 if d.endswith(('_5', '_6')) else 2 if d.endswith(('_3', '_4')) else 1,
        'note': open(os.path.join(p, 'note.txt')).read().strip() if os.path.exists(os.path.join(p, 'note.txt')) else None,
        'title': agent.get('title'),
        'files': agent.get('files'),
        'what_breaks': agent.get('what_breaks'),
        'needs_to_manifest': agent.get('needs_to_manifest'),
        'confirmed_by_me': confirmed,
        'confirmation': {'suite_with_change': suite, 'demo_with_change': dw, 'demo_without_change': dwo,
                         'command': f'tools/seed_eval.sh seeded/{d} {pid} confirm   (scratch worktree of /repo HEAD; cargo nextest full suite, then tests/seed_demo.rs with and without the patch)'},
        'detection': {'command': f'tools/seed_eval.sh seeded/{d} {pid}   (= VX_REPO=<patched worktree> ./check {pid} quick)', 'check_exit': int(exit_code) if exit_code else None,
                      'caught': exit_code == '1', 'caught_by': sorted(set(via))[:8], 'undecided_units': und[:3]},
    }
    json.dump(meta, open(os.path.join(p, 'meta.json'), 'w'), indent=1)
    rows.append((d, pid, agent.get('title'), confirmed, exit_code, sorted(set(via))[:3]))
w = sys.stdout.write
w('| seed | change | confirmed | check exit | caught by |\n|---|---|---|---|---|\n')
for d, pid, title, c, e, via in rows:
    w(f"| {d} | {title} | {'yes' if c else 'NO'} | {e} | {'; '.join(via) if via else '—'} |\n")
