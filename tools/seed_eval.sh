#!/bin/bash
# tools/seed_eval.sh <seed_dir> <property> [confirm]
#   seed_dir holds patch.diff + demo.rs (+ meta.json).  Uses a scratch worktree of /repo HEAD (removed afterwards).
#   confirm: also re-verify the seed itself (suite passes with change; demo fails with / passes without).
#   Always: run `./check <property> quick` with VX_REPO pointing at the patched worktree and print the verdict.
set -u
SD=$1; PID=$2; CONF=${3:-}
WT=$(mktemp -d /tmp/seedeval_XXXX)
git -C /repo worktree add -f --detach $WT HEAD >/dev/null 2>&1
cd $WT
if ! git apply $SD/patch.diff; then echo "SEED patch does not apply"; git -C /repo worktree remove --force $WT; exit 3; fi
if [ -n "$CONF" ]; then
  export CARGO_TARGET_DIR=$WT.target
  s=$(cargo nextest run --workspace --no-fail-fast --tool-config-file pb:/w/lib/nextest.toml --profile pb --test-threads 8 --offline 2>&1 | grep -E "Summary|error\[" | head -3)
  echo "SUITE with change: $s"
  cp $SD/demo.rs tests/seed_demo.rs
  d1=$(cargo test --offline --test seed_demo 2>&1 | grep -E "^test result|error\[|error:" | head -3)
  echo "DEMO with change: $d1"
  git checkout -q -- src
  d2=$(cargo test --offline --test seed_demo 2>&1 | grep -E "^test result|error\[|error:" | head -3)
  echo "DEMO without change: $d2"
  rm -f tests/seed_demo.rs
  git apply $SD/patch.diff
  rm -rf $WT.target
fi
cd /verif
for P in $PID; do
  out=$(VX_REPO=$WT ./check $P quick 2>&1); rc=$?
  echo "CHECK $P exit=$rc"
  echo "$out" | grep -E "VIOLATION|UNDECIDED|KNOWN|quick:" | cut -c1-300 | head -12
done
git checkout -q evidence 2>/dev/null
git -C /repo worktree remove --force $WT
rm -rf $WT $WT.target
