# Mutation self-test for unit transform.
# Usage: git -C /repo worktree add --detach /tmp/wt_tr HEAD; python3 units/transform/mutations.py [Mnn ...]; git -C /repo worktree remove --force /tmp/wt_tr
# M* = property-breaking edits (must give status=failed on a labelled obligation), H* = harmless edits (must stay ok),
# X* = edits inside a declared-opaque region (expected: undecided, the rewrite no longer matches — never "ok").
import re
import subprocess
import sys

WT = '/tmp/wt_tr'
F = 'src/vm/value/mod.rs'
TD = '.transform_data(transform)'


def arm(name, fields_old, fields_new, ctor_new=None, pat=None):
    """(old, new) text of one rebuild arm of `transform`; fields as [(field, expr)]"""
    def body(fs):
        w = max(len(a) for a, _ in fs) + 1
        return ''.join(f'                    {(a + ":").ljust(w)} {e},\n' for a, e in fs)
    pat = pat or '{ ' + ', '.join(a for a, _ in fields_old) + ' }'
    old = f'                Self::{name} {pat} => Self::{name} {{\n{body(fields_old)}                }},\n'
    new = f'                Self::{name} {pat} => Self::{ctor_new or name} {{\n{body(fields_new)}                }},\n'
    return old, new


SUB = arm('Subtract', [('left', 'left' + TD), ('right', 'right' + TD)], [('left', 'right' + TD), ('right', 'left' + TD)])
SDIV = arm('SignedDivide', [('dividend', 'dividend' + TD), ('divisor', 'divisor' + TD)], [('dividend', 'dividend' + TD), ('divisor', 'divisor' + TD)],
           ctor_new='Divide', pat='{ divisor, dividend }')
SLOAD = arm('SLoad', [('key', 'key' + TD), ('value', 'value' + TD)], [('key', 'key' + TD), ('value', 'value.clone()')])
SWRITE = arm('StorageWrite', [('key', 'key' + TD), ('value', 'value' + TD)], [('key', 'key' + TD), ('value', 'key' + TD)])
SHL = arm('LeftShift', [('shift', 'shift' + TD), ('value', 'value' + TD)], [('shift', 'value' + TD), ('value', 'shift' + TD)])
ADD_MUL = (arm('Add', [('left', 'left' + TD), ('right', 'right' + TD)], [('left', 'left' + TD), ('right', 'right' + TD)])[0]
           + arm('Multiply', [('left', 'left' + TD), ('right', 'right' + TD)], [('left', 'left' + TD), ('right', 'right' + TD)])[0])
MUL_ADD = (arm('Multiply', [('left', 'left' + TD), ('right', 'right' + TD)], [('left', 'left' + TD), ('right', 'right' + TD)])[0]
           + arm('Add', [('left', 'left' + TD), ('right', 'right' + TD)], [('left', 'left' + TD), ('right', 'right' + TD)])[0])

MUTS = [
    ('M01 Subtract: swap left/right', SUB[0], SUB[1]),
    ('M02 SignedDivide rebuilt as Divide', SDIV[0], SDIV[1]),
    ('M03 SLoad: value not transformed (value.clone())', SLOAD[0], SLOAD[1]),
    ('M04 StorageWrite: key transformed twice, value dropped', SWRITE[0], SWRITE[1]),
    ('M05 SubWord: offset field changed (offset/size swapped)', 'offset: *offset,\n                    size:   *size,', 'offset: *size,\n                    size:   *offset,'),
    ('M05b SubWord: offset field changed (offset + 1)', 'offset: *offset,\n                    size:   *size,', 'offset: *offset + 1,\n                    size:   *size,'),
    ('M06 transformer not asked about the node itself', 'match transform(&inner_self) {\n            Some(data) => data,', 'match None::<Self> {\n            Some(data) => data,'),
    ('M07 LeftShift: swap shift/value', SHL[0], SHL[1]),
    ('M08 CallData: fresh id', 'id:     *id,', 'id:     Uuid::new_v4(),'),
    ('M09 MappingIndex: projection dropped', 'projection: *projection,', 'projection: None,'),
    ('M10 Shifted: offset zeroed', 'Self::Shifted { offset, value } => Self::Shifted {\n                    offset: *offset,', 'Self::Shifted { offset, value } => Self::Shifted {\n                    offset: 0,'),
    ('M11 Create2: data and salt swapped', 'data:  data.transform_data(transform),\n                    salt:  salt.transform_data(transform),', 'data:  salt.transform_data(transform),\n                    salt:  data.transform_data(transform),'),
    ('M12 transformer\'s answer Some(x) discarded (node returned unchanged)', 'Some(data) => data,\n            None => match self {\n                Self::Value', 'Some(_data) => inner_self,\n            None => match self {\n                Self::Value'),
    ('M13 KnownData leaf replaced by a fresh value', 'Self::KnownData { .. } => inner_self,', 'Self::KnownData { .. } => Self::new_value(),'),
    ('M14 Log: data not transformed', 'data:   data.transform_data(transform),\n                    topics:', 'data:   data.clone(),\n                    topics:'),
    ('M15 CallWithValue: gas and address swapped', 'gas:           gas.transform_data(transform),\n                    address:       address.transform_data(transform),\n                    value:', 'gas:           address.transform_data(transform),\n                    address:       gas.transform_data(transform),\n                    value:'),
    ('M16 PackedSpan::transform: offset := size', 'offset: self.offset,\n            size:   self.size,\n            value:  new_data,', 'offset: self.size,\n            size:   self.size,\n            value:  new_data,'),
    ('M17 PackedSpan::transform: value not transformed', 'value:  new_data,', 'value:  self.value.clone(),'),
    ('M18 SVD::constant_fold: traversal skipped (returns the clone)', 'self.clone().transform(constant_folder)\n', 'self.clone()\n'),
    ('M21 SVD::constant_fold: traversal run with a transformer that folds nothing', 'self.clone().transform(constant_folder)\n', 'self.clone().transform(|_d: &Self| None)\n'),
    ('X02 constant_folder: Multiply rebuilt as Add (D4 — the folding step is under contract in unit fold_arms, an assumed callee here)', 'SVD::new_known(a * b),\n                        _ => SVD::Multiply { left, right },', 'SVD::new_known(a * b),\n                        _ => SVD::Add { left, right },'),
    ('M19 Gas leaf becomes GasLimit', 'Self::Gas => inner_self,', 'Self::Gas => Self::GasLimit,'),
    ('M20 the clone handed to the transformer is not the node (a fresh Value)', 'let inner_self = self.clone();\n        match transform(&inner_self) {', 'let inner_self = self.clone();\n        match transform(&Self::new_value()) {'),
    ('H01 rename local inner_self', None, None),
    ('H02 reorder the Add and Multiply arms', ADD_MUL, MUL_ADD),
    ('H03 comments and whitespace', 'let inner_self = self.clone();', '// take a copy\n\n        let inner_self   =   self.clone();'),
    ('H04 bind Subtract operands under other names', SUB[0], SUB[0].replace('{ left, right }', '{ left: a, right: b }').replace('left.transform_data', 'a.transform_data').replace('right.transform_data', 'b.transform_data')),
    ('H05 leaf rebuilt by hand instead of returning the clone', 'Self::Address => inner_self,', 'Self::Address => Self::Address,'),
    ('X01 Concat: list reversed (inside the R-OPAQUE iterator arm)', 'values.iter().map(|v| v.transform_data(transform)).collect()', 'values.iter().rev().map(|v| v.transform_data(transform)).collect()'),
]


def run(name, old, new):
    subprocess.run(['git', '-C', WT, 'checkout', '--', '.'], check=True)
    p = f'{WT}/{F}'
    s = open(p).read()
    if name.startswith('H01'):
        # only inside fn transform
        a = s.index('pub fn transform(&self, transform: impl Fn(&Self)')
        b = s.index('pub fn constant_fold(&self) -> Self')
        assert 'inner_self' in s[a:b]
        s = s[:a] + re.sub(r'\binner_self\b', 'me', s[a:b]) + s[b:]
    else:
        assert s.count(old) == 1, (name, s.count(old))
        s = s.replace(old, new)
    open(p, 'w').write(s)
    r = subprocess.run(['python3', 'vx/vx.py', 'unit', 'transform'], cwd='/verif', env={**__import__('os').environ, 'VX_REPO': WT},
                       capture_output=True, text=True)
    out = r.stdout.strip().split('\n')
    head = out[0] if out else ''
    st = re.search(r'status=(\w+)', head)
    labs = sorted(set(l for m in re.findall(r"labels=\[([^\]]*)\]", '\n'.join(out[1:])) for l in re.findall(r"C\d\d\.[A-Za-z0-9_.]+", m)))
    kinds = sorted(set(re.findall(r'\[(\w[\w-]*)\]', '\n'.join(out[1:]))))
    tail = '' if st and st.group(1) != 'undecided' else head.split('wall=')[-1][:160]
    print(f'{name:75s} -> {st.group(1) if st else "?"} {labs if labs else ""} {kinds if kinds and not labs else ""} {tail}')
    subprocess.run(['git', '-C', WT, 'checkout', '--', '.'], check=True)


if __name__ == '__main__':
    sel = sys.argv[1:]
    for name, old, new in MUTS:
        if sel and not any(name.startswith(x) for x in sel):
            continue
        run(name, old, new)
