//@unit props=C07,C01
// Unit memory — src/vm/state/memory.rs: the per-thread transient memory of the symbolic machine, against an ABSTRACT
// HISTORY MAP  `hist: MKey -> Seq<MemStore>`  where  MKey = Const(64-bit number) | Sym(offset expression)
// (one map, although the code files constant offsets and symbolic offsets in two HashMaps):
//   C07 "each path ends with ... memory-word ... contents that evaluate to exactly what a concrete EVM computes ... for
//       word-aligned MSTORE/MLOAD" / "memory and storage keep per-key generations and return the most recent on load":
//         key_of(off)      the key an offset operand names: `fold(off)` (constant_fold, A-CALLEE, uninterpreted) and then
//                          Const(LOW 64 BITS of the 256-bit constant) when the folded offset is a literal — that is what the
//                          code does (`usize::from(&KnownWord)` = `U256::as_usize`, a truncation; stated, not hidden; a key
//                          is never reduced further) — else Sym(folded expression);
//         store(off, v)    appends (v, Word) to the history of EXACTLY key_of(off); every other history is unchanged;
//         store_8(off, v)  the same with size Byte;
//         load(off)        returns the data of the LAST store under key_of(off); for a key without history it first files
//                          the all-zero word (KnownWord::zero(), instruction pointer 0, provenance UninitializedMemory, no
//                          size limit; size Word) as the first generation and returns it; it never shortens or reorders;
//         generations / query_store_size / offsets   report the history / the first store's size / the keys of the
//                          SYMBOLIC part under the offset AS GIVEN (see the note at `generations`);
//         nothing is ever removed (every operation leaves all other histories as they were).
//   C01 the `unwrap()` on `last()` in get_or_initialize (needs: no empty vector on file = wf), `usize` addition in
//       entry_count.
// The entry API (`entry(k).or_insert(vec![])`, the `&mut Vec` chosen by a `match` across two maps of different key type)
// goes to Verus VERBATIM; only `or_insert_with` needs an assumed specification and its closure a declared postcondition.
// `Memory::{load_slice, decompose_size}` are under a panic-freedom contract in unit arith_sites (not repeated here).
// At the end: lemmas over the abstract view (history = initial history + the stores to that key, in order; literal offsets
// below 2^64 do not alias; a literal offset has no symbolic history) and four hand-written CLIENT harnesses in a module
// where hist / wf / gen are closed (MSTORE;MLOAD reads the stored word, MSTORE elsewhere does not disturb MLOAD, an
// unwritten offset reads zero every time and is filed once, the latest store wins) — they only use the contracts.
#![allow(private_interfaces)]   // MemStore is private in memory.rs; the abstract view `hist` names it
#![feature(allocator_api)]   // only to name `Entry<'a, K, V, A>` in the assume_specification of or_insert_with
use vstd::prelude::*;
use std::collections::HashMap;
use std::collections::hash_map::Entry;
use std::hash::Hash;
use vstd::std_specs::hash::EntrySpecFns;
//@dropped memory.rs: `all_values` (into_values/for_each/extend closures: not in THIS unit — under contract in unit collect, C06.collect.mem_all_values.*), `load_slice` / `decompose_size` (panic-freedom only, in unit arith_sites; that a multi-word read concatenates the last generations of the words it covers is NOT under contract anywhere), derived Clone/Debug/Eq/PartialEq of Memory and MemStore (VMState fork = Memory::clone is assumed to copy), the #[cfg(test)] module
//@dropped overlap: the model is the code's — one history per distinct KEY. That a concrete EVM's MLOAD at a non-word-aligned or overlapping offset sees bytes of neighbouring stores is outside this contract (C07 quantifies over word-aligned MSTORE/MLOAD only); two constant offsets that differ by a multiple of 2^64 share a key (truncation, stated in key_of)
//@dropped the value tree: `RuntimeBoxedVal = Arc<SymbolicValue<()>>` is an OPAQUE stand-in (BoxedVal) whose identity is what the real Eq/Hash decide (modulo instruction pointer / provenance); `RSV::new` is an A-CALLEE stand-in (uninterpreted constructor + the part of its contract proved in unit value_size: C18.vs.new.no_limit_untouched); `constant_fold` is an A-CALLEE (uninterpreted `fold`); its and `RSV::new`'s size precondition (`child_size() + 1` does not overflow) is NOT re-stated here
//@dropped generations: the inner `stores.iter().map(|store| &store.data).collect()` is replaced as a whole by the A-STD stand-in data_refs (R-CALL, exact text: an edit of that closure makes the unit undecided, it does not reach the verifier); offsets: `keys().collect()` likewise (map_keys)
//@dropped callers (MLoad / MStore / MStore8::execute, the copy opcodes, VMState fork) are not under contract in this unit

// A-EXT: opaque payload types (`uuid::Uuid`; ethnum `U256` with the two narrowing casts named by known.rs)
mod ext {
    #[derive(Clone, Copy, PartialEq, Eq)]
    pub struct Uuid(pub u128);
    #[derive(Clone, Copy, PartialEq, Eq)]
    pub struct U256(pub [u128; 2]);
    impl U256 {
        pub fn as_usize(self) -> usize { unimplemented!() }
        pub fn as_u32(self) -> u32 { unimplemented!() }
    }
}
use ext::{U256, Uuid};
// `Hash`/`Eq` of the key type run outside Verus (derivative on SymbolicValue); see A-DERIVE (key model) below
impl<A> core::hash::Hash for BoxedVal<A> { fn hash<H: core::hash::Hasher>(&self, _s: &mut H) { unimplemented!() } }
impl<A> PartialEq for BoxedVal<A> { fn eq(&self, _o: &Self) -> bool { unimplemented!() } }
impl<A> Eq for BoxedVal<A> {}

verus! {
// A-TOOLS: the crate is built for 64-bit hosts (usize = 64 bits); the constant-offset map is keyed by `usize`
global size_of usize == 8;

#[verifier::external_type_specification]
#[verifier::external_body]
pub struct ExUuid(Uuid);
#[verifier::external_type_specification]
#[verifier::external_body]
pub struct ExU256(U256);

// ---- known words: the real struct and its truncating conversions (src/vm/value/known.rs) ------------------------
/// A-ETHNUM: the 256-bit number an ethnum U256 denotes
pub uninterp spec fn u(x: U256) -> nat;
/// 2^64
pub open spec fn P64() -> nat { 0x1_0000_0000_0000_0000nat }
// A-ETHNUM (as in units/common/ethnum_prelude.rs): `as_usize` / `as_u32` keep the low 64 / 32 bits
pub assume_specification[ U256::as_usize ](a: U256) -> (r: usize)
    ensures r as nat == u(a) % P64();      // 64-bit target
pub assume_specification[ U256::as_u32 ](a: U256) -> (r: u32)
    ensures r as nat == u(a) % 0x1_0000_0000;
// A-DERIVE: #[derive(Clone, Copy)] on KnownWord
#[derive(Clone, Copy)]
//@extract file=src/vm/value/known.rs path="struct KnownWord" kind=type
//@end
/// the all-zero word (what `KnownWord::zero()` returns)
pub uninterp spec fn kw_zero() -> KnownWord;
impl KnownWord {
    /// the 256-bit number this word denotes
    pub closed spec fn v(self) -> nat { u(self.value) }
    // A-CALLEE: `KnownWord::zero()` — a function without arguments; its value is 0 (PROVED in unit known_word: C09.kw.zero)
    #[verifier::external_body]
    pub fn zero() -> (r: Self) ensures r == kw_zero(), r.v() == 0 { unimplemented!() }
}
// A-CALLEE (stand-in, richer than the code under contract needs — it is here so that an edit of the word the
// unwritten-memory placeholder is built from reaches the verifier instead of a rustc-stage error): `From<usize> for
// KnownWord` is the word whose value is the usize (known.rs: `U256::from(value.to_le() as u128)`, little-endian host);
// not under contract in any unit — assumed from its two-line body
impl vstd::std_specs::convert::FromSpecImpl<usize> for KnownWord { open spec fn obeys_from_spec() -> bool { false } open spec fn from_spec(v: usize) -> KnownWord { arbitrary() } }
impl From<usize> for KnownWord {
    #[verifier::external_body]
    fn from(value: usize) -> (r: Self) ensures r.v() == value as nat { unimplemented!() }
}
/// THE TRUNCATION the code applies to a constant offset before it becomes a key: the low 64 bits of the 256-bit word
pub open spec fn low64(w: KnownWord) -> nat { w.v() % P64() }
// The truncating conversions of known.rs, extracted (real text) and proved against A-ETHNUM, so that the key a constant
// offset is filed under is derived from what the code calls, and an edit that routes the offset through the 32-bit
// conversion reaches the contracts.
impl vstd::std_specs::convert::FromSpecImpl<KnownWord> for usize { open spec fn obeys_from_spec() -> bool { false } open spec fn from_spec(v: KnownWord) -> usize { arbitrary() } }
impl<'a> vstd::std_specs::convert::FromSpecImpl<&'a KnownWord> for usize { open spec fn obeys_from_spec() -> bool { false } open spec fn from_spec(v: &'a KnownWord) -> usize { arbitrary() } }
impl vstd::std_specs::convert::FromSpecImpl<KnownWord> for u32 { open spec fn obeys_from_spec() -> bool { false } open spec fn from_spec(v: KnownWord) -> u32 { arbitrary() } }
impl<'a> vstd::std_specs::convert::FromSpecImpl<&'a KnownWord> for u32 { open spec fn obeys_from_spec() -> bool { false } open spec fn from_spec(v: &'a KnownWord) -> u32 { arbitrary() } }
//@extract file=src/vm/value/known.rs path="impl From<KnownWord> for usize" kind=header
//@end
//@extract file=src/vm/value/known.rs path="impl From<KnownWord> for usize|fn from" id=known::usize_from_KnownWord
//@ret r
//@spec
        ensures r as nat == low64(value),      //@ob C07.mem.usize_from_word.keeps_the_low_64_bits
//@end
}
//@extract file=src/vm/value/known.rs path="impl From<&KnownWord> for usize" kind=header
//@end
//@extract file=src/vm/value/known.rs path="impl From<&KnownWord> for usize|fn from" id=known::usize_from_ref_KnownWord
//@ret r
//@spec
        ensures r as nat == low64(*value),      //@ob C07.mem.usize_from_word_ref.keeps_the_low_64_bits
//@end
}
//@extract file=src/vm/value/known.rs path="impl From<KnownWord> for u32" kind=header
//@end
//@extract file=src/vm/value/known.rs path="impl From<KnownWord> for u32|fn from" id=known::u32_from_KnownWord
//@ret r
//@spec
        ensures r as nat == value.v() % 0x1_0000_0000,
//@end
}
//@extract file=src/vm/value/known.rs path="impl From<&KnownWord> for u32" kind=header
//@end
//@extract file=src/vm/value/known.rs path="impl From<&KnownWord> for u32|fn from" id=known::u32_from_ref_KnownWord
//@ret r
//@spec
        ensures r as nat == value.v() % 0x1_0000_0000,
//@end
}

// ---- the value tree as far as memory.rs names it -----------------------------------------------------------
// A-CALLEE (type stand-in): `BoxedVal<A> = Arc<SymbolicValue<A>>`, OPAQUE.
// A-DERIVE (key model).  The spec-level identity of a BoxedVal IS what the real `Eq`/`Hash` decide (derivative on
// SymbolicValue: `instruction_pointer` and `provenance` are IGNORED — `PartialEq = "ignore", Hash = "ignore"` —
// payload, aux data and size are compared, recursively through the Arcs).  Consequently the payload `dt()` is a
// function of that identity, the instruction pointer and the provenance are NOT (their accessors promise nothing),
// and `Arc::clone` returns the same identity.  Under this reading `Hash`/`Eq` obey vstd's key model
// (axiom_boxed_val_key_model) and a history "is" a sequence of values up to instruction pointers / provenances.
#[verifier::external_body]
#[verifier::accept_recursive_types(A)]
pub struct BoxedVal<A> { _p: core::marker::PhantomData<A> }
pub broadcast axiom fn axiom_boxed_val_key_model<A>()
    ensures #[trigger] vstd::std_specs::hash::obeys_key_model::<BoxedVal<A>>();
impl<A> Clone for BoxedVal<A> {
    #[verifier::external_body]
    fn clone(&self) -> (r: Self) ensures r == *self { unimplemented!() }
}
/// the constant-folded form of a value (uninterpreted: what folding computes is units fold_arms / transform, C09)
pub uninterp spec fn fold<A>(v: BoxedVal<A>) -> BoxedVal<A>;
impl<A> BoxedVal<A> {
    /// the payload of the node
    pub uninterp spec fn dt(&self) -> SymbolicValueData<A>;
    // A-CALLEE: SymbolicValue::{data, constant_fold} reached through the Arc; constant_fold is a pure function of the
    // value (determinism only)
    #[verifier::external_body]
    pub fn data(&self) -> (r: &SymbolicValueData<A>) ensures *r == self.dt() { unimplemented!() }
    #[verifier::external_body]
    pub fn constant_fold(&self) -> (r: Self) ensures r == fold(*self) { unimplemented!() }
}
#[derive(Clone, Copy)]
//@extract file=src/vm/value/mod.rs path="enum Provenance" kind=type
//@end
//@extract file=src/vm/value/mod.rs path="type RuntimeAuxData" kind=type
//@end
//@extract file=src/vm/value/mod.rs path="type RuntimeBoxedVal" kind=type
//@end
//@extract file=src/vm/value/mod.rs path="type SV" kind=type
//@end
//@extract file=src/vm/value/mod.rs path="type SVD" kind=type
//@end
//@extract file=src/vm/value/mod.rs path="type RSV" kind=type
//@end
//@extract file=src/vm/value/mod.rs path="type RSVD" kind=type
//@end
//@extract file=src/vm/value/mod.rs path="struct PackedSpan" kind=type
//@end
// the real 70-variant payload enum (its children are the opaque BoxedVal)
//@extract file=src/vm/value/mod.rs path="enum SymbolicValueData" kind=type
//@end
// A-CALLEE (type stand-in): `SymbolicValue<A>` is only the namespace of `RSV::new` / `RSV::new_known_value` here (values
// live behind BoxedVal).
pub struct SymbolicValue<AuxData> { _aux: AuxData }
/// A-CALLEE: the node `RSV::new(ip, data, provenance, limit)` builds — an UNINTERPRETED function of all four arguments
/// (nothing is assumed that would identify two calls with different arguments), so that a clause `x == mk_node(0, d,
/// UninitializedMemory, None)` pins instruction pointer, payload, provenance and "no size limit" of the constructor call
pub uninterp spec fn mk_node(instruction_pointer: u32, data: RSVD, provenance: Provenance, value_size_limit: Option<usize>) -> RuntimeBoxedVal;
//@extract file=src/vm/value/mod.rs path="impl RSV" kind=header
//@end
    // A-CALLEE: `RSV::new`: with no size limit the payload is kept as given (PROVED in unit value_size:
    // C18.vs.new.no_limit_untouched); with a limit the node may be culled to a fresh `Value` — nothing is promised then.
    #[verifier::external_body]
    pub fn new(instruction_pointer: u32, data: RSVD, provenance: Provenance, value_size_limit: Option<usize>) -> (r: RuntimeBoxedVal)
        ensures
            r == mk_node(instruction_pointer, data, provenance, value_size_limit),
            value_size_limit is None ==> r.dt() == data,
    { unimplemented!() }
//@extract file=src/vm/value/mod.rs path="impl RSV|fn new_known_value" props=C07
//@ret r
//@spec
        ensures
            r == mk_node(instruction_pointer, RSVD::KnownData { value: value_data }, provenance, value_size_limit),
            value_size_limit is None ==> r.dt() == (RSVD::KnownData { value: value_data }),
//@end
}

// ---- A-STD: std calls without a vstd specification ------------------------------------------------------------
// A-STD: `Entry::or_insert_with(f)`: the value already filed under the key, else the one `f` returns is filed;
// a mutable reference to the filed value is returned (same shape as vstd's specification of `or_insert`).
pub assume_specification<'a, K, V, A: core::alloc::Allocator, F: FnOnce() -> V>[ Entry::<'a, K, V, A>::or_insert_with ](entry: Entry<'a, K, V, A>, default: F) -> (r: &'a mut V)
    requires entry.value() is None ==> default.requires(()),
    ensures
        match entry.value() { Some(v) => *r == v, None => default.ensures((), *r) },
        entry.final_value() == Some(*final(r));
// A-STD (R-CALL stand-in): `stores.iter().map(|store| &store.data).collect::<Vec<&_>>()`: references to the `data`
// fields of the elements, in order
#[verifier::external_body]
pub fn data_refs(v: &Vec<MemStore>) -> (r: Vec<&RuntimeBoxedVal>)
    ensures r@.len() == v@.len(), forall|i: int| 0 <= i < v@.len() ==> *#[trigger] r@[i] == v@[i].d(),
{ v.iter().map(|store| &store.data).collect() }
// A-STD (R-CALL stand-in): `map.keys().collect::<Vec<&K>>()`: every key exactly once, in an unspecified order
#[verifier::external_body]
pub fn map_keys<K, V>(m: &HashMap<K, V>) -> (r: Vec<&K>)
    ensures
        r@.len() == m@.len(),
        forall|i: int| 0 <= i < r@.len() ==> m@.contains_key(*#[trigger] r@[i]),
        forall|k: K| m@.contains_key(k) ==> exists|i: int| 0 <= i < r@.len() && *#[trigger] r@[i] == k,
{ m.keys().collect() }

// ---- Memory ----------------------------------------------------------------------------------------------------
//@extract file=src/constant.rs path="const WORD_SIZE_BITS" kind=type
//@end
#[derive(Copy, Clone)]
//@extract file=src/vm/state/memory.rs path="enum MemStoreSize" kind=type
//@end
//@extract file=src/vm/state/memory.rs path="struct MemStore" kind=type
//@end
//@extract file=src/vm/state/memory.rs path="struct Memory" kind=type
//@end

/// THE KEY SPACE of the abstract memory: a constant offset AS A 64-BIT NUMBER, or a symbolic offset expression
pub ghost enum MKey {
    Const(nat),
    Sym(RuntimeBoxedVal),
}
/// the key an offset operand names: the offset is constant-folded first (A-CALLEE `fold`); a literal is filed under
/// the LOW 64 BITS of its 256-bit value (what `usize::from(&KnownWord)` keeps — all 64 of them), anything else under
/// the folded expression
pub open spec fn key_of(offset: RuntimeBoxedVal) -> MKey {
    match fold(offset).dt() {
        RSVD::KnownData { value } => MKey::Const(low64(value)),
        _ => MKey::Sym(fold(offset)),
    }
}
/// one generation: the value stored and the width of the store (MemStore and its fields are private to memory.rs;
/// `gen` / `d` / `sz` are its constructor and projections for the contracts)
pub closed spec fn gen(data: RuntimeBoxedVal, size: MemStoreSize) -> MemStore { MemStore { data, size } }
impl MemStore {
    pub closed spec fn d(self) -> RuntimeBoxedVal { self.data }
    pub closed spec fn sz(self) -> MemStoreSize { self.size }
}
/// the word an unwritten location reads as: `RSV::new_known_value(0, KnownWord::zero(), UninitializedMemory, None)`
pub open spec fn uninit_word() -> RuntimeBoxedVal {
    mk_node(0, RSVD::KnownData { value: kw_zero() }, Provenance::UninitializedMemory, None)
}
/// ... filed as a word-sized store
pub open spec fn uninit_store() -> MemStore { gen(uninit_word(), MemStoreSize::Word) }
/// `w` is a literal whose value is 0
pub open spec fn is_zero_literal(w: RuntimeBoxedVal) -> bool { w.dt() matches RSVD::KnownData { value } && value.v() == 0 }
/// no vector on file is empty (what `get_or_initialize`'s `unwrap()` relies on)
pub open spec fn no_empty_history<K>(m: Map<K, Vec<MemStore>>) -> bool {
    forall|k: K| #[trigger] m.contains_key(k) ==> m[k]@.len() > 0
}

impl Memory {
    /// THE ABSTRACT VIEW: the history of stores (generations) under key `k`, oldest first; empty = never touched
    pub closed spec fn hist(&self, k: MKey) -> Seq<MemStore> {
        match k {
            MKey::Const(n) => if n <= usize::MAX && self.constant_offsets@.contains_key(n as usize) { self.constant_offsets@[n as usize]@ } else { Seq::empty() },
            MKey::Sym(e) => if self.symbolic_offsets@.contains_key(e) { self.symbolic_offsets@[e]@ } else { Seq::empty() },
        }
    }
    /// number of keys on file
    pub closed spec fn entries(&self) -> nat { self.symbolic_offsets@.len() + self.constant_offsets@.len() }
    /// the copy limit handed to `new`
    pub closed spec fn copy_limit(&self) -> usize { self.max_single_operation_bytes }
    /// representation invariant (established by `new`, kept by every method; the fields are private):
    /// a key on file has a non-empty history, and a literal offset is never filed in the symbolic map
    pub closed spec fn wf(&self) -> bool {
        &&& no_empty_history(self.constant_offsets@)
        &&& no_empty_history(self.symbolic_offsets@)
        &&& forall|e: RuntimeBoxedVal| #[trigger] self.symbolic_offsets@.contains_key(e) ==> !(e.dt() is KnownData)
    }
}

//@extract file=src/vm/state/memory.rs path="impl MemStoreSize" kind=header
//@end
//@extract file=src/vm/state/memory.rs path="impl MemStoreSize|fn bits_count"
//@ret r
//@spec
        ensures r == (match *self { MemStoreSize::Byte => 8usize, MemStoreSize::Word => 256usize }),      //@ob C07.mem.bits_count.byte_is_8_word_is_256
//@end
}

//@extract file=src/vm/state/memory.rs path="impl Memory" kind=header
//@end
//@extract file=src/vm/state/memory.rs path="impl Memory|fn new"
//@ret r
//@spec
        ensures
            r.wf(),
            forall|k: MKey| #[trigger] r.hist(k) == Seq::<MemStore>::empty(),      //@ob C07.mem.new.no_history
            r.entries() == 0,
            r.copy_limit() == max_single_operation_bytes,
//@proof entry
        broadcast use vstd::std_specs::hash::group_hash_axioms, axiom_boxed_val_key_model;
//@end

//@extract file=src/vm/state/memory.rs path="impl Memory|fn store"
//@spec
        requires old(self).wf(),
        ensures
            final(self).wf(),      //@ob C01.mem.store.keeps_every_history_on_file_non_empty
            final(self).hist(key_of(offset)) == old(self).hist(key_of(offset)).push(gen(value, MemStoreSize::Word)),      //@ob C07.mem.store.appends_a_word_store_to_the_history_of_its_offset
            forall|o: MKey| o != key_of(offset) ==> #[trigger] final(self).hist(o) == old(self).hist(o),                                    //@ob C07.mem.store.other_histories_unchanged
//@end

//@extract file=src/vm/state/memory.rs path="impl Memory|fn store_8"
//@spec
        requires old(self).wf(),
        ensures
            final(self).wf(),      //@ob C01.mem.store_8.keeps_every_history_on_file_non_empty
            final(self).hist(key_of(offset)) == old(self).hist(key_of(offset)).push(gen(value, MemStoreSize::Byte)),      //@ob C07.mem.store_8.appends_a_byte_store_to_the_history_of_its_offset
            forall|o: MKey| o != key_of(offset) ==> #[trigger] final(self).hist(o) == old(self).hist(o),                                    //@ob C07.mem.store_8.other_histories_unchanged
//@end

//@extract file=src/vm/state/memory.rs path="impl Memory|fn store_with_size"
//@spec
        requires old(self).wf(),
        ensures
            final(self).wf(),      //@ob C01.mem.store_with_size.keeps_every_history_on_file_non_empty
            // the store is appended to the history of exactly the key its offset names ...
            final(self).hist(key_of(offset)) == old(self).hist(key_of(offset)).push(gen(value, size)),      //@ob C07.mem.store_with_size.appends_to_the_history_of_its_offset
            // ... and every other history is what it was (nothing is overwritten, shortened or removed)
            forall|o: MKey| o != key_of(offset) ==> #[trigger] final(self).hist(o) == old(self).hist(o),                //@ob C07.mem.store_with_size.other_histories_unchanged
            final(self).entries() == old(self).entries() + (if old(self).hist(key_of(offset)).len() == 0 { 1nat } else { 0nat }),      //@ob C07.mem.store_with_size.files_one_new_key_iff_the_offset_had_no_history
            final(self).copy_limit() == old(self).copy_limit(),
//@proof entry
        broadcast use vstd::std_specs::hash::group_hash_axioms, axiom_boxed_val_key_model;
//@end

//@extract file=src/vm/state/memory.rs path="impl Memory|fn load"
//@ret r
//@spec
        requires old(self).wf(),
        ensures
            final(self).wf(),      //@ob C01.mem.load.keeps_every_history_on_file_non_empty
            // an offset with a history: the data of the most recent store is returned, the history is untouched
            old(self).hist(key_of(*offset)).len() > 0 ==> final(self).hist(key_of(*offset)) == old(self).hist(key_of(*offset))
                && r == old(self).hist(key_of(*offset)).last().d(),                                                      //@ob C07.mem.load.returns_the_last_store
            // an offset never written on this path: the all-zero word becomes its first generation and is returned
            old(self).hist(key_of(*offset)).len() == 0 ==> final(self).hist(key_of(*offset)) == seq![uninit_store()]
                && r == uninit_word() && is_zero_literal(r),                                                              //@ob C07.mem.load.unwritten_offset_reads_zero_and_files_it
            // no other history changes (a load never shortens, reorders or drops anything)
            forall|o: MKey| o != key_of(*offset) ==> #[trigger] final(self).hist(o) == old(self).hist(o),               //@ob C07.mem.load.other_histories_unchanged
            final(self).copy_limit() == old(self).copy_limit(),
//@proof entry
        broadcast use vstd::std_specs::hash::group_hash_axioms, axiom_boxed_val_key_model;
//@end

//@extract file=src/vm/state/memory.rs path="impl Memory|fn get_or_initialize"
//@ret r
// R-SIG: the closure that builds the all-zero word gets a declared postcondition (Verus infers none for a closure);
// its body `$1` stays repository text and is verified against it
//@rw R-SIG
//@old
.or_insert_with(|| { $1 });
//@new
.or_insert_with(|| -> (fresh: Vec<MemStore>)
            ensures fresh@ =~= seq![uninit_store()] && is_zero_literal(fresh@[0].d()),      //@ob C07.mem.get_or_initialize.first_generation_is_the_zero_word
        { $1 });
//@spec
        requires
            vstd::std_specs::hash::obeys_key_model::<K>(),
            // K's `clone` returns an equal key (usize; Arc::clone of a value — A-DERIVE above)
            forall|a: &K, b: K| #[trigger] call_ensures(<K as Clone>::clone, (a,), b) ==> *a == b,
            no_empty_history(old(map)@),
        ensures
            no_empty_history(final(map)@),      //@ob C01.mem.get_or_initialize.keeps_every_history_on_file_non_empty
            // a key on file: nothing changes, the data of its last store is returned
            old(map)@.contains_key(*key) ==> final(map)@ =~= old(map)@
                && *r == old(map)@[*key]@.last().d(),                                                                    //@ob C07.mem.get_or_initialize.returns_the_last_store
            // a key not on file: the zero word is filed as its only generation and returned; no other key is touched
            !old(map)@.contains_key(*key) ==> final(map)@.contains_key(*key) && final(map)@[*key]@ =~= seq![uninit_store()]
                && final(map)@ =~= old(map)@.insert(*key, final(map)@[*key])
                && *r == uninit_word() && is_zero_literal(*r),                                                            //@ob C07.mem.get_or_initialize.unwritten_key_reads_zero_and_files_it
//@proof entry
        broadcast use vstd::std_specs::hash::group_hash_axioms;
//@end

//@extract file=src/vm/state/memory.rs path="impl Memory|fn generations"
//@ret r
// R-CALL: `stores.iter().map(|store| &store.data).collect()` -> A-STD stand-in data_refs;
// R-MAPERR: `Option::map(closure)` written out as the match it is; the operand expressions stay repository text
//@rw R-CALL
//@old
stores.iter().map(|store| &store.data).collect()
//@new
data_refs(stores)
//@rw R-MAPERR
//@old
self.symbolic_offsets.get(offset).map(|$1| data_refs($2))
//@new
match self.symbolic_offsets.get(offset) { Some($1) => Some(data_refs($2)), None => None }
//@spec
        requires self.wf(),
        ensures
            // NOTE (what the code does — SUSPICIOUS, reported): only the SYMBOLIC part is consulted, under the offset AS GIVEN
            // (not folded, although store/load fold): the history of a constant offset, or of an expression that folds (e.g.
            // 0x10 + 0x10, filed under Const(0x20)), is NOT reported — hist(key_of(offset)) may be non-empty while this returns
            // None. The clause states exactly what is returned; `generations(off) reports hist(key_of(off))` does NOT hold
            // (lemma_introspection_is_blind_to_constant_offsets). Same for query_store_size and offsets. No caller outside
            // #[cfg(test)] code uses the three.
            match r {
                Some(g) => self.hist(MKey::Sym(*offset)).len() > 0 && g@.len() == self.hist(MKey::Sym(*offset)).len()
                    && forall|i: int| 0 <= i < g@.len() ==> *#[trigger] g@[i] == self.hist(MKey::Sym(*offset))[i].d(),
                None => self.hist(MKey::Sym(*offset)).len() == 0,
            },                                                                                              //@ob C07.mem.generations.the_history_of_the_symbolic_offset_in_order
//@proof entry
        broadcast use vstd::std_specs::hash::group_hash_axioms, axiom_boxed_val_key_model;
//@end

//@extract file=src/vm/state/memory.rs path="impl Memory|fn query_store_size"
//@ret r
// R-MAPERR: `opt.and_then(|g| E).map(|x| F)` written out as the nested match it is (no inferred postcondition for
// closures); the closure parameters and bodies `$1..$4` stay repository text
//@rw R-MAPERR
//@old
self.symbolic_offsets.get(offset).and_then(|$1| $2).map(|$3| $4)
//@new
match self.symbolic_offsets.get(offset) { Some($1) => match $2 { Some($3) => Some($4), None => None }, None => None }
//@spec
        requires self.wf(),
        ensures
            // the width of the FIRST store under the symbolic offset as given (see the note at `generations`)
            r == (if self.hist(MKey::Sym(*offset)).len() > 0 { Some(self.hist(MKey::Sym(*offset))[0].sz()) } else { None }),      //@ob C07.mem.query_store_size.size_of_the_first_store
//@proof entry
        broadcast use vstd::std_specs::hash::group_hash_axioms, axiom_boxed_val_key_model;
//@end

//@extract file=src/vm/state/memory.rs path="impl Memory|fn offsets"
//@ret r
// R-CALL: `map.keys().collect()` -> A-STD stand-in map_keys
//@rw R-CALL
//@old
self.symbolic_offsets.keys().collect()
//@new
map_keys(&self.symbolic_offsets)
//@spec
        requires self.wf(),
        ensures
            // every SYMBOLIC offset with a history is listed, and only those (constant offsets are not listed)
            forall|e: RuntimeBoxedVal| self.hist(MKey::Sym(e)).len() > 0 ==> exists|i: int| 0 <= i < r@.len() && *#[trigger] r@[i] == e,      //@ob C07.mem.offsets.lists_every_symbolic_offset_with_a_history
            forall|i: int| 0 <= i < r@.len() ==> self.hist(MKey::Sym(*#[trigger] r@[i])).len() > 0,                                           //@ob C07.mem.offsets.only_offsets_with_a_history
//@proof entry
        broadcast use vstd::std_specs::hash::group_hash_axioms, axiom_boxed_val_key_model;
//@end

//@extract file=src/vm/state/memory.rs path="impl Memory|fn entry_count"
//@ret r
//@spec
        requires
            self.entries() <= usize::MAX,       // caller obligation (C01): both maps are in memory, so their entry counts cannot add up beyond the address space
        ensures r == self.entries(),
//@proof entry
        broadcast use vstd::std_specs::hash::group_hash_axioms, axiom_boxed_val_key_model;
//@end

//@extract file=src/vm/state/memory.rs path="impl Memory|fn is_empty"
//@ret r
//@spec
        requires self.entries() <= usize::MAX,
        ensures r == (self.entries() == 0),
//@end
}

// ---- what the contracts are worth to a caller --------------------------------------------------------------
/// `gen` / `d` / `sz` are constructor and projections (exported because the three are closed)
pub broadcast proof fn lemma_gen_projections(data: RuntimeBoxedVal, size: MemStoreSize)
    ensures (#[trigger] gen(data, size)).d() == data, gen(data, size).sz() == size,
{}
/// the truncation is to 64 bits and no further: two literal offsets below 2^64 name the same key only if they are equal
/// (in particular 0 and 2^32, or 0x20 and 2^32 + 0x20, are different memory words)
pub proof fn lemma_offsets_below_2_64_do_not_alias(a: RuntimeBoxedVal, b: RuntimeBoxedVal)
    requires
        fold(a).dt() matches RSVD::KnownData { value: x } && fold(b).dt() matches RSVD::KnownData { value: y }
            && x.v() < P64() && y.v() < P64() && x.v() != y.v(),
    ensures key_of(a) != key_of(b),      //@ob C07.mem.lemma.literal_offsets_below_2_64_do_not_alias
{
    let x = fold(a).dt()->KnownData_value;
    let y = fold(b).dt()->KnownData_value;
    assert(x.v() % P64() == x.v() && y.v() % P64() == y.v()) by(nonlinear_arith) requires x.v() < P64(), y.v() < P64(), P64() > 0;
}
/// a literal offset is never filed in the symbolic part — so `generations`, `query_store_size` and `offsets` (which
/// consult only that part) say "no history" for EVERY constant offset, whatever was stored there (see the note at
/// `generations`; confirmed on the real crate: store(0x20, v); generations(0x20) == None, query_store_size(0x20) == None,
/// offsets() == [], entry_count() == 1)
pub proof fn lemma_introspection_is_blind_to_constant_offsets(m: Memory, e: RuntimeBoxedVal)
    requires m.wf(), e.dt() is KnownData,
    ensures m.hist(MKey::Sym(e)).len() == 0,      //@ob C07.mem.lemma.a_literal_offset_has_no_symbolic_history
{}
/// the history a sequence of stores `(key, generation)` leaves under key `k` (in order)
pub open spec fn stores_to(ws: Seq<(MKey, MemStore)>, k: MKey) -> Seq<MemStore>
    decreases ws.len()
{
    if ws.len() == 0 { Seq::empty() }
    else if ws.last().0 == k { stores_to(ws.drop_last(), k).push(ws.last().1) }
    else { stores_to(ws.drop_last(), k) }
}
/// one `store` / `store_8` step keeps "the history of every key is the initial history followed by the stores to that
/// key, in order" (the hypotheses are exactly store_with_size's postconditions, so a caller can chain it over any path)
pub proof fn lemma_store_extends_the_store_log(pre: Memory, post: Memory, h0: spec_fn(MKey) -> Seq<MemStore>,
        ws: Seq<(MKey, MemStore)>, key: MKey, g: MemStore)
    requires
        forall|k: MKey| #[trigger] pre.hist(k) == h0(k) + stores_to(ws, k),
        post.hist(key) == pre.hist(key).push(g),
        forall|o: MKey| o != key ==> #[trigger] post.hist(o) == pre.hist(o),
    ensures
        forall|k: MKey| #[trigger] post.hist(k) == h0(k) + stores_to(ws.push((key, g)), k),      //@ob C07.mem.lemma.history_is_exactly_the_stores_in_order
{
    let ws2 = ws.push((key, g));
    assert(ws2.drop_last() =~= ws);
    assert forall|k: MKey| #[trigger] post.hist(k) == h0(k) + stores_to(ws2, k) by {
        assert(pre.hist(k) == h0(k) + stores_to(ws, k));
        if k == key {
            assert((h0(k) + stores_to(ws, k)).push(g) =~= h0(k) + stores_to(ws, k).push(g));
        } else {
            assert(post.hist(k) == pre.hist(k));
        }
    }
}
} // verus!

// Client harnesses (hand-written callers, NOT repository code): MSTORE / MLOAD sequences against the contracts ONLY — in
// this module `hist`, `wf`, `gen` are closed, so nothing but the postconditions above is available.
mod client {
use vstd::prelude::*;
use super::*;
verus! {
/// MSTORE(off, v); MLOAD(off2) with the same key reads v — whatever was there before
fn mstore_then_mload(m: &mut Memory, off: RuntimeBoxedVal, v: RuntimeBoxedVal, off2: &RuntimeBoxedVal) -> (r: RuntimeBoxedVal)
    requires old(m).wf(), key_of(off) == key_of(*off2),
    ensures r == v, final(m).wf(),      //@ob C07.mem.client.mload_after_mstore_reads_the_stored_word
{
    broadcast use lemma_gen_projections;
    m.store(off, v.clone());
    m.load(off2)
}
/// MSTORE to one key does not change what MLOAD reads at another key
fn mstore_elsewhere_then_mload(m: &mut Memory, off: RuntimeBoxedVal, v: RuntimeBoxedVal, off2: &RuntimeBoxedVal) -> (r: RuntimeBoxedVal)
    requires old(m).wf(), key_of(off) != key_of(*off2),
    ensures
        old(m).hist(key_of(*off2)).len() > 0 ==> r == old(m).hist(key_of(*off2)).last().d(),
        old(m).hist(key_of(*off2)).len() == 0 ==> is_zero_literal(r) && r == uninit_word(),      //@ob C07.mem.client.mstore_elsewhere_does_not_change_mload
{
    m.store(off, v);
    m.load(off2)
}
/// MLOAD of a never-written offset reads zero, twice, and files ONE generation (the second load re-reads the first)
fn mload_unwritten_twice(m: &mut Memory, off: &RuntimeBoxedVal) -> (r: (RuntimeBoxedVal, RuntimeBoxedVal))
    requires old(m).wf(), old(m).hist(key_of(*off)).len() == 0,
    ensures is_zero_literal(r.0), r.1 == r.0, final(m).hist(key_of(*off)).len() == 1,      //@ob C07.mem.client.unwritten_offset_reads_zero_every_time
{
    broadcast use lemma_gen_projections;
    let a = m.load(off);
    let b = m.load(off);
    (a, b)
}
/// two MSTOREs, then MLOAD reads the second; a fresh memory reads zero everywhere
fn overwrite_then_mload(off: RuntimeBoxedVal, v1: RuntimeBoxedVal, v2: RuntimeBoxedVal) -> (r: (RuntimeBoxedVal, RuntimeBoxedVal))
    ensures is_zero_literal(r.0), r.1 == v2,      //@ob C07.mem.client.fresh_memory_reads_zero_and_the_latest_store_wins
{
    broadcast use lemma_gen_projections;
    let mut m = Memory::new(1024);
    let z = m.load(&off);
    m.store(off.clone(), v1);
    m.store_8(off.clone(), v2.clone());
    let r = m.load(&off);
    (z, r)
}
} // verus!
}
fn main() {}
