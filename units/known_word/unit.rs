//@unit props=C09,C01,C07
// Unit known_word — src/vm/value/known.rs: every KnownWord operation against the EVM's
// mathematical definition of the instruction (C09, C07 word semantics), conversions without
// truncation where the property needs it (C06), and panic-freedom of all of them (C01).
use vstd::prelude::*;
use vstd::arithmetic::power::*;
use vstd::arithmetic::power2::*;
use vstd::arithmetic::div_mod::*;
use vstd::arithmetic::mul::*;
//@include common/ethnum_prelude.rs
verus! {

// ---------------- EVM semantics (written from the EVM definition, not from the code) -----------
pub open spec fn evm_add(a: nat, b: nat) -> nat { (a + b) % M() }
pub open spec fn evm_mul(a: nat, b: nat) -> nat { (a * b) % M() }
pub open spec fn evm_sub(a: nat, b: nat) -> nat { ((a as int - b as int) % (M() as int)) as nat }
pub open spec fn evm_div(a: nat, b: nat) -> nat { if b == 0 { 0 } else { a / b } }
pub open spec fn evm_mod(a: nat, b: nat) -> nat { if b == 0 { 0 } else { a % b } }
/// SDIV: truncating division on two's complement; x / 0 = 0; MIN / -1 = MIN (the quotient 2^255 wraps)
pub open spec fn evm_sdiv(a: nat, b: nat) -> nat { to_unsigned(tdiv(to_signed(a), to_signed(b))) }
/// SMOD: result takes the sign of the dividend; x % 0 = 0
pub open spec fn evm_smod(a: nat, b: nat) -> nat { to_unsigned(trem(to_signed(a), to_signed(b))) }
pub open spec fn evm_exp(a: nat, e: nat) -> nat { (pow(a as int, e) % (M() as int)) as nat }
pub open spec fn b2n(b: bool) -> nat { if b { 1 } else { 0 } }
pub open spec fn evm_lt(a: nat, b: nat) -> nat { b2n(a < b) }
pub open spec fn evm_gt(a: nat, b: nat) -> nat { b2n(a > b) }
pub open spec fn evm_slt(a: nat, b: nat) -> nat { b2n(to_signed(a) < to_signed(b)) }
pub open spec fn evm_sgt(a: nat, b: nat) -> nat { b2n(to_signed(a) > to_signed(b)) }
pub open spec fn evm_eq(a: nat, b: nat) -> nat { b2n(a == b) }
pub open spec fn evm_iszero(a: nat) -> nat { b2n(a == 0) }
pub open spec fn evm_and(a: nat, b: nat) -> nat { bit_and(a, b) }
pub open spec fn evm_or(a: nat, b: nat) -> nat { bit_or(a, b) }
pub open spec fn evm_xor(a: nat, b: nat) -> nat { bit_xor(a, b) }
pub open spec fn evm_not(a: nat) -> nat { bit_not(a) }
/// SHL(shift, value): zero once the shift reaches the word size
pub open spec fn evm_shl(shift: nat, value: nat) -> nat { if shift >= 256 { 0 } else { (value * pow2(shift)) % M() } }
pub open spec fn evm_shr(shift: nat, value: nat) -> nat { if shift >= 256 { 0 } else { value / pow2(shift) } }
/// SAR(shift, value): floor division of the signed value; only sign bits remain for shift >= 256
pub open spec fn evm_sar(shift: nat, value: nat) -> nat {
    to_unsigned(if shift >= 256 { if to_signed(value) < 0 { -1int } else { 0int } } else { to_signed(value) / (pow2(shift) as int) })
}

// ---------------- lemmas ----------------
pub proof fn lemma_signed_roundtrip()
    ensures forall|y: nat| y < M() ==> #[trigger] to_unsigned(to_signed(y)) == y,
            forall|y: nat| y < M() ==> (#[trigger] to_signed(y) == 0) == (y == 0),
            forall|x: int| -(M() as int) / 2 <= x < (M() as int) / 2 ==> #[trigger] to_signed(to_unsigned(x)) == x,
{
    assert forall|y: nat| y < M() implies #[trigger] to_unsigned(to_signed(y)) == y by {
        if y < M() / 2 { assert((y as int) % (M() as int) == y) by(nonlinear_arith) requires 0 <= y < M(); }
        else { assert((y as int - M() as int) % (M() as int) == y) by(nonlinear_arith) requires M()/2 <= y < M(), M() > 0; }
    }
    assert forall|x: int| -(M() as int) / 2 <= x < (M() as int) / 2 implies #[trigger] to_signed(to_unsigned(x)) == x by {
        let m = M() as int;
        if x >= 0 { assert(x % m == x) by(nonlinear_arith) requires 0 <= x < m; }
        else { assert(x % m == x + m) by(nonlinear_arith) requires -m <= x < 0, m > 0; }
    }
}

proof fn lemma_exp_step(r: nat, b: nat, e: nat)
    requires e > 0
    ensures
        e % 2 == 1 ==> (r * pow(b as int, e)) % (M() as int) == ((((r * b) % M()) as int) * pow((((b * b) % M()) as int), e / 2)) % (M() as int),
        e % 2 == 0 ==> (r * pow(b as int, e)) % (M() as int) == ((r as int) * pow((((b * b) % M()) as int), e / 2)) % (M() as int),
{
    let m = M() as int;
    let bi = b as int;
    let h = e / 2;
    lemma_pow_multiplies(bi, 2, h);
    assert(pow(bi, 2) == bi * bi) by { reveal(pow); lemma_pow1(bi); assert(pow(bi, 2) == bi * pow(bi, 1)); }
    lemma_pow_mod_noop(bi * bi, h, m);
    if e % 2 == 1 {
        assert(e == 2 * h + 1);
        lemma_pow_adds(bi, 1, 2 * h);
        lemma_pow1(bi);
        assert(pow(bi, e) == bi * pow(bi * bi, h)) by { assert(pow(bi, (1 + 2 * h) as nat) == pow(bi, 1) * pow(bi, (2 * h) as nat)); }
        let x = pow(bi * bi, h);
        let x2 = pow((bi * bi) % m, h);
        assert(x % m == x2 % m);
        assert((r * (bi * x)) == (r * bi) * x) by(nonlinear_arith);
        lemma_mul_mod_noop_general(r * bi, x, m);
        lemma_mul_mod_noop_general(((r * bi) % m), x2, m);
        lemma_mul_mod_noop_general(r * bi, x2, m);
    } else {
        assert(e == 2 * h);
        let x = pow(bi * bi, h);
        let x2 = pow((bi * bi) % m, h);
        assert(pow(bi, e) == x);
        assert(x % m == x2 % m);
        lemma_mul_mod_noop_general(r as int, x, m);
        lemma_mul_mod_noop_general(r as int, x2, m);
    }
}

proof fn lemma_bit_and_one(a: nat)
    requires a < M()
    ensures (bit_and(a, 1) != 0) == (a % 2 == 1), bit_and(a, 1) <= 1
{
    let lo = (a % H()) as u128;
    let hi = (a / H()) as u128;
    assert(1nat / H() == 0 && 1nat % H() == 1) by(compute);
    assert(hi & 0u128 == 0) by(bit_vector);
    assert((lo & 1u128) == lo % 2) by(bit_vector);
    assert((a % H()) % 2 == a % 2) by {
        assert(H() == 2 * 0x8000_0000_0000_0000_0000_0000_0000_0000nat) by(compute);
        lemma_mod_mod(a as int, 2, 0x8000_0000_0000_0000_0000_0000_0000_0000int);
    }
}

// A-DERIVE: #[derive(Clone, Copy, PartialEq, Eq)] on KnownWord is structural; `value` is the only field
#[derive(Clone, Copy)]
//@extract file=src/vm/value/known.rs path="struct KnownWord" kind=type
//@end
impl KnownWord {
    /// the 256-bit number this word denotes
    pub closed spec fn v(self) -> nat { u(self.value) }
}
impl vstd::std_specs::cmp::PartialEqSpecImpl for KnownWord {
    open spec fn obeys_eq_spec() -> bool { true }
    open spec fn eq_spec(&self, other: &KnownWord) -> bool { self.v() == other.v() }
}
impl PartialEq for KnownWord {
    #[verifier::external_body]
    fn eq(&self, other: &KnownWord) -> (r: bool) { self.value == other.value }
}
pub broadcast proof fn v_range(w: KnownWord) ensures #[trigger] w.v() < M() { broadcast use u_range; }

//@extract file=src/vm/value/known.rs path="impl KnownWord" kind=header
//@end

//@extract file=src/vm/value/known.rs path="impl KnownWord|fn zero"
//@ret r
//@rw R-IMPL-INTO
//@old
Self::from_le(0x0u8)
//@new
Self::from_le(U256::from(0x0u8))
//@spec
        ensures r.v() == 0,        //@ob C09.kw.zero
//@end

//@extract file=src/vm/value/known.rs path="impl KnownWord|fn from_le"
//@ret r
//@rw R-IMPL-INTO
//@old
value: impl Into<U256>
//@new
value: U256
//@rw R-IMPL-INTO
//@old
let value = value.into();
//@new
let value = value;
//@spec
        ensures r.v() == u(value),     //@ob C09.kw.from_le C06.kw.from_le.exact
//@end

//@extract file=src/vm/value/known.rs path="impl KnownWord|fn from_be"
//@ret r
//@rw R-IMPL-INTO
//@old
value: impl Into<U256>
//@new
value: U256
//@rw R-IMPL-INTO
//@old
value.into().swap_bytes()
//@new
value.swap_bytes()
//@spec
        ensures r.v() == bswap(u(value)),     //@ob C09.kw.from_be
//@end

//@extract file=src/vm/value/known.rs path="impl KnownWord|fn from_le_signed"
//@ret r
//@rw R-IMPL-INTO
//@old
value: impl Into<I256>
//@new
value: I256
//@rw R-IMPL-INTO
//@old
value.into().to_ne_bytes()
//@new
value.to_ne_bytes()
//@spec
        ensures r.v() == to_unsigned(s(value)),     //@ob C09.kw.from_le_signed
//@end

//@extract file=src/vm/value/known.rs path="impl KnownWord|fn value_le"
//@ret r
//@spec
        ensures u(r) == self.v(),      //@ob C09.kw.value_le C06.kw.value_le.exact
//@end

//@extract file=src/vm/value/known.rs path="impl KnownWord|fn value_le_signed"
//@ret r
//@spec
        ensures s(r) == to_signed(self.v()),      //@ob C09.kw.value_le_signed
//@end

//@extract file=src/vm/value/known.rs path="impl KnownWord|fn value_be"
//@ret r
//@spec
        ensures u(r) == bswap(self.v()),      //@ob C09.kw.value_be
//@end

//@extract file=src/vm/value/known.rs path="impl KnownWord|fn signed_div"
//@ret r
//@spec
        ensures r.v() == evm_sdiv(self.v(), rhs.v()),      //@ob C09.kw.sdiv
//@proof entry
        proof { broadcast use u_range, le_val_range; lemma_signed_roundtrip(); }
//@end

//@extract file=src/vm/value/known.rs path="impl KnownWord|fn signed_rem"
//@ret r
//@spec
        ensures r.v() == evm_smod(self.v(), rhs.v()),      //@ob C09.kw.smod
//@proof entry
        proof { broadcast use u_range, le_val_range; lemma_signed_roundtrip(); }
//@end

//@extract file=src/vm/value/known.rs path="impl KnownWord|fn exp"
//@ret r
//@spec
        ensures r.v() == evm_exp(self.v(), rhs.v()),      //@ob C09.kw.exp
//@proof entry
        proof { broadcast use u_range; }
//@loop 1 kind=while
            invariant
                u(zero) == 0,
                (u(result) * pow(u(base) as int, u(exponent))) % (M() as int) == pow(u(self.value) as int, u(rhs.value)) % (M() as int),
            decreases u(exponent)
//@proof before "while exponent != zero"
        proof {
            assert((1 * pow(u(self.value) as int, u(rhs.value))) % (M() as int) == pow(u(self.value) as int, u(rhs.value)) % (M() as int)) by { lemma_mul_basics(pow(u(self.value) as int, u(rhs.value))); }
        }
//@proof loopstart #1
            proof {
                broadcast use and_val_def, u_range, shr32_val_def;
                lemma_exp_step(u(result), u(base), u(exponent));
                lemma_bit_and_one(u(exponent));
                lemma2_to64();
            }
//@proof afterloop #1
        proof {
            lemma_pow0(u(base) as int);
            assert(u(result) * 1 == u(result)) by(nonlinear_arith);
            lemma_small_mod(u(result), M());
            lemma_pow_positive(u(self.value) as int + 1, u(rhs.value));
        }
//@end

//@extract file=src/vm/value/known.rs path="impl KnownWord|fn lt"
//@ret r
//@spec
        ensures r.v() == evm_lt(self.v(), rhs.v()),      //@ob C09.kw.lt
//@end

//@extract file=src/vm/value/known.rs path="impl KnownWord|fn gt"
//@ret r
//@spec
        ensures r.v() == evm_gt(self.v(), rhs.v()),      //@ob C09.kw.gt
//@end

//@extract file=src/vm/value/known.rs path="impl KnownWord|fn signed_lt"
//@ret r
//@spec
        ensures r.v() == evm_slt(self.v(), rhs.v()),      //@ob C09.kw.slt
//@proof entry
        proof { broadcast use u_range, le_val_range; }
//@end

//@extract file=src/vm/value/known.rs path="impl KnownWord|fn signed_gt"
//@ret r
//@spec
        ensures r.v() == evm_sgt(self.v(), rhs.v()),      //@ob C09.kw.sgt
//@proof entry
        proof { broadcast use u_range, le_val_range; }
//@end

//@extract file=src/vm/value/known.rs path="impl KnownWord|fn eq"
//@ret r
//@spec
        ensures r.v() == evm_eq(self.v(), rhs.v()),      //@ob C09.kw.eq
//@end

//@extract file=src/vm/value/known.rs path="impl KnownWord|fn is_zero"
//@ret r
//@spec
        ensures r.v() == evm_iszero(self.v()),      //@ob C09.kw.iszero
//@end

//@extract file=src/vm/value/known.rs path="impl KnownWord|fn sar"
//@ret r
//@spec
        ensures r.v() == evm_sar(rhs.v(), self.v()),      //@ob C09.kw.sar
//@proof entry
        proof { broadcast use u_range, le_val_range, sar_val_def; lemma_signed_roundtrip(); }
//@end
}


// The operator traits carry vstd's trait-level postcondition `obeys_X_spec() ==> r == X_spec(..)`;
// it is switched off (obeys = false) and the EVM postcondition is stated on the impl method itself.
impl vstd::std_specs::ops::AddSpecImpl<KnownWord> for KnownWord {
    open spec fn obeys_add_spec() -> bool { false }
    open spec fn add_req(self, rhs: KnownWord) -> bool { true }
    open spec fn add_spec(self, rhs: KnownWord) -> KnownWord { self }
}
impl vstd::std_specs::ops::MulSpecImpl<KnownWord> for KnownWord {
    open spec fn obeys_mul_spec() -> bool { false }
    open spec fn mul_req(self, rhs: KnownWord) -> bool { true }
    open spec fn mul_spec(self, rhs: KnownWord) -> KnownWord { self }
}
impl vstd::std_specs::ops::SubSpecImpl<KnownWord> for KnownWord {
    open spec fn obeys_sub_spec() -> bool { false }
    open spec fn sub_req(self, rhs: KnownWord) -> bool { true }
    open spec fn sub_spec(self, rhs: KnownWord) -> KnownWord { self }
}
impl vstd::std_specs::ops::DivSpecImpl<KnownWord> for KnownWord {
    open spec fn obeys_div_spec() -> bool { false }
    open spec fn div_req(self, rhs: KnownWord) -> bool { true }
    open spec fn div_spec(self, rhs: KnownWord) -> KnownWord { self }
}
impl vstd::std_specs::ops::RemSpecImpl<KnownWord> for KnownWord {
    open spec fn obeys_rem_spec() -> bool { false }
    open spec fn rem_req(self, rhs: KnownWord) -> bool { true }
    open spec fn rem_spec(self, rhs: KnownWord) -> KnownWord { self }
}
impl vstd::std_specs::ops::BitAndSpecImpl<KnownWord> for KnownWord {
    open spec fn obeys_bitand_spec() -> bool { false }
    open spec fn bitand_req(self, rhs: KnownWord) -> bool { true }
    open spec fn bitand_spec(self, rhs: KnownWord) -> KnownWord { self }
}
impl vstd::std_specs::ops::BitOrSpecImpl<KnownWord> for KnownWord {
    open spec fn obeys_bitor_spec() -> bool { false }
    open spec fn bitor_req(self, rhs: KnownWord) -> bool { true }
    open spec fn bitor_spec(self, rhs: KnownWord) -> KnownWord { self }
}
impl vstd::std_specs::ops::BitXorSpecImpl<KnownWord> for KnownWord {
    open spec fn obeys_bitxor_spec() -> bool { false }
    open spec fn bitxor_req(self, rhs: KnownWord) -> bool { true }
    open spec fn bitxor_spec(self, rhs: KnownWord) -> KnownWord { self }
}
impl vstd::std_specs::ops::ShlSpecImpl<KnownWord> for KnownWord {
    open spec fn obeys_shl_spec() -> bool { false }
    open spec fn shl_req(self, rhs: KnownWord) -> bool { true }
    open spec fn shl_spec(self, rhs: KnownWord) -> KnownWord { self }
}
impl vstd::std_specs::ops::ShrSpecImpl<KnownWord> for KnownWord {
    open spec fn obeys_shr_spec() -> bool { false }
    open spec fn shr_req(self, rhs: KnownWord) -> bool { true }
    open spec fn shr_spec(self, rhs: KnownWord) -> KnownWord { self }
}
impl vstd::std_specs::ops::NotSpecImpl for KnownWord {
    open spec fn obeys_not_spec() -> bool { false }
    open spec fn not_req(self) -> bool { true }
    open spec fn not_spec(self) -> KnownWord { self }
}
impl vstd::std_specs::convert::FromSpecImpl<bool> for KnownWord {
    open spec fn obeys_from_spec() -> bool { false }
    open spec fn from_spec(v: bool) -> KnownWord { arbitrary() }
}
//@extract file=src/vm/value/known.rs path="impl std::ops::Add<KnownWord> for KnownWord" kind=header
//@end
    type Output = KnownWord;
//@extract file=src/vm/value/known.rs path="impl std::ops::Add<KnownWord> for KnownWord|fn add"
//@ret r
//@spec
        ensures r.v() == evm_add(self.v(), rhs.v()),      //@ob C09.kw.add
//@end
}

//@extract file=src/vm/value/known.rs path="impl std::ops::Mul<KnownWord> for KnownWord" kind=header
//@end
    type Output = KnownWord;
//@extract file=src/vm/value/known.rs path="impl std::ops::Mul<KnownWord> for KnownWord|fn mul"
//@ret r
//@spec
        ensures r.v() == evm_mul(self.v(), rhs.v()),      //@ob C09.kw.mul
//@end
}

//@extract file=src/vm/value/known.rs path="impl std::ops::Sub<KnownWord> for KnownWord" kind=header
//@end
    type Output = KnownWord;
//@extract file=src/vm/value/known.rs path="impl std::ops::Sub<KnownWord> for KnownWord|fn sub"
//@ret r
//@spec
        ensures r.v() == evm_sub(self.v(), rhs.v()),      //@ob C09.kw.sub
//@end
}

//@extract file=src/vm/value/known.rs path="impl std::ops::Div<KnownWord> for KnownWord" kind=header
//@end
    type Output = KnownWord;
//@extract file=src/vm/value/known.rs path="impl std::ops::Div<KnownWord> for KnownWord|fn div"
//@ret r
//@spec
        ensures r.v() == evm_div(self.v(), rhs.v()),      //@ob C09.kw.div
//@end
}

//@extract file=src/vm/value/known.rs path="impl std::ops::Rem<KnownWord> for KnownWord" kind=header
//@end
    type Output = KnownWord;
//@extract file=src/vm/value/known.rs path="impl std::ops::Rem<KnownWord> for KnownWord|fn rem"
//@ret r
//@spec
        ensures r.v() == evm_mod(self.v(), rhs.v()),      //@ob C09.kw.mod
//@end
}

//@extract file=src/vm/value/known.rs path="impl std::ops::BitAnd<KnownWord> for KnownWord" kind=header
//@end
    type Output = KnownWord;
//@extract file=src/vm/value/known.rs path="impl std::ops::BitAnd<KnownWord> for KnownWord|fn bitand"
//@ret r
//@spec
        ensures r.v() == evm_and(self.v(), rhs.v()),      //@ob C09.kw.and
//@proof entry
        proof { broadcast use and_val_def; }
//@end
}

//@extract file=src/vm/value/known.rs path="impl std::ops::BitOr<KnownWord> for KnownWord" kind=header
//@end
    type Output = KnownWord;
//@extract file=src/vm/value/known.rs path="impl std::ops::BitOr<KnownWord> for KnownWord|fn bitor"
//@ret r
//@spec
        ensures r.v() == evm_or(self.v(), rhs.v()),      //@ob C09.kw.or
//@proof entry
        proof { broadcast use or_val_def; }
//@end
}

//@extract file=src/vm/value/known.rs path="impl std::ops::BitXor<KnownWord> for KnownWord" kind=header
//@end
    type Output = KnownWord;
//@extract file=src/vm/value/known.rs path="impl std::ops::BitXor<KnownWord> for KnownWord|fn bitxor"
//@ret r
//@spec
        ensures r.v() == evm_xor(self.v(), rhs.v()),      //@ob C09.kw.xor
//@proof entry
        proof { broadcast use xor_val_def; }
//@end
}

//@extract file=src/vm/value/known.rs path="impl std::ops::Not for KnownWord" kind=header
//@end
    type Output = KnownWord;
//@extract file=src/vm/value/known.rs path="impl std::ops::Not for KnownWord|fn not"
//@ret r
//@rw R-CALL
//@old
self.value.not()
//@new
!self.value
//@spec
        ensures r.v() == evm_not(self.v()),      //@ob C09.kw.not
//@proof entry
        proof { broadcast use not_val_def; }
//@end
}

//@extract file=src/vm/value/known.rs path="impl std::ops::Shl<KnownWord> for KnownWord" kind=header
//@end
    type Output = KnownWord;
//@extract file=src/vm/value/known.rs path="impl std::ops::Shl<KnownWord> for KnownWord|fn shl"
//@ret r
//@spec
        ensures r.v() == evm_shl(rhs.v(), self.v()),      //@ob C09.kw.shl
//@proof entry
        proof { broadcast use shl_val_def; }
//@end
}

//@extract file=src/vm/value/known.rs path="impl std::ops::Shr<KnownWord> for KnownWord" kind=header
//@end
    type Output = KnownWord;
//@extract file=src/vm/value/known.rs path="impl std::ops::Shr<KnownWord> for KnownWord|fn shr"
//@ret r
//@spec
        ensures r.v() == evm_shr(rhs.v(), self.v()),      //@ob C09.kw.shr
//@proof entry
        proof { broadcast use shr_val_def; }
//@end
}

//@extract file=src/vm/value/known.rs path="impl From<bool> for KnownWord" kind=header
//@end
//@extract file=src/vm/value/known.rs path="impl From<bool> for KnownWord|fn from"
//@ret r
//@rw R-IMPL-INTO
//@old
Self::from_le(1u8)
//@new
Self::from_le(U256::from(1u8))
//@rw R-IMPL-INTO
//@old
Self::from_le(0u8)
//@new
Self::from_le(U256::from(0u8))
//@spec
        ensures r.v() == b2n(value),      //@ob C09.kw.from_bool
//@end
}

} // verus!
fn main() {}
