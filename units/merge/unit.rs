//@unit props=C14,C15,C16,C01
// Unit merge — src/tc/unification.rs `merge` (pairwise combination of two pieces of typing evidence)
// on its non-`Packed` fragment, against the join of C15 (`join_te`), the component equalities of
// C14 (`eqs_te`), and — through that contract — the order/grouping laws of C16 with the D12
// carve-out written as exact predicates (DESIGN.md §2.3, §5 D12, §6 C16).
use vstd::prelude::*;

// A-ETHNUM: stand-in for ethnum::U256 (external crate). Only its derived `==` is used here.
// A-CALLEE: stand-in for crate::tc::state::TypeCheckerState (only touched by the opaque Packed arms).
mod ext {
    #[derive(Clone, Copy, PartialEq, Eq)]
    pub struct U256(pub [u128; 2]);
    pub struct TypeCheckerState;
}
use ext::{TypeCheckerState, U256};

verus! {

#[verifier::external_type_specification]
#[verifier::external_body]
pub struct ExU256(U256);
#[verifier::external_type_specification]
#[verifier::external_body]
pub struct ExTypeCheckerState(TypeCheckerState);
// A-ETHNUM: ethnum's `#[derive(PartialEq)]` on `U256([u128; 2])` is structural: `a == b` iff same value
impl vstd::std_specs::cmp::PartialEqSpecImpl for U256 {
    open spec fn obeys_eq_spec() -> bool { true }
    open spec fn eq_spec(&self, other: &U256) -> bool { *self == *other }
}
pub assume_specification[ <U256 as core::cmp::PartialEq>::eq ](a: &U256, b: &U256) -> (r: bool);

//@include word_use/items.rs

// =================================================================================================
// Types (extracted verbatim; derive lists replaced as A-DERIVE says)
// =================================================================================================
// A-DERIVE: #[derive(Copy, Clone, Eq, PartialEq)] on a struct of scalars is structural
#[derive(Copy, Clone, Eq, PartialEq, Structural)]
//@extract file=src/tc/state/type_variable.rs path="struct TypeVariable" kind=type
//@end

#[derive(Copy, Clone, Eq, PartialEq, Structural)]
//@extract file=src/tc/expression.rs path="struct Span" kind=type
//@end

//@extract file=src/tc/expression.rs path="type TE" kind=type
//@end

//@extract file=src/tc/expression.rs path="enum TypeExpression" kind=type
//@end

//@extract file=src/tc/unification.rs path="struct Merge" kind=type
//@end

#[derive(Copy, Clone, Eq, PartialEq, Structural)]
//@extract file=src/tc/unification.rs path="struct Equality" kind=type
//@end

//@extract file=src/tc/unification.rs path="struct Judgement" kind=type
//@end

// =================================================================================================
// Abstraction of a type expression: conflict payloads (which evidence, which wording) and packed
// details forgotten; everything C15/C16 compare is kept.
// =================================================================================================
pub enum A {
    Any,
    Bytes,
    Word { width: Option<usize>, usage: WordUse },
    Fixed { element: TypeVariable, length: U256 },
    Map { key: TypeVariable, value: TypeVariable },
    Dyn { element: TypeVariable },
    Conflict,
    /// outside the fragment under contract
    Packed,
    /// never a legal operand or result of `merge` (C14)
    Equal,
}

pub open spec fn abs(t: TypeExpression) -> A {
    match t {
        TypeExpression::Any => A::Any,
        TypeExpression::Equal { .. } => A::Equal,
        TypeExpression::Word { width, usage } => A::Word { width, usage },
        TypeExpression::Bytes => A::Bytes,
        TypeExpression::FixedArray { element, length } => A::Fixed { element, length },
        TypeExpression::Mapping { key, value } => A::Map { key, value },
        TypeExpression::DynamicArray { element } => A::Dyn { element },
        TypeExpression::Packed { .. } => A::Packed,
        TypeExpression::Conflict { .. } => A::Conflict,
    }
}
/// the fragment under contract: neither packed encodings nor (illegal) equalities
pub open spec fn frag(a: A) -> bool { !(a is Packed) && !(a is Equal) }

// =================================================================================================
// The join of C15, written from the property's sentences (not from the code's match):
//   * "a known width is kept"; "two different widths" contradict                    -> join_width
//   * "a more specific usage such as address, signed or unsigned is kept";
//     "incompatible usages" contradict                                              -> join_use
//   * "mappings and arrays keep their structure with unified components" (C14: two mappings, two
//     arrays of equal length, two dynamic arrays; component variables unified)      -> eqs_te
//   * evidence that says nothing (`Any`) is the identity; conflicts absorb
//   * a dynamically sized value (`bytes`, `T[]`) keeps its structure against evidence that its slot
//     word was used as a not-signed number (the slot of such a value holds its length) and
//     `bytes` is the packed kind of dynamic array — DESIGN §6 C15: the only places where the
//     property's text ("arrays keep their structure") admits the code's documented behaviour; this
//     is the root of known finding D12
//   * everything else is "plainly contradictory (… a mapping against an array or a sized word)":
//     a conflict, never a silent choice of one side
// =================================================================================================
/// None = the two widths contradict each other
pub open spec fn join_width(l: Option<usize>, r: Option<usize>) -> Option<Option<usize>> {
    match (l, r) {
        (Some(x), Some(y)) => if x == y { Some(Some(x)) } else { None },
        (Some(x), None) => Some(Some(x)),
        (None, Some(y)) => Some(Some(y)),
        (None, None) => Some(None),
    }
}
pub open spec fn signed(u: WordUse) -> bool { u == WordUse::SignedNumeric }
/// a dynamically sized value whose slot word may also show up as a not-signed number
pub open spec fn dyn_sized(a: A) -> bool { a is Bytes || a is Dyn }
pub open spec fn length_word(a: A) -> bool { a is Word && !signed(a->usage) }

pub open spec fn join_te(l: A, r: A) -> A {
    if l is Conflict || r is Conflict { A::Conflict }
    else if l is Any { r }
    else if r is Any { l }
    else if l == r { l }
    else if l is Word && r is Word {
        match (join_width(l->width, r->width), join_use(l->usage, r->usage)) {
            (Some(width), Some(usage)) => A::Word { width, usage },
            _ => A::Conflict,
        }
    }
    else if l is Map && r is Map { l }
    else if l is Dyn && r is Dyn { l }
    else if l is Fixed && r is Fixed { if l->length == r->length { l } else { A::Conflict } }
    else if dyn_sized(l) && r is Word { if length_word(r) { l } else { A::Conflict } }
    else if l is Word && dyn_sized(r) { if length_word(l) { r } else { A::Conflict } }
    else if dyn_sized(l) && dyn_sized(r) { A::Bytes }   // Bytes x Dyn, Dyn x Bytes (the equal kinds were handled above)
    else { A::Conflict }
}
/// C14: the component equalities emitted when two constructed types meet
pub open spec fn eqs_te(l: A, r: A) -> Seq<Equality> {
    if l == r { seq![] }
    else if l is Map && r is Map { seq![Equality { left: l->key, right: r->key }, Equality { left: l->value, right: r->value }] }
    else if l is Dyn && r is Dyn { seq![Equality { left: l->Dyn_element, right: r->Dyn_element }] }
    else if l is Fixed && r is Fixed && l->length == r->length { seq![Equality { left: l->Fixed_element, right: r->Fixed_element }] }
    else { seq![] }
}

// =================================================================================================
// Callees
// =================================================================================================
// A-DERIVE: `#[derive(PartialEq)]` on TypeExpression is deep structural equality (Vec fields compared
// by content). Assumed here only as far as it is needed: equal values compare equal, and values that
// compare equal have the same abstraction.
impl vstd::std_specs::cmp::PartialEqSpecImpl for TypeExpression {
    open spec fn obeys_eq_spec() -> bool { false }
    open spec fn eq_spec(&self, other: &TypeExpression) -> bool { true }
}
impl PartialEq for TypeExpression {
    #[verifier::external_body]
    fn eq(&self, other: &Self) -> (r: bool)
        ensures
            r ==> abs(*self) == abs(*other),
            *self == *other ==> r,
    { unimplemented!() }
}

//@extract file=src/tc/expression.rs path="impl TypeExpression" kind=header
//@end
//@extract file=src/tc/expression.rs path="impl TypeExpression|fn word" props=C15,C01
//@ret r
//@spec
        ensures r == (TypeExpression::Word { width, usage }),       //@ob C15.mg.te.word
//@end

//@extract file=src/tc/expression.rs path="impl TypeExpression|fn bool" props=C15,C01
//@ret r
//@spec
        ensures abs(r) == (A::Word { width: use_width(WordUse::Bool), usage: WordUse::Bool }),       //@ob C15.mg.te.bool
//@end

//@extract file=src/tc/expression.rs path="impl TypeExpression|fn address" props=C15,C01
//@ret r
//@spec
        ensures abs(r) == (A::Word { width: use_width(WordUse::Address), usage: WordUse::Address }),       //@ob C15.mg.te.address
//@end

//@extract file=src/tc/expression.rs path="impl TypeExpression|fn selector" props=C15,C01
//@ret r
//@spec
        ensures abs(r) == (A::Word { width: use_width(WordUse::Selector), usage: WordUse::Selector }),       //@ob C15.mg.te.selector
//@end

//@extract file=src/tc/expression.rs path="impl TypeExpression|fn function" props=C15,C01
//@ret r
//@spec
        ensures abs(r) == (A::Word { width: use_width(WordUse::Function), usage: WordUse::Function }),       //@ob C15.mg.te.function
//@end

//@extract file=src/tc/expression.rs path="impl TypeExpression|fn conflict" props=C15,C01
//@ret r
//@rw R-IMPL-INTO
//@old
reason: impl Into<String>
//@new
reason: &str
//@spec
        ensures r is Conflict,       //@ob C15.mg.te.conflict
//@end

    // A-CALLEE: `conflict_with` gathers both sides (flattening nested conflicts) through a `&mut`
    // capturing closure and `Vec::extend` — outside Verus' subset. Assumed: it returns a `Conflict`
    // (its body ends in the `Self::Conflict { .. }` constructor); nothing is assumed about the payload.
    #[verifier::external_body]
    pub fn conflict_with(self, other: Self, reason: &str) -> (r: Self)
        ensures r is Conflict,
    { unimplemented!() }
}

//@extract file=src/tc/unification.rs path="impl Merge" kind=header
//@end
//@extract file=src/tc/unification.rs path="impl Merge|fn new" props=C14,C01
//@ret r
//@spec
        ensures r.expression == expression, r.equalities == equalities, r.judgements == judgements, r.ty_vars == ty_vars,
//@end

//@extract file=src/tc/unification.rs path="impl Merge|fn expression" props=C14,C01
//@ret r
//@spec
        ensures r.expression == expression, r.equalities@.len() == 0, r.judgements@.len() == 0, r.ty_vars@.len() == 0,
//@end

//@extract file=src/tc/unification.rs path="impl Merge|fn equalities" props=C14,C01
//@ret r
//@spec
        ensures r.expression == expression, r.equalities == equalities, r.judgements@.len() == 0, r.ty_vars@.len() == 0,
//@end

//@extract file=src/tc/unification.rs path="impl Merge|fn judgements" props=C14,C01
//@ret r
//@spec
        ensures r.expression == expression, r.equalities@.len() == 0, r.judgements == judgements, r.ty_vars@.len() == 0,
//@end
}

//@extract file=src/tc/unification.rs path="impl Equality" kind=header
//@end
//@extract file=src/tc/unification.rs path="impl Equality|fn new" props=C14,C01
//@ret r
//@spec
        ensures r == (Equality { left, right }),
//@end
}

//@extract file=src/tc/unification.rs path="impl Judgement" kind=header
//@end
//@extract file=src/tc/unification.rs path="impl Judgement|fn new" props=C14,C01
//@ret r
//@spec
        ensures r.tv == tv, r.expr == expr,
//@end
}

// R-OPAQUE stand-in for the `Packed x _` arms of `merge` (itertools, closures, fresh type-variable
// allocation — outside Verus' subset): NO postcondition, i.e. any result at all.
#[verifier::external_body]
fn opaque_packed_arm(left: TE, right: TE, parent_tv: TypeVariable, state: &mut TypeCheckerState) -> Merge
{ unimplemented!() }

// R-CALL stand-in for `panic!(..)` with a formatted message: calling it is a violated precondition.
#[verifier::external_body]
fn vx_panic() -> Merge
    requires false,
{ unimplemented!() }

/// number of "delegate to the flipped case" steps still possible: the termination measure of `merge`
pub open spec fn flips(l: TypeExpression, r: TypeExpression) -> nat {
    if (l is Word && (r is Bytes || r is DynamicArray || r is Packed))
        || ((l is DynamicArray || l is Bytes) && r is Packed) { 1 } else { 0 }
}

//@extract file=src/tc/unification.rs path="fn merge" props=C14,C15,C16,C01
//@ret m
//@rw R-CALL
//@old
panic!(
    "Equalities should not exist when unifying, but found: {:?}",
    left.clone()
)
//@new
vx_panic()
//@rw R-CALL
//@old
panic!(
    "Equalities should not exist when unifying, but found: {:?}",
    right.clone()
)
//@new
vx_panic()
//@rw R-OPAQUE
//@old
(TE::Packed { types, .. }, TE::DynamicArray { .. } | TE::Bytes) => match types.len() { $1 },

        // To combine a word with a dynamic array we delegate
        (TE::Word { .. }, TE::DynamicArray { .. }) =>
//@new
(TE::Packed { types, .. }, TE::DynamicArray { .. } | TE::Bytes) => opaque_packed_arm(left, right, parent_tv, state),

        // To combine a word with a dynamic array we delegate
        (TE::Word { .. }, TE::DynamicArray { .. }) =>
//@rw R-OPAQUE
//@old
(
            TE::Packed {
                types: types_l,
                is_struct: is_struct_l,
            },
            TE::Packed {
                types: types_r,
                is_struct: is_struct_r,
            },
        ) => { $1 }

        // Packed encodings can also combine with words
        (TE::Word { .. }, TE::Packed { .. }) =>
//@new
(
            TE::Packed {
                types: types_l,
                is_struct: is_struct_l,
            },
            TE::Packed {
                types: types_r,
                is_struct: is_struct_r,
            },
        ) => opaque_packed_arm(left, right, parent_tv, state),

        // Packed encodings can also combine with words
        (TE::Word { .. }, TE::Packed { .. }) =>
//@rw R-OPAQUE
//@old
(TE::Packed { types, .. }, TE::Word { width, usage }) => { $1 }

        // Everything can combine with `Any` to produce itself, as Any doesn't add information, so
        // only collapses to `Any` when combined with itself
        (_, TE::Any) =>
//@new
(TE::Packed { types, .. }, TE::Word { width, usage }) => opaque_packed_arm(left, right, parent_tv, state),

        // Everything can combine with `Any` to produce itself, as Any doesn't add information, so
        // only collapses to `Any` when combined with itself
        (_, TE::Any) =>
//@spec
    requires
        // C14: equalities are turned into unions before any merge; an `Equal` operand is a bug (the code panics)
        !(left is Equal), !(right is Equal),                                                      //@ob C14.mg.merge.no_equal_operand
    ensures
        // ---- C15 per class of operand pair (so that a failure names the class) ----
        frag(abs(left)) && frag(abs(right)) && (left is Conflict || right is Conflict)
            ==> m.expression is Conflict,                                                              //@ob C15.mg.merge.conflict_absorbs
        frag(abs(left)) && frag(abs(right)) && (left is Any || right is Any)
            ==> abs(m.expression) == join_te(abs(left), abs(right)),                                   //@ob C15.mg.merge.any_identity
        left is Word && right is Word
            ==> abs(m.expression) == join_te(abs(left), abs(right)),                                   //@ob C15.mg.merge.word_word
        (left is Word && right is Bytes) || (left is Bytes && right is Word)
            ==> abs(m.expression) == join_te(abs(left), abs(right)),                                   //@ob C15.mg.merge.word_bytes
        (left is Word && right is DynamicArray) || (left is DynamicArray && right is Word)
            ==> abs(m.expression) == join_te(abs(left), abs(right)),                                   //@ob C15.mg.merge.word_dyn
        (left is Bytes && right is DynamicArray) || (left is DynamicArray && right is Bytes) || (left is Bytes && right is Bytes)
            ==> abs(m.expression) == join_te(abs(left), abs(right)),                                   //@ob C15.mg.merge.bytes_dyn
        left is DynamicArray && right is DynamicArray
            ==> abs(m.expression) == join_te(abs(left), abs(right)),                                   //@ob C15.mg.merge.dyn_dyn C14.mg.merge.dyn_dyn
        left is FixedArray && right is FixedArray
            ==> abs(m.expression) == join_te(abs(left), abs(right)),                                   //@ob C15.mg.merge.fixed_fixed C14.mg.merge.fixed_fixed
        left is Mapping && right is Mapping
            ==> abs(m.expression) == join_te(abs(left), abs(right)),                                   //@ob C15.mg.merge.map_map C14.mg.merge.map_map
        // ---- the whole fragment (the contract the laws below are stated over) ----
        frag(abs(left)) && frag(abs(right)) ==> abs(m.expression) == join_te(abs(left), abs(right)),   //@ob C15.mg.merge.join C16.mg.merge.join
        frag(abs(left)) && frag(abs(right)) ==> m.equalities@ =~= eqs_te(abs(left), abs(right)),       //@ob C14.mg.merge.equalities C16.mg.merge.equalities
        frag(abs(left)) && frag(abs(right)) ==> m.judgements@.len() == 0 && m.ty_vars@.len() == 0,     //@ob C16.mg.merge.no_side_output
        frag(abs(left)) && frag(abs(right)) ==> !(m.expression is Equal),                              //@ob C14.mg.merge.never_equal
    decreases flips(left, right),
//@end


// =================================================================================================
// C15 sanity of the join itself: the classes the property's sentence names, stated independently of
// `join_te`'s case split
// =================================================================================================
/// "plainly contradictory (two different widths, incompatible usages, a mapping against an array or a
/// sized word)"
pub open spec fn contradictory(l: A, r: A) -> bool {
    ||| (l is Word && r is Word && l->width is Some && r->width is Some && l->width != r->width)
    ||| (l is Word && r is Word && join_use(l->usage, r->usage) is None)
    ||| (l is Map && (r is Fixed || r is Dyn || r is Bytes))
    ||| (r is Map && (l is Fixed || l is Dyn || l is Bytes))
    ||| (l is Map && r is Word)          // sized or not: a mapping's slot is never read as a value
    ||| (r is Map && l is Word)
}
/// evidence that is a weakening of one common type: `le(x, t)` — x says no more than t
pub open spec fn te_le(x: A, t: A) -> bool {
    ||| x is Any
    ||| x == t
    ||| (x is Word && t is Word && (x->width is None || x->width == t->width) && leq(x->usage, t->usage))
}
pub proof fn lemma_join_te_c15(l: A, r: A, t: A)
    requires frag(l), frag(r),
    ensures
        contradictory(l, r) ==> join_te(l, r) is Conflict,                                             //@ob C15.mg.join.contradiction_conflicts
        // compatible evidence (both weakenings of a non-conflict type t) joins to something between them and t
        te_le(l, t) && te_le(r, t) && !(t is Conflict) && frag(t)
            ==> !(join_te(l, r) is Conflict) && te_le(l, join_te(l, r)) && te_le(r, join_te(l, r)) && te_le(join_te(l, r), t),   //@ob C15.mg.join.compatible_is_lub
        join_te(l, l) == l,                                                                            //@ob C15.mg.join.idempotent
        join_te(A::Any, l) == l && join_te(l, A::Any) == l,                                            //@ob C15.mg.join.any_identity
        frag(join_te(l, r)),                                                                           //@ob C14.mg.join.never_equal
        // a known width is kept; the more specific usage is kept
        l is Word && r is Word && join_te(l, r) is Word ==> {
            &&& (l->width is Some ==> join_te(l, r)->width == l->width)
            &&& (r->width is Some ==> join_te(l, r)->width == r->width)
            &&& leq(l->usage, join_te(l, r)->usage) && leq(r->usage, join_te(l, r)->usage)
        },                                                                                             //@ob C15.mg.join.keeps_width_and_usage
{
    assert forall|x: WordUse, y: WordUse| join_use(x, y) == join_use_cf(x, y) by { lemma_join_use_closed_form(x, y); }
    assert forall|x: WordUse, y: WordUse| leq(x, y) == leq_cf(x, y) by { lemma_leq_closed_form(x, y); }
}

// =================================================================================================
// C16: order and grouping. "The same outcome, up to the wording of conflict explanations and the
// choice of representative among variables it equates": outcomes are compared by `shape` (which
// constructor, for words the payload, for fixed arrays the length) plus the emitted equalities as
// unordered pairs, compared up to the equivalence they generate.
// =================================================================================================
pub enum Shape { Any, Bytes, Word { width: Option<usize>, usage: WordUse }, Fixed { length: U256 }, Map, Dyn, Conflict, Other }
pub open spec fn shape(a: A) -> Shape {
    match a {
        A::Any => Shape::Any,
        A::Bytes => Shape::Bytes,
        A::Word { width, usage } => Shape::Word { width, usage },
        A::Fixed { length, .. } => Shape::Fixed { length },
        A::Map { .. } => Shape::Map,
        A::Dyn { .. } => Shape::Dyn,
        A::Conflict => Shape::Conflict,
        _ => Shape::Other,
    }
}
pub open spec fn is_pair(e: Equality, x: TypeVariable, y: TypeVariable) -> bool {
    (e.left == x && e.right == y) || (e.left == y && e.right == x)
}
/// the unordered pair {x, y} is among the equalities `s`
pub open spec fn in_pairs(s: Seq<Equality>, x: TypeVariable, y: TypeVariable) -> bool {
    exists|i: int| 0 <= i < s.len() && is_pair(#[trigger] s[i], x, y)
}
/// closed form of `in_pairs(eqs_te(l, r), x, y)`
pub open spec fn em(l: A, r: A, x: TypeVariable, y: TypeVariable) -> bool {
    l != r && match (l, r) {
        (A::Dyn { element: a }, A::Dyn { element: b }) => (x == a && y == b) || (x == b && y == a),
        (A::Fixed { element: a, length: ll }, A::Fixed { element: b, length: lr }) => ll == lr && ((x == a && y == b) || (x == b && y == a)),
        (A::Map { key: k1, value: v1 }, A::Map { key: k2, value: v2 }) =>
            (x == k1 && y == k2) || (x == k2 && y == k1) || (x == v1 && y == v2) || (x == v2 && y == v1),
        _ => false,
    }
}
pub proof fn lemma_em_is_eqs(l: A, r: A, x: TypeVariable, y: TypeVariable)
    ensures em(l, r, x, y) == in_pairs(eqs_te(l, r), x, y)
{
    let s = eqs_te(l, r);
    if em(l, r, x, y) {
        if s.len() == 2 { assert(is_pair(s[0], x, y) || is_pair(s[1], x, y)); } else { assert(is_pair(s[0], x, y)); }
    }
}

pub proof fn lemma_symmetric(a: A, b: A)
    ensures
        shape(join_te(a, b)) == shape(join_te(b, a)),                                                  //@ob C16.mg.merge.symmetric
        forall|x: TypeVariable, y: TypeVariable| em(a, b, x, y) == em(b, a, x, y),                     //@ob C16.mg.merge.symmetric_eqs
{
    assert forall|x: WordUse, y: WordUse| join_use(x, y) == join_use_cf(x, y) by { lemma_join_use_closed_form(x, y); }
}

// ---- known finding D12 (DESIGN §5): `Bytes` and `DynamicArray` absorb word evidence ------------------
// The three recorded classes, as exact predicates on the ordered triple (a, b, c) whose two groupings
// (a ⊔ b) ⊔ c and a ⊔ (b ⊔ c) are compared.  Each `finding:` line of /verif/known_findings.txt names one.
/// two not-signed words that contradict each other (different known widths or incompatible usages)
pub open spec fn clash(w1: A, w2: A) -> bool {
    w1 is Word && w2 is Word && length_word(w1) && length_word(w2) && join_te(w1, w2) is Conflict
}
/// class bytes_word_word: `Bytes` at an end of the triple, the other two operands clashing words:
///   (Bytes ⊔ w1) ⊔ w2 = Bytes   but   Bytes ⊔ (w1 ⊔ w2) = Bytes ⊔ Conflict = Conflict
pub open spec fn d12_bytes_word_word(a: A, b: A, c: A) -> bool {
    (a is Bytes && clash(b, c)) || (c is Bytes && clash(a, b))
}
/// class dyn_word_word: the same with a `DynamicArray` absorbing the two words
pub open spec fn d12_dyn_word_word(a: A, b: A, c: A) -> bool {
    (a is Dyn && clash(b, c)) || (c is Dyn && clash(a, b))
}
/// class bytes_dyn_dyn: `Bytes` at an end, two dynamic arrays over different variables: the grouping
/// decides whether the equality between the two element variables is emitted at all
pub open spec fn d12_bytes_dyn_dyn(a: A, b: A, c: A) -> bool {
    (a is Bytes && b is Dyn && c is Dyn && b != c) || (c is Bytes && a is Dyn && b is Dyn && a != b)
}
pub open spec fn assoc_expr(a: A, b: A, c: A) -> bool {
    shape(join_te(join_te(a, b), c)) == shape(join_te(a, join_te(b, c)))
}

pub proof fn lemma_associative_expr(a: A, b: A, c: A)
    requires frag(a), frag(b), frag(c),
    ensures
        assoc_expr(a, b, c) || d12_bytes_word_word(a, b, c) || d12_dyn_word_word(a, b, c),             //@ob C16.mg.merge.associative
        // the carve-out is exact: inside the two classes the groupings really differ (the finding is real, and
        // the predicates excuse nothing else)
        d12_bytes_word_word(a, b, c) || d12_dyn_word_word(a, b, c) ==> !assoc_expr(a, b, c),           //@ob C16.mg.d12.exact
{
    assert forall|x: WordUse, y: WordUse| join_use(x, y) == join_use_cf(x, y) by { lemma_join_use_closed_form(x, y); }
}

/// equalities emitted by the grouping (a ⊔ b) ⊔ c, resp. a ⊔ (b ⊔ c), accumulated over both merges
pub open spec fn el(a: A, b: A, c: A, x: TypeVariable, y: TypeVariable) -> bool { em(a, b, x, y) || em(join_te(a, b), c, x, y) }
pub open spec fn er(a: A, b: A, c: A, x: TypeVariable, y: TypeVariable) -> bool { em(b, c, x, y) || em(a, join_te(b, c), x, y) }
/// x and y are connected by at most two pairs of `f`
pub open spec fn conn2(f: spec_fn(TypeVariable, TypeVariable) -> bool, x: TypeVariable, y: TypeVariable) -> bool {
    x == y || f(x, y) || exists|z: TypeVariable| #[trigger] f(x, z) && f(z, y)
}
/// Both groupings equate the same variables (each pair of one is connected through <= 2 pairs of the
/// other).  Interpretation (DESIGN §6 C16): when the combined result is a conflict the equalities
/// emitted on the way are not compared — C14 exempts contradictory evidence from component unification.
pub proof fn lemma_associative_eqs(a: A, b: A, c: A, x: TypeVariable, y: TypeVariable)
    requires
        frag(a), frag(b), frag(c),
        !(join_te(join_te(a, b), c) is Conflict), !(join_te(a, join_te(b, c)) is Conflict),
    ensures
        d12_bytes_dyn_dyn(a, b, c) || (el(a, b, c, x, y) ==> conn2(|p: TypeVariable, q: TypeVariable| er(a, b, c, p, q), x, y)),   //@ob C16.mg.merge.associative_eqs
        d12_bytes_dyn_dyn(a, b, c) || (er(a, b, c, x, y) ==> conn2(|p: TypeVariable, q: TypeVariable| el(a, b, c, p, q), x, y)),   //@ob C16.mg.merge.associative_eqs
{
    assert forall|u: WordUse, v: WordUse| join_use(u, v) == join_use_cf(u, v) by { lemma_join_use_closed_form(u, v); }
    let fr = |p: TypeVariable, q: TypeVariable| er(a, b, c, p, q);
    let fl = |p: TypeVariable, q: TypeVariable| el(a, b, c, p, q);
    // candidate middle points: the component variables of the three operands
    match (a, b, c) {
        (A::Map { key: k1, value: v1 }, A::Map { key: k2, value: v2 }, A::Map { key: k3, value: v3 }) => {
            if el(a, b, c, x, y) { assert(fr(x, y) || x == y || fr(x, k1) && fr(k1, y) || fr(x, k2) && fr(k2, y) || fr(x, k3) && fr(k3, y) || fr(x, v1) && fr(v1, y) || fr(x, v2) && fr(v2, y) || fr(x, v3) && fr(v3, y)); }
            if er(a, b, c, x, y) { assert(fl(x, y) || x == y || fl(x, k1) && fl(k1, y) || fl(x, k2) && fl(k2, y) || fl(x, k3) && fl(k3, y) || fl(x, v1) && fl(v1, y) || fl(x, v2) && fl(v2, y) || fl(x, v3) && fl(v3, y)); }
        },
        (A::Dyn { element: e1 }, A::Dyn { element: e2 }, A::Dyn { element: e3 }) => {
            if el(a, b, c, x, y) { assert(fr(x, y) || x == y || fr(x, e1) && fr(e1, y) || fr(x, e2) && fr(e2, y) || fr(x, e3) && fr(e3, y)); }
            if er(a, b, c, x, y) { assert(fl(x, y) || x == y || fl(x, e1) && fl(e1, y) || fl(x, e2) && fl(e2, y) || fl(x, e3) && fl(e3, y)); }
        },
        (A::Fixed { element: e1, .. }, A::Fixed { element: e2, .. }, A::Fixed { element: e3, .. }) => {
            if el(a, b, c, x, y) { assert(fr(x, y) || x == y || fr(x, e1) && fr(e1, y) || fr(x, e2) && fr(e2, y) || fr(x, e3) && fr(e3, y)); }
            if er(a, b, c, x, y) { assert(fl(x, y) || x == y || fl(x, e1) && fl(e1, y) || fl(x, e2) && fl(e2, y) || fl(x, e3) && fl(e3, y)); }
        },
        _ => {},
    }
}
/// ... and inside the class the two groupings really disagree on what they equate
pub proof fn lemma_d12_bytes_dyn_dyn_exact(a: A, b: A, c: A)
    requires d12_bytes_dyn_dyn(a, b, c),
    ensures
        exists|x: TypeVariable, y: TypeVariable| x != y && el(a, b, c, x, y) != er(a, b, c, x, y)
            && !(exists|p: TypeVariable, q: TypeVariable| p != q && el(a, b, c, p, q) && er(a, b, c, p, q)),    //@ob C16.mg.d12.exact
{
    if a is Bytes {
        assert(er(a, b, c, b->Dyn_element, c->Dyn_element) && !el(a, b, c, b->Dyn_element, c->Dyn_element));
    } else {
        assert(el(a, b, c, a->Dyn_element, b->Dyn_element) && !er(a, b, c, a->Dyn_element, b->Dyn_element));
    }
}

} // verus!
fn main() {}
