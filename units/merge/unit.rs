//@unit props=C14,C15,C16,C01
// Unit merge — src/tc/unification.rs `merge` (pairwise combination of two pieces of typing evidence)
// on its non-`Packed` fragment, against the join of C15 (`join_te`), the component equalities of
// C14 (`eqs_te`), and — through that contract — the order/grouping laws of C16 with the D12
// carve-out written as exact predicates (DESIGN.md §2.3, §5 D12, §6 C16).
use vstd::prelude::*;

// A-ETHNUM: stand-in for ethnum::U256 (external crate). Only its derived `==` is used here.
// A-CALLEE: stand-in for crate::tc::state::TypeCheckerState (only touched by the opaque Packed arms).
mod ext {
    #[derive(Clone, Copy, PartialEq, Eq)]
    pub struct U256(pub [u128; 2]);
    // robustness shim (NO contract): narrowing conversions an edit might route a 256-bit length through
    impl U256 {
        pub const ZERO: U256 = U256([0, 0]);
        pub const ONE: U256 = U256([1, 0]);
        pub const MAX: U256 = U256([u128::MAX, u128::MAX]);
        pub fn as_usize(&self) -> usize { unimplemented!() }
        pub fn as_u64(&self) -> u64 { unimplemented!() }
        pub fn as_u32(&self) -> u32 { unimplemented!() }
        pub fn as_u128(&self) -> u128 { unimplemented!() }
    }
    impl TryFrom<U256> for usize { type Error = core::num::TryFromIntError; fn try_from(_v: U256) -> Result<usize, Self::Error> { unimplemented!() } }
    impl TryFrom<U256> for u64 { type Error = core::num::TryFromIntError; fn try_from(_v: U256) -> Result<u64, Self::Error> { unimplemented!() } }
    impl TryFrom<U256> for u32 { type Error = core::num::TryFromIntError; fn try_from(_v: U256) -> Result<u32, Self::Error> { unimplemented!() } }
    pub struct TypeCheckerState;
}
use ext::{TypeCheckerState, U256};

verus! {

#[verifier::external_type_specification]
#[verifier::external_body]
pub struct ExU256(U256);
#[verifier::external_type_specification]
#[verifier::external_body]
pub struct ExTypeCheckerState(TypeCheckerState);
// A-ETHNUM: ethnum's `#[derive(PartialEq)]` on `U256([u128; 2])` is structural: `a == b` iff same value
impl vstd::std_specs::cmp::PartialEqSpecImpl for U256 {
    open spec fn obeys_eq_spec() -> bool { true }
    open spec fn eq_spec(&self, other: &U256) -> bool { *self == *other }
}
pub assume_specification[ <U256 as core::cmp::PartialEq>::eq ](a: &U256, b: &U256) -> (r: bool);
// robustness shim: the three named constants an edit might compare a length with; distinct uninterpreted values
pub uninterp spec fn u256_zero() -> U256;
pub uninterp spec fn u256_one() -> U256;
pub uninterp spec fn u256_max() -> U256;
pub assume_specification[ U256::ZERO ] -> (r: U256) ensures r == u256_zero();
pub assume_specification[ U256::ONE ] -> (r: U256) ensures r == u256_one();
pub assume_specification[ U256::MAX ] -> (r: U256) ensures r == u256_max();
// robustness shim (A-STD, not used by the pinned text): usize::div_ceil / usize::max / usize::min as core defines them — so that an edit that
// rounds or combines widths reaches the contracts
pub assume_specification[ usize::div_ceil ](a: usize, b: usize) -> (r: usize)
    requires b != 0,
    ensures r as int == (if a % b == 0 { (a / b) as int } else { a / b + 1 });
// robustness shim (A-STD): Option::or as core defines it
pub assume_specification<T>[ Option::<T>::or ](a: Option<T>, b: Option<T>) -> (r: Option<T>)
    ensures r == (if a is Some { a } else { b });
// no contract: anything may come out of a narrowing conversion
pub assume_specification[ U256::as_usize ](a: &U256) -> (r: usize);
pub assume_specification[ U256::as_u64 ](a: &U256) -> (r: u64);
pub assume_specification[ U256::as_u32 ](a: &U256) -> (r: u32);
pub assume_specification[ U256::as_u128 ](a: &U256) -> (r: u128);
pub assume_specification[ <usize as core::convert::TryFrom<U256>>::try_from ](a: U256) -> (r: Result<usize, <usize as core::convert::TryFrom<U256>>::Error>);
pub assume_specification[ <u64 as core::convert::TryFrom<U256>>::try_from ](a: U256) -> (r: Result<u64, <u64 as core::convert::TryFrom<U256>>::Error>);
pub assume_specification[ <u32 as core::convert::TryFrom<U256>>::try_from ](a: U256) -> (r: Result<u32, <u32 as core::convert::TryFrom<U256>>::Error>);

//@include word_use/items.rs
//@dropped merge: the three `Packed x _` arms (Packed x DynamicArray|Bytes, Packed x Packed, Packed x Word) are R-OPAQUE: replaced by an external_body stand-in with NO postcondition (itertools sorted_by_key/unique/collect_vec, closures, fresh type-variable allocation through &mut TypeCheckerState); nothing is claimed for any operand pair with a Packed side (their delegating arms `(DynamicArray|Bytes|Word, Packed) => merge(right, left, ..)` stay verbatim and are covered by the termination measure only)
//@dropped merge: the two `panic!("Equalities should not exist…", x.clone())` arms are R-CALL to a stand-in with `requires false`; `Equal` operands are excluded by merge's precondition (C14), the call site in `unify` is not under contract in this unit
//@dropped TypeExpression::conflict_with: closure + Vec::extend, assumed to return a `Conflict` (A-CALLEE); the payload clause of DESIGN §6 C15 ("conflicts contains both sides") is NOT proved
//@dropped TypeExpression::{numeric, unsigned_word, signed_word, bytes, eq, mapping, dyn_array, packed_of, struct_of}, Display impls, Span accessors: not under contract in this unit
//@dropped unify (fixpoint, population loops, fold over HashSet): not under contract (C14 termination/one-type-per-variable are not decided, DESIGN §6 C14)

// =================================================================================================
// Types (extracted verbatim; derive lists replaced as A-DERIVE says)
// =================================================================================================
// A-DERIVE: #[derive(Copy, Clone, Eq, PartialEq)] on a struct of scalars is structural
#[derive(Copy, Clone, Eq, PartialEq, Structural)]
//@extract file=src/tc/state/type_variable.rs path="struct TypeVariable" kind=type
//@end

#[derive(Copy, Clone, Eq, PartialEq, Structural)]
//@extract file=src/tc/expression.rs path="struct Span" kind=type
//@end

//@extract file=src/tc/expression.rs path="type TE" kind=type
//@end

//@extract file=src/tc/expression.rs path="enum TypeExpression" kind=type
//@end

//@extract file=src/tc/unification.rs path="struct Merge" kind=type
//@end

#[derive(Copy, Clone, Eq, PartialEq, Structural)]
//@extract file=src/tc/unification.rs path="struct Equality" kind=type
//@end

//@extract file=src/tc/unification.rs path="struct Judgement" kind=type
//@end

// =================================================================================================
// Abstraction of a type expression: conflict payloads (which evidence, which wording) and packed
// details forgotten; everything C15/C16 compare is kept.
// =================================================================================================
pub enum A {
    Any,
    Bytes,
    Word { width: Option<usize>, usage: WordUse },
    Fixed { element: TypeVariable, length: U256 },
    Map { key: TypeVariable, value: TypeVariable },
    Dyn { element: TypeVariable },
    Conflict,
    /// outside the fragment under contract
    Packed,
    /// never a legal operand or result of `merge` (C14)
    Equal,
}

pub open spec fn abs(t: TypeExpression) -> A {
    match t {
        TypeExpression::Any => A::Any,
        TypeExpression::Equal { .. } => A::Equal,
        TypeExpression::Word { width, usage } => A::Word { width, usage },
        TypeExpression::Bytes => A::Bytes,
        TypeExpression::FixedArray { element, length } => A::Fixed { element, length },
        TypeExpression::Mapping { key, value } => A::Map { key, value },
        TypeExpression::DynamicArray { element } => A::Dyn { element },
        TypeExpression::Packed { .. } => A::Packed,
        TypeExpression::Conflict { .. } => A::Conflict,
    }
}
/// the fragment under contract: neither packed encodings nor (illegal) equalities
pub open spec fn frag(a: A) -> bool { !(a is Packed) && !(a is Equal) }

// =================================================================================================
// The join of C15, written from the property's sentences (not from the code's match):
//   * "a known width is kept"; "two different widths" contradict                    -> join_width
//   * "a more specific usage such as address, signed or unsigned is kept";
//     "incompatible usages" contradict                                              -> join_use
//   * "mappings and arrays keep their structure with unified components" (C14: two mappings, two
//     arrays of equal length, two dynamic arrays; component variables unified)      -> eqs_te
//   * evidence that says nothing (`Any`) is the identity; conflicts absorb
//   * a dynamically sized value (`bytes`, `T[]`) keeps its structure against evidence that its slot
//     word was used as a not-signed number (the slot of such a value holds its length) and
//     `bytes` is the packed kind of dynamic array — DESIGN §6 C15: the only places where the
//     property's text ("arrays keep their structure") admits the code's documented behaviour; this
//     is the root of known finding D12
//   * everything else is "plainly contradictory (… a mapping against an array or a sized word)":
//     a conflict, never a silent choice of one side
// =================================================================================================
/// None = the two widths contradict each other
pub open spec fn join_width(l: Option<usize>, r: Option<usize>) -> Option<Option<usize>> {
    match (l, r) {
        (Some(x), Some(y)) => if x == y { Some(Some(x)) } else { None },
        (Some(x), None) => Some(Some(x)),
        (None, Some(y)) => Some(Some(y)),
        (None, None) => Some(None),
    }
}
pub open spec fn signed(u: WordUse) -> bool { u == WordUse::SignedNumeric }
/// a dynamically sized value whose slot word may also show up as a not-signed number
pub open spec fn dyn_sized(a: A) -> bool { a is Bytes || a is Dyn }
pub open spec fn length_word(a: A) -> bool { a is Word && !signed(a->usage) }

pub open spec fn join_te(l: A, r: A) -> A {
    if l is Conflict || r is Conflict { A::Conflict }
    else if l is Any { r }
    else if r is Any { l }
    else if l == r { l }
    else if l is Word && r is Word {
        match (join_width(l->width, r->width), join_use(l->usage, r->usage)) {
            (Some(width), Some(usage)) => A::Word { width, usage },
            _ => A::Conflict,
        }
    }
    else if l is Map && r is Map { l }
    else if l is Dyn && r is Dyn { l }
    else if l is Fixed && r is Fixed { if l->length == r->length { l } else { A::Conflict } }
    else if dyn_sized(l) && r is Word { if length_word(r) { l } else { A::Conflict } }
    else if l is Word && dyn_sized(r) { if length_word(l) { r } else { A::Conflict } }
    else if dyn_sized(l) && dyn_sized(r) { A::Bytes }   // Bytes x Dyn, Dyn x Bytes (the equal kinds were handled above)
    else { A::Conflict }
}
/// C14: the component equalities emitted when two constructed types meet
pub open spec fn eqs_te(l: A, r: A) -> Seq<Equality> {
    if l == r { seq![] }
    else if l is Map && r is Map { seq![Equality { left: l->key, right: r->key }, Equality { left: l->value, right: r->value }] }
    else if l is Dyn && r is Dyn { seq![Equality { left: l->Dyn_element, right: r->Dyn_element }] }
    else if l is Fixed && r is Fixed && l->length == r->length { seq![Equality { left: l->Fixed_element, right: r->Fixed_element }] }
    else { seq![] }
}

/// which of two unified variables stays in the result is not fixed by any property ("up to … the choice
/// of representative among variables it equates", C16): the result is the join with either operand's
/// variables kept (the two differ only for mapping x mapping, array x array)
pub open spec fn jf(l: A, r: A, flip: bool) -> A { if flip { join_te(r, l) } else { join_te(l, r) } }
pub open spec fn joins(res: A, l: A, r: A) -> bool { res == join_te(l, r) || res == join_te(r, l) }
pub open spec fn is_pair(e: Equality, x: TypeVariable, y: TypeVariable) -> bool {
    (e.left == x && e.right == y) || (e.left == y && e.right == x)
}
/// the unordered pair {x, y} is among the equalities `s`
pub open spec fn in_pairs(s: Seq<Equality>, x: TypeVariable, y: TypeVariable) -> bool {
    exists|i: int| 0 <= i < s.len() && is_pair(#[trigger] s[i], x, y)
}
/// the emitted list is the component equalities of C14 ([k1=k2, v1=v2] / [e1=e2]); which side of an equality is
/// written first is immaterial ("a symmetrical equality", src/tc/unification.rs)
pub open spec fn same_eq(e: Equality, f: Equality) -> bool { e == f || (e.left == f.right && e.right == f.left) }
pub open spec fn emits(s: Seq<Equality>, l: A, r: A) -> bool {
    s.len() == eqs_te(l, r).len() && forall|i: int| 0 <= i < s.len() ==> same_eq(#[trigger] s[i], eqs_te(l, r)[i])
}

// =================================================================================================
// Callees
// =================================================================================================
// A-DERIVE: `#[derive(PartialEq)]` on TypeExpression is deep structural equality (Vec fields compared
// by content). Assumed here only as far as it is needed: equal values compare equal, and values that
// compare equal have the same abstraction.
impl vstd::std_specs::cmp::PartialEqSpecImpl for TypeExpression {
    open spec fn obeys_eq_spec() -> bool { false }
    open spec fn eq_spec(&self, other: &TypeExpression) -> bool { true }
}
impl PartialEq for TypeExpression {
    #[verifier::external_body]
    fn eq(&self, other: &Self) -> (r: bool)
        ensures
            r ==> abs(*self) == abs(*other),
            *self == *other ==> r,
    { unimplemented!() }
}

//@extract file=src/tc/expression.rs path="impl TypeExpression" kind=header
//@end
//@extract file=src/tc/expression.rs path="impl TypeExpression|fn word" props=C15,C01
//@ret r
//@spec
        ensures r == (TypeExpression::Word { width, usage }),       //@ob C15.mg.te.word
//@end

//@extract file=src/tc/expression.rs path="impl TypeExpression|fn bool" props=C15,C01
//@ret r
//@spec
        ensures abs(r) == (A::Word { width: use_width(WordUse::Bool), usage: WordUse::Bool }),       //@ob C15.mg.te.bool
//@end

//@extract file=src/tc/expression.rs path="impl TypeExpression|fn address" props=C15,C01
//@ret r
//@spec
        ensures abs(r) == (A::Word { width: use_width(WordUse::Address), usage: WordUse::Address }),       //@ob C15.mg.te.address
//@end

//@extract file=src/tc/expression.rs path="impl TypeExpression|fn selector" props=C15,C01
//@ret r
//@spec
        ensures abs(r) == (A::Word { width: use_width(WordUse::Selector), usage: WordUse::Selector }),       //@ob C15.mg.te.selector
//@end

//@extract file=src/tc/expression.rs path="impl TypeExpression|fn function" props=C15,C01
//@ret r
//@spec
        ensures abs(r) == (A::Word { width: use_width(WordUse::Function), usage: WordUse::Function }),       //@ob C15.mg.te.function
//@end

//@extract file=src/tc/expression.rs path="impl TypeExpression|fn conflict" props=C15,C01
//@ret r
//@rw R-IMPL-INTO
//@old
reason: impl Into<String>
//@new
reason: &str
//@spec
        ensures r is Conflict,       //@ob C15.mg.te.conflict
//@end

//@extract file=src/tc/expression.rs path="impl TypeExpression|fn is_type_constructor" props=C01,C03,C14
//@ret r
//@spec
        ensures
            // the infinite-type guard of abi_type_for_impl cuts a cycle only at a type constructor, so EVERY expression that
            // can contain a type variable (and hence close a cycle) must answer true — otherwise the conversion recurses forever
            r == (self is FixedArray || self is Mapping || self is DynamicArray || self is Equal || self is Packed),     //@ob C01.mg.te.is_type_constructor.every_variable_carrying_constructor C03.mg.te.is_type_constructor.every_variable_carrying_constructor
//@end

    // A-CALLEE: `conflict_with` gathers both sides (flattening nested conflicts) through a `&mut`
    // capturing closure and `Vec::extend` — outside Verus' subset. Assumed: it returns a `Conflict`
    // (its body ends in the `Self::Conflict { .. }` constructor); nothing is assumed about the payload.
    #[verifier::external_body]
    pub fn conflict_with(self, other: Self, reason: &str) -> (r: Self)
        ensures r is Conflict,
    { unimplemented!() }
}

//@extract file=src/tc/unification.rs path="impl Merge" kind=header
//@end
//@extract file=src/tc/unification.rs path="impl Merge|fn new" props=C14,C01
//@ret r
//@spec
        ensures r.expression == expression, r.equalities == equalities, r.judgements == judgements, r.ty_vars == ty_vars,      //@ob C14.mg.Merge.new
//@end

//@extract file=src/tc/unification.rs path="impl Merge|fn expression" props=C14,C01
//@ret r
//@spec
        ensures r.expression == expression, r.equalities@.len() == 0, r.judgements@.len() == 0, r.ty_vars@.len() == 0,      //@ob C14.mg.Merge.expression
//@end

//@extract file=src/tc/unification.rs path="impl Merge|fn equalities" props=C14,C01
//@ret r
//@spec
        ensures r.expression == expression, r.equalities == equalities, r.judgements@.len() == 0, r.ty_vars@.len() == 0,      //@ob C14.mg.Merge.equalities
//@end

//@extract file=src/tc/unification.rs path="impl Merge|fn judgements" props=C14,C01
//@ret r
//@spec
        ensures r.expression == expression, r.equalities@.len() == 0, r.judgements == judgements, r.ty_vars@.len() == 0,      //@ob C14.mg.Merge.judgements
//@end
}

//@extract file=src/tc/unification.rs path="impl Equality" kind=header
//@end
//@extract file=src/tc/unification.rs path="impl Equality|fn new" props=C14,C01
//@ret r
//@spec
        ensures r == (Equality { left, right }),      //@ob C14.mg.Equality.new
//@end
}

//@extract file=src/tc/unification.rs path="impl Judgement" kind=header
//@end
//@extract file=src/tc/unification.rs path="impl Judgement|fn new" props=C14,C01
//@ret r
//@spec
        ensures r.tv == tv, r.expr == expr,      //@ob C14.mg.Judgement.new
//@end
}

// R-OPAQUE stand-in for the `Packed x _` arms of `merge` (itertools, closures, fresh type-variable
// allocation — outside Verus' subset): NO postcondition, i.e. any result at all.
#[verifier::external_body]
fn opaque_packed_arm(left: TE, right: TE, parent_tv: TypeVariable, state: &mut TypeCheckerState) -> Merge
{ unimplemented!() }

// R-CALL stand-in for `panic!(..)` with a formatted message: calling it is a violated precondition.
#[verifier::external_body]
fn vx_panic() -> Merge
    requires false,
{ unimplemented!() }

/// number of "delegate to the flipped case" steps still possible: the termination measure of `merge`
pub open spec fn flips(l: TypeExpression, r: TypeExpression) -> nat {
    if (l is Word && (r is Bytes || r is DynamicArray || r is Packed))
        || ((l is DynamicArray || l is Bytes) && r is Packed) { 1 } else { 0 }
}

//@extract file=src/tc/unification.rs path="fn merge" props=C14,C15,C16,C01
//@ret m
//@rw R-CALL
//@old
panic!(
    "Equalities should not exist when unifying, but found: {:?}",
    left.clone()
)
//@new
vx_panic()
//@rw R-CALL
//@old
panic!(
    "Equalities should not exist when unifying, but found: {:?}",
    right.clone()
)
//@new
vx_panic()
//@rw R-OPAQUE
//@old
(TE::Packed { types, .. }, TE::DynamicArray { .. } | TE::Bytes) => match types.len() { $1 },

        // To combine a word with a dynamic array we delegate
        (TE::Word { .. }, TE::DynamicArray { .. }) =>
//@new
(TE::Packed { types, .. }, TE::DynamicArray { .. } | TE::Bytes) => opaque_packed_arm(left, right, parent_tv, state),

        // To combine a word with a dynamic array we delegate
        (TE::Word { .. }, TE::DynamicArray { .. }) =>
//@rw R-OPAQUE
//@old
(
            TE::Packed {
                types: types_l,
                is_struct: is_struct_l,
            },
            TE::Packed {
                types: types_r,
                is_struct: is_struct_r,
            },
        ) => { $1 }

        // Packed encodings can also combine with words
        (TE::Word { .. }, TE::Packed { .. }) =>
//@new
(
            TE::Packed {
                types: types_l,
                is_struct: is_struct_l,
            },
            TE::Packed {
                types: types_r,
                is_struct: is_struct_r,
            },
        ) => opaque_packed_arm(left, right, parent_tv, state),

        // Packed encodings can also combine with words
        (TE::Word { .. }, TE::Packed { .. }) =>
//@rw R-OPAQUE
//@old
(TE::Packed { types, .. }, TE::Word { width, usage }) => { $1 }

        // Everything can combine with `Any` to produce itself, as Any doesn't add information, so
        // only collapses to `Any` when combined with itself
        (_, TE::Any) =>
//@new
(TE::Packed { types, .. }, TE::Word { width, usage }) => opaque_packed_arm(left, right, parent_tv, state),

        // Everything can combine with `Any` to produce itself, as Any doesn't add information, so
        // only collapses to `Any` when combined with itself
        (_, TE::Any) =>
//@spec
    requires
        // C14: equalities are turned into unions before any merge; an `Equal` operand is a bug (the code panics)
        !(left is Equal), !(right is Equal),                                                      //@ob C14.mg.merge.no_equal_operand C16.mg.merge.no_equal_operand_underlies_the_laws
    ensures
        // ---- C15 per class of operand pair (so that a failure names the class) ----
        frag(abs(left)) && frag(abs(right)) && (left is Conflict || right is Conflict)
            ==> m.expression is Conflict,                                                              //@ob C15.mg.merge.conflict_absorbs C16.mg.merge.conflict_absorbs_underlies_the_laws
        frag(abs(left)) && frag(abs(right)) && (left is Any || right is Any)
            ==> abs(m.expression) == join_te(abs(left), abs(right)),                                   //@ob C15.mg.merge.any_identity C16.mg.merge.any_identity_underlies_the_laws
        left is Word && right is Word
            ==> abs(m.expression) == join_te(abs(left), abs(right)),                                   //@ob C15.mg.merge.word_word C16.mg.merge.word_word_underlies_the_laws
        (left is Word && right is Bytes) || (left is Bytes && right is Word)
            ==> abs(m.expression) == join_te(abs(left), abs(right)),                                   //@ob C15.mg.merge.word_bytes C16.mg.merge.word_bytes_underlies_the_laws
        (left is Word && right is DynamicArray) || (left is DynamicArray && right is Word)
            ==> abs(m.expression) == join_te(abs(left), abs(right)),                                   //@ob C15.mg.merge.word_dyn C16.mg.merge.word_dyn_underlies_the_laws
        (left is Bytes && right is DynamicArray) || (left is DynamicArray && right is Bytes) || (left is Bytes && right is Bytes)
            ==> abs(m.expression) == join_te(abs(left), abs(right)),                                   //@ob C15.mg.merge.bytes_dyn C16.mg.merge.bytes_dyn_underlies_the_laws
        left is DynamicArray && right is DynamicArray
            ==> joins(abs(m.expression), abs(left), abs(right)),                                   //@ob C15.mg.merge.dyn_dyn C14.mg.merge.dyn_dyn C16.mg.merge.dyn_dyn_underlies_the_laws
        left is FixedArray && right is FixedArray
            ==> joins(abs(m.expression), abs(left), abs(right)),                                   //@ob C15.mg.merge.fixed_fixed C14.mg.merge.fixed_fixed C16.mg.merge.fixed_fixed_underlies_the_laws
        left is Mapping && right is Mapping
            ==> joins(abs(m.expression), abs(left), abs(right)),                                   //@ob C15.mg.merge.map_map C14.mg.merge.map_map C16.mg.merge.map_map_underlies_the_laws
        // ---- the contradictions C15/C14 name, stated directly ----
        (left is Mapping && (right is Word || right is FixedArray || right is DynamicArray || right is Bytes))
            || (right is Mapping && (left is Word || left is FixedArray || left is DynamicArray || left is Bytes))
            ==> m.expression is Conflict,                                                              //@ob C15.mg.merge.mapping_vs_array_or_word C16.mg.merge.mapping_vs_array_or_word_underlies_the_laws
        left is Word && right is Word && left->width is Some && right->width is Some && left->width != right->width
            ==> m.expression is Conflict,                                                              //@ob C15.mg.merge.two_different_widths C16.mg.merge.two_different_widths_underlies_the_laws
        left is Word && right is Word && join_use(left->usage, right->usage) is None
            ==> m.expression is Conflict,                                                              //@ob C15.mg.merge.incompatible_usages C16.mg.merge.incompatible_usages_underlies_the_laws
        left is FixedArray && right is FixedArray && left->length != right->length
            ==> m.expression is Conflict && m.equalities@.len() == 0,                                  //@ob C14.mg.merge.fixed_length_clash C16.mg.merge.fixed_length_clash_underlies_the_laws
        // ---- the whole fragment (the contract the laws below are stated over) ----
        frag(abs(left)) && frag(abs(right)) ==> joins(abs(m.expression), abs(left), abs(right)),       //@ob C15.mg.merge.join C16.mg.merge.join
        frag(abs(left)) && frag(abs(right)) ==> emits(m.equalities@, abs(left), abs(right)),           //@ob C14.mg.merge.equalities C16.mg.merge.equalities
        frag(abs(left)) && frag(abs(right)) ==> m.judgements@.len() == 0 && m.ty_vars@.len() == 0,     //@ob C16.mg.merge.no_side_output
        frag(abs(left)) && frag(abs(right)) ==> !(m.expression is Equal),                              //@ob C14.mg.merge.never_equal C16.mg.merge.never_equal_underlies_the_laws
    decreases flips(left, right),
//@proof entry
    proof { if left is Word && right is Word { lemma_join_use_closed_form(left->usage, right->usage); } }
//@end


// =================================================================================================
// C15 sanity of the join itself: the classes the property's sentence names, stated independently of
// `join_te`'s case split
// =================================================================================================
/// "plainly contradictory (two different widths, incompatible usages, a mapping against an array or a
/// sized word)"
pub open spec fn contradictory(l: A, r: A) -> bool {
    ||| (l is Word && r is Word && l->width is Some && r->width is Some && l->width != r->width)
    ||| (l is Word && r is Word && join_use(l->usage, r->usage) is None)
    ||| (l is Map && (r is Fixed || r is Dyn || r is Bytes))
    ||| (r is Map && (l is Fixed || l is Dyn || l is Bytes))
    ||| (l is Map && r is Word)          // sized or not: a mapping's slot is never read as a value
    ||| (r is Map && l is Word)
}
/// evidence that is a weakening of one common type: `le(x, t)` — x says no more than t
pub open spec fn te_le(x: A, t: A) -> bool {
    ||| x is Any
    ||| x == t
    ||| (x is Word && t is Word && (x->width is None || x->width == t->width) && leq(x->usage, t->usage))
}
pub proof fn lemma_join_te_c15(l: A, r: A, t: A)
    requires frag(l), frag(r),
    ensures
        contradictory(l, r) ==> join_te(l, r) is Conflict,                                             //@ob C15.mg.join.contradiction_conflicts
        // compatible evidence (both weakenings of a non-conflict type t) joins to something between them and t
        te_le(l, t) && te_le(r, t) && !(t is Conflict) && frag(t)
            ==> !(join_te(l, r) is Conflict) && te_le(l, join_te(l, r)) && te_le(r, join_te(l, r)) && te_le(join_te(l, r), t),   //@ob C15.mg.join.compatible_is_lub
        join_te(l, l) == l,                                                                            //@ob C15.mg.join.idempotent
        join_te(A::Any, l) == l && join_te(l, A::Any) == l,                                            //@ob C15.mg.join.any_identity
        frag(join_te(l, r)),                                                                           //@ob C14.mg.join.never_equal
        // a known width is kept; the more specific usage is kept
        l is Word && r is Word && join_te(l, r) is Word ==> {
            &&& (l->width is Some ==> join_te(l, r)->width == l->width)
            &&& (r->width is Some ==> join_te(l, r)->width == r->width)
            &&& leq(l->usage, join_te(l, r)->usage) && leq(r->usage, join_te(l, r)->usage)
        },                                                                                             //@ob C15.mg.join.keeps_width_and_usage
{
    assert forall|x: WordUse, y: WordUse| join_use(x, y) == join_use_cf(x, y) by { lemma_join_use_closed_form(x, y); }
    assert forall|x: WordUse, y: WordUse| leq(x, y) == leq_cf(x, y) by { lemma_leq_closed_form(x, y); }
}

// =================================================================================================
// C16: order and grouping. "The same outcome, up to the wording of conflict explanations and the
// choice of representative among variables it equates": outcomes are compared by `shape` (which
// constructor, for words the payload, for fixed arrays the length) plus the emitted equalities as
// unordered pairs, compared up to the equivalence they generate.
// =================================================================================================
pub enum Shape { Any, Bytes, Word { width: Option<usize>, usage: WordUse }, Fixed { length: U256 }, Map, Dyn, Conflict, Other }
pub open spec fn shape(a: A) -> Shape {
    match a {
        A::Any => Shape::Any,
        A::Bytes => Shape::Bytes,
        A::Word { width, usage } => Shape::Word { width, usage },
        A::Fixed { length, .. } => Shape::Fixed { length },
        A::Map { .. } => Shape::Map,
        A::Dyn { .. } => Shape::Dyn,
        A::Conflict => Shape::Conflict,
        _ => Shape::Other,
    }
}
/// closed form of `in_pairs(eqs_te(l, r), x, y)`
pub open spec fn em(l: A, r: A, x: TypeVariable, y: TypeVariable) -> bool {
    l != r && match (l, r) {
        (A::Dyn { element: a }, A::Dyn { element: b }) => (x == a && y == b) || (x == b && y == a),
        (A::Fixed { element: a, length: ll }, A::Fixed { element: b, length: lr }) => ll == lr && ((x == a && y == b) || (x == b && y == a)),
        (A::Map { key: k1, value: v1 }, A::Map { key: k2, value: v2 }) =>
            (x == k1 && y == k2) || (x == k2 && y == k1) || (x == v1 && y == v2) || (x == v2 && y == v1),
        _ => false,
    }
}
pub proof fn lemma_em_is_eqs(l: A, r: A, x: TypeVariable, y: TypeVariable)
    ensures em(l, r, x, y) == in_pairs(eqs_te(l, r), x, y)
{
    let s = eqs_te(l, r);
    if em(l, r, x, y) {
        if s.len() == 2 { assert(is_pair(s[0], x, y) || is_pair(s[1], x, y)); } else { assert(is_pair(s[0], x, y)); }
    }
}

pub proof fn lemma_symmetric(a: A, b: A)
    ensures
        shape(join_te(a, b)) == shape(join_te(b, a)),                                                  //@ob C16.mg.merge.symmetric
        forall|x: TypeVariable, y: TypeVariable| em(a, b, x, y) == em(b, a, x, y),                     //@ob C16.mg.merge.symmetric_eqs
{
    assert forall|x: WordUse, y: WordUse| join_use(x, y) == join_use_cf(x, y) by { lemma_join_use_closed_form(x, y); }
}

// ---- known finding D12 (DESIGN §5): `Bytes` and `DynamicArray` absorb word evidence ------------------
// The recorded classes, as EXACT predicates on the ordered triple (a, b, c) whose two groupings
// (a ⊔ b) ⊔ c and a ⊔ (b ⊔ c) are compared.  The lemmas proved are `assoc ∨ class` (§2.3), and
// `class ⇒ ¬assoc` (label C16.mg.d12.exact), so the carve-out excuses exactly the triples on which the
// pinned code is not associative and nothing else.  Lines for /verif/known_findings.txt:
//
//   finding: property=C16 obligation=C16.mg.merge.associative class=bytes_word_word witness=(Bytes, Word<8,Bool>, Word<160,Address>)
//   finding: property=C16 obligation=C16.mg.merge.associative class=dyn_word_word witness=(DynamicArray<v0>, Word<8,Bool>, Word<160,Address>)
//   finding: property=C16 obligation=C16.mg.merge.associative_eqs class=bytes_dyn_dyn witness=(Bytes, DynamicArray<v0>, DynamicArray<v1>)
//
//   class bytes_word_word  = d12_bytes_word_word : Bytes first or last, the other two are not-signed words
//                            that conflict with each other (different known widths, or incompatible usages)
//   class dyn_word_word    = d12_dyn_word_word   : the same with a DynamicArray in place of Bytes
//   class bytes_dyn_dyn    = d12_bytes_dyn_dyn   : Bytes first or last, the other two are dynamic arrays
//                            over different element variables (only the emitted equalities differ)
// With the absorber in the MIDDLE of the ordered triple both groupings agree (w1 ⊔ X) ⊔ w2 = X = w1 ⊔ (X ⊔ w2);
// the unordered triple is still order-dependent through its other arrangements.
/// two not-signed words that contradict each other (different known widths or incompatible usages)
pub open spec fn clash(w1: A, w2: A) -> bool {
    w1 is Word && w2 is Word && length_word(w1) && length_word(w2) && join_te(w1, w2) is Conflict
}
/// class bytes_word_word: `Bytes` at an end of the triple, the other two operands clashing words:
///   (Bytes ⊔ w1) ⊔ w2 = Bytes   but   Bytes ⊔ (w1 ⊔ w2) = Bytes ⊔ Conflict = Conflict
pub open spec fn d12_bytes_word_word(a: A, b: A, c: A) -> bool {
    (a is Bytes && clash(b, c)) || (c is Bytes && clash(a, b))
}
/// class dyn_word_word: the same with a `DynamicArray` absorbing the two words
pub open spec fn d12_dyn_word_word(a: A, b: A, c: A) -> bool {
    (a is Dyn && clash(b, c)) || (c is Dyn && clash(a, b))
}
/// class bytes_dyn_dyn: `Bytes` at an end, two dynamic arrays over different variables: the grouping
/// decides whether the equality between the two element variables is emitted at all
pub open spec fn d12_bytes_dyn_dyn(a: A, b: A, c: A) -> bool {
    (a is Bytes && b is Dyn && c is Dyn && b != c) || (c is Bytes && a is Dyn && b is Dyn && a != b)
}
/// the two groupings agree on the expression; f1..f4: which operand's variables each of the four merges kept
pub open spec fn assoc_expr(a: A, b: A, c: A, f1: bool, f2: bool, f3: bool, f4: bool) -> bool {
    shape(jf(jf(a, b, f1), c, f3)) == shape(jf(a, jf(b, c, f2), f4))
}
pub open spec fn known_d12_expr(a: A, b: A, c: A) -> bool { d12_bytes_word_word(a, b, c) || d12_dyn_word_word(a, b, c) }

/// the outcome's shape depends only on the operands' shapes (not on which variables they mention)
pub proof fn lemma_shape_congruence(x1: A, x2: A, y1: A, y2: A)
    requires shape(x1) == shape(x2), shape(y1) == shape(y2), frag(x1), frag(x2), frag(y1), frag(y2),
    ensures shape(join_te(x1, y1)) == shape(join_te(x2, y2)),
{
    assert forall|x: WordUse, y: WordUse| join_use(x, y) == join_use_cf(x, y) by { lemma_join_use_closed_form(x, y); }
}
/// associativity with every merge keeping its left operand's variables (the code's choice)
pub proof fn lemma_associative_expr0(a: A, b: A, c: A)
    requires frag(a), frag(b), frag(c),
    ensures
        assoc_expr(a, b, c, false, false, false, false) || d12_bytes_word_word(a, b, c) || d12_dyn_word_word(a, b, c),
        d12_bytes_word_word(a, b, c) || d12_dyn_word_word(a, b, c) ==> !assoc_expr(a, b, c, false, false, false, false),
{
    assert forall|x: WordUse, y: WordUse| join_use(x, y) == join_use_cf(x, y) by { lemma_join_use_closed_form(x, y); }
}
/// ... and with any choice of representatives
pub proof fn lemma_associative_expr(a: A, b: A, c: A, f1: bool, f2: bool, f3: bool, f4: bool)
    requires frag(a), frag(b), frag(c),
    ensures
        assoc_expr(a, b, c, f1, f2, f3, f4) || d12_bytes_word_word(a, b, c) || d12_dyn_word_word(a, b, c),   //@ob C16.mg.merge.associative
        // the carve-out is exact: inside the two classes the groupings really differ (the finding is real, and
        // the predicates excuse nothing else)
        d12_bytes_word_word(a, b, c) || d12_dyn_word_word(a, b, c) ==> !assoc_expr(a, b, c, f1, f2, f3, f4),   //@ob C16.mg.d12.exact
{
    lemma_associative_expr0(a, b, c);
    lemma_join_te_c15(a, b, a); lemma_join_te_c15(b, a, a); lemma_join_te_c15(b, c, a); lemma_join_te_c15(c, b, a);   // closure of the fragment
    lemma_symmetric(a, b);
    lemma_symmetric(b, c);
    lemma_symmetric(jf(a, b, f1), c);
    lemma_symmetric(a, jf(b, c, f2));
    lemma_shape_congruence(jf(a, b, f1), join_te(a, b), c, c);
    lemma_shape_congruence(a, a, jf(b, c, f2), join_te(b, c));
}

/// equalities emitted by the grouping (a ⊔ b) ⊔ c, resp. a ⊔ (b ⊔ c), accumulated over both merges
pub open spec fn el(a: A, b: A, c: A, f1: bool, x: TypeVariable, y: TypeVariable) -> bool { em(a, b, x, y) || em(jf(a, b, f1), c, x, y) }
pub open spec fn er(a: A, b: A, c: A, f2: bool, x: TypeVariable, y: TypeVariable) -> bool { em(b, c, x, y) || em(a, jf(b, c, f2), x, y) }
/// x and y are connected by at most two pairs of `f`
pub open spec fn conn2(f: spec_fn(TypeVariable, TypeVariable) -> bool, x: TypeVariable, y: TypeVariable) -> bool {
    x == y || f(x, y) || exists|z: TypeVariable| #[trigger] f(x, z) && f(z, y)
}
/// Both groupings equate the same variables (each pair of one is connected through <= 2 pairs of the
/// other).  Interpretation (DESIGN §6 C16): when the combined result is a conflict the equalities
/// emitted on the way are not compared — C14 exempts contradictory evidence from component unification.
pub proof fn lemma_associative_eqs(a: A, b: A, c: A, f1: bool, f2: bool, x: TypeVariable, y: TypeVariable)
    requires
        frag(a), frag(b), frag(c),
        !(join_te(join_te(a, b), c) is Conflict), !(join_te(a, join_te(b, c)) is Conflict),
    ensures
        d12_bytes_dyn_dyn(a, b, c) || (el(a, b, c, f1, x, y) ==> conn2(|p: TypeVariable, q: TypeVariable| er(a, b, c, f2, p, q), x, y)),   //@ob C16.mg.merge.associative_eqs
        d12_bytes_dyn_dyn(a, b, c) || (er(a, b, c, f2, x, y) ==> conn2(|p: TypeVariable, q: TypeVariable| el(a, b, c, f1, p, q), x, y)),   //@ob C16.mg.merge.associative_eqs
{
    assert forall|u: WordUse, v: WordUse| join_use(u, v) == join_use_cf(u, v) by { lemma_join_use_closed_form(u, v); }
    let fr = |p: TypeVariable, q: TypeVariable| er(a, b, c, f2, p, q);
    let fl = |p: TypeVariable, q: TypeVariable| el(a, b, c, f1, p, q);
    // candidate middle points: the component variables of the three operands
    match (a, b, c) {
        (A::Map { key: k1, value: v1 }, A::Map { key: k2, value: v2 }, A::Map { key: k3, value: v3 }) => {
            if el(a, b, c, f1, x, y) { assert(fr(x, y) || x == y || fr(x, k1) && fr(k1, y) || fr(x, k2) && fr(k2, y) || fr(x, k3) && fr(k3, y) || fr(x, v1) && fr(v1, y) || fr(x, v2) && fr(v2, y) || fr(x, v3) && fr(v3, y)); }
            if er(a, b, c, f2, x, y) { assert(fl(x, y) || x == y || fl(x, k1) && fl(k1, y) || fl(x, k2) && fl(k2, y) || fl(x, k3) && fl(k3, y) || fl(x, v1) && fl(v1, y) || fl(x, v2) && fl(v2, y) || fl(x, v3) && fl(v3, y)); }
        },
        (A::Dyn { element: e1 }, A::Dyn { element: e2 }, A::Dyn { element: e3 }) => {
            if el(a, b, c, f1, x, y) { assert(fr(x, y) || x == y || fr(x, e1) && fr(e1, y) || fr(x, e2) && fr(e2, y) || fr(x, e3) && fr(e3, y)); }
            if er(a, b, c, f2, x, y) { assert(fl(x, y) || x == y || fl(x, e1) && fl(e1, y) || fl(x, e2) && fl(e2, y) || fl(x, e3) && fl(e3, y)); }
        },
        (A::Fixed { element: e1, .. }, A::Fixed { element: e2, .. }, A::Fixed { element: e3, .. }) => {
            if el(a, b, c, f1, x, y) { assert(fr(x, y) || x == y || fr(x, e1) && fr(e1, y) || fr(x, e2) && fr(e2, y) || fr(x, e3) && fr(e3, y)); }
            if er(a, b, c, f2, x, y) { assert(fl(x, y) || x == y || fl(x, e1) && fl(e1, y) || fl(x, e2) && fl(e2, y) || fl(x, e3) && fl(e3, y)); }
        },
        _ => {},
    }
}
/// ... and inside the class the two groupings really disagree on what they equate: one of them equates the
/// two element variables, the other equates nothing
pub proof fn lemma_d12_bytes_dyn_dyn_exact(a: A, b: A, c: A, f1: bool, f2: bool)
    requires d12_bytes_dyn_dyn(a, b, c),
    ensures
        exists|x: TypeVariable, y: TypeVariable| x != y && el(a, b, c, f1, x, y) != er(a, b, c, f2, x, y),    //@ob C16.mg.d12.exact
        !(exists|p: TypeVariable, q: TypeVariable| el(a, b, c, f1, p, q) && er(a, b, c, f2, p, q)),         //@ob C16.mg.d12.exact
{
    if a is Bytes {
        assert(er(a, b, c, f2, b->Dyn_element, c->Dyn_element) && !el(a, b, c, f1, b->Dyn_element, c->Dyn_element));
    } else {
        assert(el(a, b, c, f1, a->Dyn_element, b->Dyn_element) && !er(a, b, c, f2, a->Dyn_element, b->Dyn_element));
    }
}

pub proof fn lemma_in_pairs_concat(s: Seq<Equality>, t: Seq<Equality>, x: TypeVariable, y: TypeVariable)
    ensures in_pairs(s + t, x, y) == (in_pairs(s, x, y) || in_pairs(t, x, y))
{
    let st = s + t;
    if in_pairs(s, x, y) { let i = choose|i: int| 0 <= i < s.len() && is_pair(#[trigger] s[i], x, y); assert(st[i] == s[i]); }
    if in_pairs(t, x, y) { let i = choose|i: int| 0 <= i < t.len() && is_pair(#[trigger] t[i], x, y); assert(st[i + s.len()] == t[i]); }
    if in_pairs(st, x, y) {
        let i = choose|i: int| 0 <= i < st.len() && is_pair(#[trigger] st[i], x, y);
        if i < s.len() { assert(st[i] == s[i]); } else { assert(st[i] == t[i - s.len()]); }
    }
}
/// what a list satisfying `merge`'s equalities clause equates
pub proof fn lemma_emits_pairs(s: Seq<Equality>, l: A, r: A, x: TypeVariable, y: TypeVariable)
    requires emits(s, l, r),
    ensures in_pairs(s, x, y) == em(l, r, x, y),
{
    lemma_em_is_eqs(l, r, x, y);
    let e = eqs_te(l, r);
    if in_pairs(s, x, y) { let i = choose|i: int| 0 <= i < s.len() && is_pair(#[trigger] s[i], x, y); assert(is_pair(e[i], x, y)); }
    if in_pairs(e, x, y) { let i = choose|i: int| 0 <= i < e.len() && is_pair(#[trigger] e[i], x, y); assert(is_pair(s[i], x, y)); }
}

// =================================================================================================
// The laws on the REAL `merge`: exec harnesses (template code, never compiled into the crate) that
// call the extracted function and are verified against its contract above — this is the step that
// connects `merge` to `join_te`/`eqs_te`; if `merge`'s postcondition is weakened these stop verifying.
// Operands are passed twice (ghost-equal copies) because `merge` consumes them.
// =================================================================================================
fn law_symmetric(l1: TE, r1: TE, l2: TE, r2: TE, tv: TypeVariable, state: &mut TypeCheckerState)
    requires l1 == l2, r1 == r2, frag(abs(l1)), frag(abs(r1)),
{
    let m1 = merge(l1, r1, tv, state);
    let m2 = merge(r2, l2, tv, state);
    proof {
        lemma_symmetric(abs(l1), abs(r1));
        assert forall|x: TypeVariable, y: TypeVariable| in_pairs(m1.equalities@, x, y) == in_pairs(m2.equalities@, x, y) by {
            lemma_emits_pairs(m1.equalities@, abs(l1), abs(r1), x, y);
            lemma_emits_pairs(m2.equalities@, abs(r1), abs(l1), x, y);
        }
    }
    assert(shape(abs(m1.expression)) == shape(abs(m2.expression)));                                    //@ob C16.mg.law.symmetric
    assert(forall|x: TypeVariable, y: TypeVariable| in_pairs(m1.equalities@, x, y) == in_pairs(m2.equalities@, x, y));   //@ob C16.mg.law.symmetric_eqs
}

fn law_associative(a1: TE, b1: TE, c1: TE, a2: TE, b2: TE, c2: TE, tv: TypeVariable, state: &mut TypeCheckerState)
    requires a1 == a2, b1 == b2, c1 == c2, frag(abs(a1)), frag(abs(b1)), frag(abs(c1)),
{
    let ghost (a, b, c) = (abs(a1), abs(b1), abs(c1));
    proof { lemma_join_te_c15(a, b, a); lemma_join_te_c15(b, a, a); lemma_join_te_c15(b, c, a); lemma_join_te_c15(c, b, a); }
    let ab = merge(a1, b1, tv, state);
    let Merge { expression: ab_e, equalities: ab_q, .. } = ab;
    let ghost f1 = abs(ab_e) != join_te(a, b);
    let ab_c = merge(ab_e, c1, tv, state);
    let ghost f3 = abs(ab_c.expression) != join_te(jf(a, b, f1), c);
    let bc = merge(b2, c2, tv, state);
    let Merge { expression: bc_e, equalities: bc_q, .. } = bc;
    let ghost f2 = abs(bc_e) != join_te(b, c);
    let a_bc = merge(a2, bc_e, tv, state);
    let ghost f4 = abs(a_bc.expression) != join_te(a, jf(b, c, f2));
    assert(abs(ab_c.expression) == jf(jf(a, b, f1), c, f3) && abs(a_bc.expression) == jf(a, jf(b, c, f2), f4));
    proof { lemma_associative_expr(a, b, c, f1, f2, f3, f4); }
    assert(shape(abs(ab_c.expression)) == shape(abs(a_bc.expression)) || known_d12_expr(a, b, c));     //@ob C16.mg.law.associative
    // everything the left grouping equates is equated by the right grouping, and vice versa
    let ghost lq = ab_q@ + ab_c.equalities@;
    let ghost rq = bc_q@ + a_bc.equalities@;
    proof {
        if !(ab_c.expression is Conflict) && !(a_bc.expression is Conflict) && !d12_bytes_dyn_dyn(a, b, c) {
            lemma_symmetric(a, b); lemma_symmetric(b, c); lemma_symmetric(jf(a, b, f1), c); lemma_symmetric(a, jf(b, c, f2));
            lemma_shape_congruence(jf(a, b, f1), join_te(a, b), c, c); lemma_shape_congruence(a, a, jf(b, c, f2), join_te(b, c));
            assert forall|x: TypeVariable, y: TypeVariable| in_pairs(lq, x, y) == el(a, b, c, f1, x, y) by {
                lemma_emits_pairs(ab_q@, a, b, x, y); lemma_emits_pairs(ab_c.equalities@, jf(a, b, f1), c, x, y); lemma_in_pairs_concat(ab_q@, ab_c.equalities@, x, y);
            }
            assert forall|x: TypeVariable, y: TypeVariable| in_pairs(rq, x, y) == er(a, b, c, f2, x, y) by {
                lemma_emits_pairs(bc_q@, b, c, x, y); lemma_emits_pairs(a_bc.equalities@, a, jf(b, c, f2), x, y); lemma_in_pairs_concat(bc_q@, a_bc.equalities@, x, y);
            }
            assert forall|x: TypeVariable, y: TypeVariable| (in_pairs(lq, x, y) ==> conn2(|p: TypeVariable, q: TypeVariable| in_pairs(rq, p, q), x, y))
                && (in_pairs(rq, x, y) ==> conn2(|p: TypeVariable, q: TypeVariable| in_pairs(lq, p, q), x, y)) by {
                lemma_associative_eqs(a, b, c, f1, f2, x, y);
                let fr = |p: TypeVariable, q: TypeVariable| er(a, b, c, f2, p, q);
                let fl = |p: TypeVariable, q: TypeVariable| el(a, b, c, f1, p, q);
                let gr = |p: TypeVariable, q: TypeVariable| in_pairs(rq, p, q);
                let gl = |p: TypeVariable, q: TypeVariable| in_pairs(lq, p, q);
                assert forall|p: TypeVariable, q: TypeVariable| #[trigger] fr(p, q) == gr(p, q) by {}
                assert forall|p: TypeVariable, q: TypeVariable| #[trigger] fl(p, q) == gl(p, q) by {}
                if in_pairs(lq, x, y) && !(x == y || gr(x, y)) { let z = choose|z: TypeVariable| #[trigger] fr(x, z) && fr(z, y); assert(gr(x, z) && gr(z, y)); }
                if in_pairs(rq, x, y) && !(x == y || gl(x, y)) { let z = choose|z: TypeVariable| #[trigger] fl(x, z) && fl(z, y); assert(gl(x, z) && gl(z, y)); }
            }
        }
    }
    assert(ab_c.expression is Conflict || a_bc.expression is Conflict || d12_bytes_dyn_dyn(a, b, c)
        || forall|x: TypeVariable, y: TypeVariable|
            (in_pairs(lq, x, y) ==> conn2(|p: TypeVariable, q: TypeVariable| in_pairs(rq, p, q), x, y))
            && (in_pairs(rq, x, y) ==> conn2(|p: TypeVariable, q: TypeVariable| in_pairs(lq, p, q), x, y)));      //@ob C16.mg.law.associative_eqs
}

} // verus!
fn main() {}
