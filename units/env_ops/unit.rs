//@unit props=C07,C05,C01
// Unit env_ops — the `execute` bodies of the opcodes that units alu_ops / stack / control / watchdog leave out:
//   src/opcode/environment.rs  SHA3, ADDRESS, BALANCE, ORIGIN, CALLER, CALLVALUE, GASPRICE, EXTCODEHASH, BLOCKHASH, COINBASE,
//                              TIMESTAMP, NUMBER, PREVRANDAO, GASLIMIT, CHAINID, SELFBALANCE, BASEFEE, GAS, LOGn (+ LogN::n),
//                              CREATE, CREATE2                                   (SELFDESTRUCT: unit control)
//   src/opcode/memory.rs       CALLDATALOAD, CALLDATASIZE, CODESIZE, EXTCODESIZE, RETURNDATASIZE, POP, MLOAD, MSTORE, MSTORE8,
//                              SLOAD, SSTORE, MSIZE; CALLDATACOPY, CODECOPY, EXTCODECOPY, RETURNDATACOPY (arity, errors, frame,
//                              the one-store branch; their polled loops: unit watchdog)   (PUSH0/PUSHn: alu_ops, DUPn/SWAPn: stack)
//   src/opcode/control.rs      PC, CALL, CALLCODE, DELEGATECALL, STATICCALL      (store_return_data: unit watchdog; here a callee)
// over an ABSTRACT VM, against the EVM definition of each instruction (yellow paper appendix H / evm.codes, Shanghai): C07
// ("each path computes what a concrete EVM computes ... memory and storage instruction"), C05/C06 (a wrong arity or a
// swapped key/value shifts every later SLOAD/SSTORE key: phantom and missed slots), C17 (errors located at the instruction),
// C08 (a full stack ends the path), C18 (results are built through the value builder with the configured limit).
//
// Contract per opcode (labels C07.env.<Opcode>.<what>):
//   stack_effect (+ C05.env.<Opcode>.stack_effect_is_evm_arity)
//                     on Ok the stack is the old one minus EXACTLY the EVM's number of operands (taken from the top) plus EXACTLY
//                     the EVM's number of results (0 or 1) on top; everything below is unchanged (stated over the whole Seq);
//                     Ok whenever the operands are there (and there is room for the result; CALL-family: or the watchdog stopped
//                     the return-data copy)
//   operand roles     the node built / the state change uses each operand in its EVM role: operand k = the k-th item from the
//                     top = mu_s[k-1]  (SSTORE: store(key = op 1, value = op 2); MSTORE(offset = op 1, value = op 2); CALL's
//                     node {gas, address, value, args = mem[op 4 .. +op 5], ret_offset = op 6, ret_size = op 7} ...)
//   errors            fewer items than the arity: Err(NoSuchStackFrame) located at the current instruction (C17); the stack is
//                     unchanged for arity 1 — for arity >= 2 see KNOWN CLASS below; a push at depth 1024: Err(StackDepthExceeded)
//                     at the current instruction, stack unchanged (C08: the caller ends the path); no thread: Err(NoSuchThread)
//   C18               the pushed node is `vm.build().symbolic_exec / known / known_exec (ip, ..)`: culled to an opaque Value when
//                     over the configured limit.  NOT claimed where the code by-passes the builder: SLOAD (Storage::load ->
//                     RSV::new(.., None)), MLOAD (Memory::load returns the stored value / the unlimited zero word), and the `data`
//                     child of SHA3/LOG/CREATE/CREATE2/CALL (Memory::load_slice -> RSV::new(.., None)) — recorded finding D18
//                     (known_findings.txt); CALLDATASIZE / RETURNDATASIZE / MSIZE call RSV::new_value(ip, prov) directly: a
//                     one-node leaf, within every limit >= 1 (stated: .is_a_one_node_leaf)
//   frame             nothing else of the VM moves: code, builder, config, kill flag, the rest of the VM (queue, jump targets,
//                     stored states, error log), the thread's pointer and the rest of the thread (gas), and of the state every
//                     part the EVM does not name for the instruction (memory / storage / recorded / logged values, the rest of the
//                     state: fork point, visit counters)
// Storage and memory are the ABSTRACT per-key histories of units storage / memory (their proved contracts are the callee
// contracts here), so that "SSTORE k v; SLOAD k reads v" and "MSTORE o v; MLOAD o reads v" follow as CLIENT lemmas
// (mod client: hand-written callers of the extracted `execute` functions, verified from the contracts only).
//
// KNOWN CLASS partial_pop_on_underflow (told in the build report; not an EVM-visible difference): an opcode of arity >= 2 pops
// its operands one at a time with `?`, so with 0 < k < arity items the k items have been consumed when the error is returned
// (the stack is left EMPTY, not unchanged).  The EVM discards the frame on a stack underflow and VM::execute ends the thread
// on any opcode error, so no later instruction sees that stack; what is lost are the k values for `all_values()` of the
// errored thread's state.  Clause `.underflow_is_error_at_ip` is `unchanged || known_partial_pop`, clause
// `.known_partial_pop.exact` proves the code is in the class (same behaviour as the ALU opcodes: alu_underflow in unit alu_ops).
use vstd::prelude::*;
use std::sync::Arc;
//@dropped every opcode's min_gas_cost / arg_count / as_text_code (String) / as_byte (as_byte: unit disassemble); LogN::new (unit disassemble); the #[cfg(test)] modules.  NOTE: DelegateCall::arg_count / StaticCall::arg_count answer 7, the EVM's arity is 6 — `arg_count` has no caller in src/ (grep), so nothing observable depends on it; `execute` pops 6 (under contract here)
//@dropped the real VM (src/vm/mod.rs: VecDeque<VMThread>, InstructionStream, JumpTargets, stored states, error log): VM::{instruction_pointer, stack_handle, state} are A-CALLEE contracts over a stand-in VM; VM::{build, instructions, config, watchdog}, Config, VMState::{memory_mut, storage_mut, record_value, log_value}, RSV::new_value, LogN::n, RSVD::call_data are extracted
//@dropped Storage::{store, load}, Memory::{store, store_8, load}: A-CALLEE contracts = the contracts PROVED in units storage / memory (per-key histories), transcribed over the real value tree with the key taken through an uninterpreted key function (skey / mkey); Memory::load_slice: an uninterpreted relation of (memory before, offset, size, ip) (panic-freedom in unit arith_sites; what a multi-word read returns is under contract nowhere)
//@dropped store_return_data (src/opcode/control.rs): A-CALLEE, the contract proved in unit watchdog (touches memory only) + an uninterpreted relation of (memory before, ret_size, ret_offset, ip); the watchdog's ghost poll counter is out of sight here
//@dropped ValueBuilder::{symbolic_exec, symbolic, known, known_exec}, RSV::new: A-CALLEE contracts (bodies under contract in unit value_size)
//@dropped the four bulk-copy opcodes CALLDATACOPY / CODECOPY / EXTCODECOPY / RETURNDATACOPY: WHAT the word-by-word loop (constant size) writes to memory is under contract nowhere (here the loop invariant carries only "touches memory only, pushes nothing"; the polls are unit watchdog, C13); R-STEPBY-ENUM writes the iteration protocol of `(0..n).step_by(32).enumerate()` out, as in unit watchdog; `Watchdog::{should_stop, poll_every}` are contract-free A-CALLEE stand-ins (any answer / the fixed interval), `poll_every() >= 1` is a declared precondition (trait stand-in PolledOpcode)
//@include common/value_tree_items.rs

// A-CALLEE: the constructors of src/vm/value/known.rs these opcodes call, on the opaque KnownWord of the value-tree prelude:
// `KnownWord::from_le(impl Into<U256>)` (`Self { value: value.into() }`) for the two instantiations used (u8: CALLDATALOAD's 32,
// u32: PC's instruction pointer) and `KnownWord::from(usize)` (CODESIZE).  `kw_nat` is the number a word denotes.
impl vt_ext::KnownWord {
    pub fn from_le<T: LeSource>(_value: T) -> vt_ext::KnownWord { unimplemented!() }
}
impl From<usize> for vt_ext::KnownWord { fn from(_v: usize) -> vt_ext::KnownWord { unimplemented!() } }
// A-CALLEE: `usize::from(&KnownWord)` (known.rs: `value.value.as_usize()`, the low 64 bits: proved in units control / memory)
impl<'a> From<&'a vt_ext::KnownWord> for usize { fn from(_v: &'a vt_ext::KnownWord) -> usize { unimplemented!() } }

verus! {
/// the number a known word denotes (uninterpreted; unit known_word has the real field)
pub uninterp spec fn kw_nat(k: KnownWord) -> nat;
/// A-CALLEE: the unsigned integer types `from_le` is called with here (`U256: From<u8>, From<u32>` are zero-extensions)
pub trait LeSource: Sized { spec fn as_nat(self) -> nat; }
impl LeSource for u8 { open spec fn as_nat(self) -> nat { self as nat } }
impl LeSource for u32 { open spec fn as_nat(self) -> nat { self as nat } }
// A-CALLEE: from_le(v) denotes v
pub assume_specification<T: LeSource>[ KnownWord::from_le::<T> ](value: T) -> (r: KnownWord)
    ensures kw_nat(r) == value.as_nat();
// A-CALLEE: `KnownWord::from(usize)` (known.rs: `U256::from(value.to_le() as u128)`, little-endian host) denotes the usize
pub uninterp spec fn kw_from_usize(v: usize) -> KnownWord;
pub broadcast axiom fn kw_from_usize_denotes(v: usize) ensures kw_nat(#[trigger] kw_from_usize(v)) == v as nat;
impl vstd::std_specs::convert::FromSpecImpl<usize> for KnownWord {
    open spec fn obeys_from_spec() -> bool { true }
    open spec fn from_spec(v: usize) -> KnownWord { kw_from_usize(v) }
}
pub assume_specification[ <KnownWord as core::convert::From<usize>>::from ](v: usize) -> (r: KnownWord);
/// the `usize` a word converts to (its low 64 bits)
pub uninterp spec fn kw_usize(v: KnownWord) -> usize;
impl<'a> vstd::std_specs::convert::FromSpecImpl<&'a KnownWord> for usize {
    open spec fn obeys_from_spec() -> bool { true }
    open spec fn from_spec(v: &'a KnownWord) -> usize { kw_usize(*v) }
}
pub assume_specification<'a>[ <usize as core::convert::From<&'a KnownWord>>::from ](v: &'a KnownWord) -> (r: usize);
/// the constant-folded form of a value (uninterpreted: what folding computes is units fold_arms / transform, C09)
pub uninterp spec fn fold(v: RSV) -> RSV;
impl SymbolicValue<RuntimeAuxData> {
    // A-CALLEE: SymbolicValue::constant_fold is a pure function of the value
    #[verifier::external_body]
    pub fn constant_fold(&self) -> (r: Arc<Self>) ensures *r == fold(*self) { unimplemented!() }
}

//@extract file=src/vm/value/mod.rs path="impl<AuxData> SymbolicValueData<AuxData>#1" kind=header id=env::impl_SymbolicValueData
//@end
//@extract file=src/vm/value/mod.rs path="impl<AuxData> SymbolicValueData<AuxData>#1|fn call_data"
//@ret r
//@spec
        ensures r matches SymbolicValueData::CallData { id, offset: o, size: s } && o == offset && s == size,      //@ob C07.env.call_data.fields
//@end
}
} // verus!

pub mod container {
use vstd::prelude::*;
verus! {
//@include stack/container_items.rs
} // verus!
}

pub mod execution {
use vstd::prelude::*;
use super::{container, KnownWord};
verus! {
//@include stack/execution_items.rs
} // verus!
}

pub mod vm {
use vstd::prelude::*;
use std::sync::Arc;
use super::*;
use super::container::Locatable;
use super::execution::{self, Error, Errors, LocatedError, Result};
verus! {
//@include stack/stack_items.rs

// ---- instructions ------------------------------------------------------------------------------------
/// A-CALLEE (trait stand-in): `Opcode` reduced to the one method under contract
pub trait Opcode {
    fn execute(&self, vm: &mut VM) -> ExecuteResult;
}
//@extract file=src/opcode/mod.rs path="type ExecuteResult" kind=type
//@end
/// A-CALLEE (trait stand-in for the four bulk-copy opcodes, which poll the watchdog): the same one method.  The precondition
/// is the premise of C01's obligation there (`count % poll_every()`), exactly as in unit watchdog: the watchdog asks to be
/// polled every p >= 1 iterations.
pub trait PolledOpcode {
    fn execute(&self, vm: &mut VM) -> ExecuteResult
        requires old(vm).watchdog.interval() >= 1;
}
/// A-CALLEE (opaque stand-in for `DynWatchdog = Rc<dyn Watchdog>`): an external oracle; `should_stop` may answer anything
/// (what the polls add up to is unit watchdog, C13), `poll_every` answers the fixed interval
#[verifier::external_body]
pub struct DynWatchdog { _opaque: u8 }
impl DynWatchdog {
    pub uninterp spec fn interval(&self) -> usize;
    #[verifier::external_body]
    pub fn should_stop(&self) -> bool { unimplemented!() }
    #[verifier::external_body]
    pub fn poll_every(&self) -> (r: usize) ensures r == self.interval() { unimplemented!() }
}
//@extract file=src/constant.rs path="const CONTRACT_MAXIMUM_SIZE_BYTES" kind=type
//@end

// ---- the value builder (same stand-in and contracts as unit alu_ops) -------------------------------------
/// A-CALLEE (opaque stand-in for `ValueBuilder`, which holds a copy of the Config)
#[verifier::external_body]
pub struct ValueBuilder { _opaque: u8 }
/// whether a node with this payload would exceed the builder's `value_size_limit` (1 + the children's sizes > limit);
/// such a node is culled to an opaque `Value` (C18, unit value_size)
pub uninterp spec fn over_limit(b: ValueBuilder, data: RSVD) -> bool;
/// `r` is what `ValueBuilder::symbolic(ip, data, prov)` builds: located at `ip`, with that provenance, payload `data`
/// unless culled by the size limit
pub open spec fn built(r: RSV, b: ValueBuilder, ip: u32, prov: Provenance, data: RSVD) -> bool {
    &&& r.ip() == ip
    &&& r.prov() == prov
    &&& if over_limit(b, data) { r.dt() is Value } else { r.dt() == data }
}
/// `r` is what `ValueBuilder::symbolic_exec(ip, data)` builds: the same with provenance Execution
pub open spec fn exec_built(r: RSV, b: ValueBuilder, ip: u32, data: RSVD) -> bool { built(r, b, ip, Provenance::Execution, data) }
/// `r` is a constant leaf `word` made by the builder (or culled, when the limit is 0)
pub open spec fn known_built(r: RSV, ip: u32, prov: Provenance, word: KnownWord) -> bool {
    &&& r.ip() == ip
    &&& r.prov() == prov
    &&& (r.dt() is Value || r.dt() == (RSVD::KnownData { value: word }))
}
impl ValueBuilder {
    // A-CALLEE: ValueBuilder::symbolic_exec = RSV::new_from_execution(ip, data, Some(value_size_limit)); proved in unit
    // value_size as new_post(*r, ip, data, Provenance::Execution, Some(limit)): `1 + sz_sum(data) <= l ==> r.dt() == data`,
    // otherwise `r.dt() is Value`; `r.ip() == ip && r.prov() == Execution`.  Total (C01: sizes do not reach usize::MAX).
    #[verifier::external_body]
    pub fn symbolic_exec(&self, instruction_pointer: u32, data: RSVD) -> (r: RuntimeBoxedVal)
        ensures exec_built(*r, *self, instruction_pointer, data),
    { unimplemented!() }
    // A-CALLEE: ValueBuilder::symbolic = RSV::new(ip, data, provenance, Some(value_size_limit)); unit value_size:
    // C18.vs.builder_symbolic.built_under_the_limit (same new_post)
    #[verifier::external_body]
    pub fn symbolic(&self, instruction_pointer: u32, data: RSVD, provenance: Provenance) -> (r: RuntimeBoxedVal)
        ensures built(*r, *self, instruction_pointer, provenance, data),
    { unimplemented!() }
    // A-CALLEE: ValueBuilder::known = RSV::new_known_value(ip, value, provenance, Some(value_size_limit)); unit value_size:
    // `limit >= 1 ==> r.dt() == KnownData { value }` (C18.vs.builder_known.kept), else culled
    #[verifier::external_body]
    pub fn known(&self, instruction_pointer: u32, value_data: KnownWord, provenance: Provenance) -> (r: RuntimeBoxedVal)
        ensures known_built(*r, instruction_pointer, provenance, value_data),
    { unimplemented!() }
    // A-CALLEE: ValueBuilder::known_exec = RSV::new_known_value(ip, value, Provenance::Execution, Some(value_size_limit));
    // unit value_size: C18.vs.builder_known_exec.kept / .leaf_within_limit
    #[verifier::external_body]
    pub fn known_exec(&self, instruction_pointer: u32, value_data: KnownWord) -> (r: RuntimeBoxedVal)
        ensures known_built(*r, instruction_pointer, Provenance::Execution, value_data),
    { unimplemented!() }
}
// A-CALLEE: `RSV::new(ip, data, provenance, limit)` (src/vm/value/mod.rs), the part of its contract proved in unit value_size
// (C18.vs.new.no_limit_untouched, C18.vs.new.frame) that RSV::new_value needs: no limit, payload kept
//@extract file=src/vm/value/mod.rs path="impl RSV" kind=header
//@end
    #[verifier::external_body]
    pub fn new(instruction_pointer: u32, data: RSVD, provenance: Provenance, value_size_limit: Option<usize>) -> (r: RuntimeBoxedVal)
        ensures
            r.ip() == instruction_pointer && r.prov() == provenance,
            value_size_limit is None ==> r.dt() == data,
    { unimplemented!() }
//@extract file=src/vm/value/mod.rs path="impl RSV|fn new_value"
//@ret r
//@spec
        ensures r.ip() == instruction_pointer && r.prov() == provenance && r.dt() is Value,      //@ob C07.env.new_value.leaf_with_the_given_provenance
//@end
}

// ---- storage: the abstract per-key histories of unit storage ---------------------------------------------
/// A-CALLEE (ghost key type): the identity of a storage key as the derived `Eq`/`Hash` of SymbolicValue decide it (payload,
/// recursively through the Arcs; instruction pointer and provenance IGNORED).  Unit storage files histories under that
/// identity; here it is an uninterpreted function of the key value (`skey`).
#[verifier::external_body]
pub ghost struct SKey { _opaque: u8 }
pub uninterp spec fn skey(key: RSV) -> SKey;
/// A-CALLEE (opaque stand-in for `Storage`)
#[verifier::external_body]
pub struct Storage { _opaque: u8 }
/// what SLOAD pushes for a slot whose latest generation is `last`: the generation wrapped in an `SLoad` of the key, unless it
/// already is an `SLoad` node (same definition as unit storage)
pub open spec fn loaded(key: RuntimeBoxedVal, last: RuntimeBoxedVal) -> RSVD {
    if last.dt() is SLoad { last.dt() } else { RSVD::SLoad { key, value: last } }
}
impl Storage {
    /// THE ABSTRACT VIEW (unit storage: `hist`): the generations written under a key on this path, oldest first
    pub uninterp spec fn hist(&self, k: SKey) -> Seq<RuntimeBoxedVal>;
    /// representation invariant of the real type (unit storage: established by `new`, kept by every method)
    pub uninterp spec fn wf(&self) -> bool;
    // A-CALLEE: Storage::store — unit storage: C07.storage.store.appends_to_the_history_of_its_key,
    // .other_histories_unchanged (keys modulo the derived Eq = skey; that the very value handed in is what is filed is the
    // two-line body `entry(key).or_insert(vec![]).push(value)`, unit storage proves it modulo the derived Eq)
    #[verifier::external_body]
    pub fn store(&mut self, key: RuntimeBoxedVal, value: RuntimeBoxedVal)
        requires old(self).wf(),
        ensures
            final(self).wf(),
            final(self).hist(skey(*key)) == old(self).hist(skey(*key)).push(value),
            forall|o: SKey| o != skey(*key) ==> #[trigger] final(self).hist(o) == old(self).hist(o),
    { unimplemented!() }
    // A-CALLEE: Storage::load — unit storage: C07.storage.load.returns_the_last_generation,
    // .unwritten_slot_gets_placeholder_generation, .other_histories_unchanged.  The node is RSV::new(.., None): NO size limit
    // (recorded finding D18), so nothing about C18 is claimed for what SLOAD pushes.
    #[verifier::external_body]
    pub fn load(&mut self, key: &RuntimeBoxedVal) -> (r: RuntimeBoxedVal)
        requires old(self).wf(),
        ensures
            final(self).wf(),
            old(self).hist(skey(**key)).len() > 0 ==> final(self).hist(skey(**key)) == old(self).hist(skey(**key))
                && r.dt() == loaded(*key, old(self).hist(skey(**key)).last()),
            old(self).hist(skey(**key)).len() == 0 ==> final(self).hist(skey(**key)).len() == 1
                && final(self).hist(skey(**key))[0].dt() == (RSVD::UnwrittenStorageValue { key: *key })
                && r.dt() == loaded(*key, final(self).hist(skey(**key))[0]),
            forall|o: SKey| o != skey(**key) ==> #[trigger] final(self).hist(o) == old(self).hist(o),
    { unimplemented!() }
}

// ---- memory: the abstract per-key histories of unit memory -----------------------------------------------
/// A-CALLEE (ghost key type): the key an offset operand names — unit memory's `key_of`: the offset is constant-folded, a
/// literal is filed under the low 64 bits of its value, anything else under the folded expression (modulo the derived Eq)
#[verifier::external_body]
pub ghost struct MKey { _opaque: u8 }
pub uninterp spec fn mkey(offset: RSV) -> MKey;
/// width of a store (src/vm/state/memory.rs MemStoreSize; MSTORE = Word, MSTORE8 = Byte)
pub ghost enum MemWidth { Byte, Word }
/// A-CALLEE (opaque stand-in for `Memory`)
#[verifier::external_body]
pub struct Memory { _opaque: u8 }
/// `r` is what `Memory::load_slice(offset, size, ip)` answers in memory `before` (uninterpreted RELATION: nothing is assumed
/// about it, not even determinism; it only ties the answer to WHICH operands were handed over in WHICH role)
pub uninterp spec fn slice_read(r: RSV, before: Memory, after: Memory, offset: RSV, size: RSV, ip: u32) -> bool;
/// memory `after` is memory `before` with the return data of a message call written for `ret_size` bytes at `ret_offset` by
/// `store_return_data` at instruction `ip` (uninterpreted RELATION: it only ties the effect to WHICH operands were handed over
/// in WHICH role; the loop that does it is under contract in unit watchdog)
pub uninterp spec fn return_data_stored(before: Memory, after: Memory, ret_size: RSV, ret_offset: RSV, ip: u32) -> bool;
/// `w` is a literal whose value is 0 (what an unwritten memory word reads as)
pub open spec fn is_zero_literal(w: RSV) -> bool { w.dt() matches RSVD::KnownData { value } && kw_nat(value) == 0 }
impl Memory {
    /// THE ABSTRACT VIEW (unit memory: `hist`): the stores made under a key on this path, oldest first
    pub uninterp spec fn hist(&self, k: MKey) -> Seq<(RuntimeBoxedVal, MemWidth)>;
    /// representation invariant of the real type (unit memory: established by `new`, kept by every method)
    pub uninterp spec fn wf(&self) -> bool;
    // A-CALLEE: Memory::store — unit memory: C07.mem.store.appends_a_word_store_to_the_history_of_its_offset,
    // .other_histories_unchanged, C01.mem.store.keeps_every_history_on_file_non_empty
    #[verifier::external_body]
    pub fn store(&mut self, offset: RuntimeBoxedVal, value: RuntimeBoxedVal)
        requires old(self).wf(),
        ensures
            final(self).wf(),
            final(self).hist(mkey(*offset)) == old(self).hist(mkey(*offset)).push((value, MemWidth::Word)),
            forall|o: MKey| o != mkey(*offset) ==> #[trigger] final(self).hist(o) == old(self).hist(o),
    { unimplemented!() }
    // A-CALLEE: Memory::store_8 — unit memory: C07.mem.store_8.appends_a_byte_store_to_the_history_of_its_offset, ...
    #[verifier::external_body]
    pub fn store_8(&mut self, offset: RuntimeBoxedVal, value: RuntimeBoxedVal)
        requires old(self).wf(),
        ensures
            final(self).wf(),
            final(self).hist(mkey(*offset)) == old(self).hist(mkey(*offset)).push((value, MemWidth::Byte)),
            forall|o: MKey| o != mkey(*offset) ==> #[trigger] final(self).hist(o) == old(self).hist(o),
    { unimplemented!() }
    // A-CALLEE: Memory::load — unit memory: C07.mem.load.returns_the_last_store, .unwritten_offset_reads_zero_and_files_it,
    // .other_histories_unchanged.  The value returned is the stored one (or the zero word built with NO size limit): no C18 claim.
    #[verifier::external_body]
    pub fn load(&mut self, offset: &RuntimeBoxedVal) -> (r: RuntimeBoxedVal)
        requires old(self).wf(),
        ensures
            final(self).wf(),
            old(self).hist(mkey(**offset)).len() > 0 ==> final(self).hist(mkey(**offset)) == old(self).hist(mkey(**offset))
                && r == old(self).hist(mkey(**offset)).last().0,
            old(self).hist(mkey(**offset)).len() == 0 ==> final(self).hist(mkey(**offset)) == seq![(r, MemWidth::Word)]
                && is_zero_literal(*r),
            forall|o: MKey| o != mkey(**offset) ==> #[trigger] final(self).hist(o) == old(self).hist(o),
    { unimplemented!() }
    // A-CALLEE: Memory::load_slice — total (panic-freedom: unit arith_sites); it may file zero words for the unwritten
    // offsets it reads (get_or_initialize) and keeps the representation invariant; WHAT it answers is the uninterpreted
    // relation slice_read of (memory before and after, offset, size, ip).  Built with RSV::new(.., None): D18, no C18 claim.
    #[verifier::external_body]
    pub fn load_slice(&mut self, offset: &RuntimeBoxedVal, size: &RuntimeBoxedVal, instruction_pointer: u32) -> (r: RuntimeBoxedVal)
        requires old(self).wf(),
        ensures
            final(self).wf(),
            slice_read(*r, *old(self), *final(self), **offset, **size, instruction_pointer),
    { unimplemented!() }
}

//@extract file=src/vm/mod.rs path="struct Config" kind=type
//@end

// ---- abstract VM ---------------------------------------------------------------------------------------
/// A-CALLEE (opaque stand-in for the rest of `VMState`: fork point, the config copy, the visited-instruction counters)
#[verifier::external_body]
pub struct StateRest { _opaque: u8 }
/// A-CALLEE (type stand-in for `VMState`, src/vm/state/mod.rs): real field names where these opcodes reach them
pub struct VMState {
    pub stack: Stack,
    pub memory: Memory,
    pub storage: Storage,
    pub recorded_values: Vec<RuntimeBoxedVal>,
    pub logged_values: Vec<RuntimeBoxedVal>,
    pub rest: StateRest,
}
//@extract file=src/vm/state/mod.rs path="impl VMState" kind=header
//@end
//@extract file=src/vm/state/mod.rs path="impl VMState|fn memory_mut"
//@ret r
//@spec
        ensures *r == old(self).memory, final(self).memory == *final(r),
            final(self).stack == old(self).stack, final(self).storage == old(self).storage, final(self).recorded_values == old(self).recorded_values,
            final(self).logged_values == old(self).logged_values, final(self).rest == old(self).rest,
//@end
//@extract file=src/vm/state/mod.rs path="impl VMState|fn storage_mut"
//@ret r
//@spec
        ensures *r == old(self).storage, final(self).storage == *final(r),
            final(self).stack == old(self).stack, final(self).memory == old(self).memory, final(self).recorded_values == old(self).recorded_values,
            final(self).logged_values == old(self).logged_values, final(self).rest == old(self).rest,
//@end
//@extract file=src/vm/state/mod.rs path="impl VMState|fn record_value"
//@spec
        ensures final(self).recorded_values@ == old(self).recorded_values@.push(value),
            final(self).stack == old(self).stack, final(self).memory == old(self).memory, final(self).storage == old(self).storage,
            final(self).logged_values == old(self).logged_values, final(self).rest == old(self).rest,
//@end
//@extract file=src/vm/state/mod.rs path="impl VMState|fn log_value"
//@spec
        ensures final(self).logged_values@ == old(self).logged_values@.push(value),
            final(self).stack == old(self).stack, final(self).memory == old(self).memory, final(self).storage == old(self).storage,
            final(self).recorded_values == old(self).recorded_values, final(self).rest == old(self).rest,
//@end
}
/// A-CALLEE (opaque stand-in for the rest of `VMThread`: the execution thread's shared code, the gas used)
#[verifier::external_body]
pub struct ThreadRest { _opaque: u8 }
/// A-CALLEE (type stand-in for the front of `VM::thread_queue`): the current thread's instruction pointer
/// (`VMThread.thread: ExecutionThread`), its state and the rest
pub struct CurrentThread {
    pub instruction_pointer: u32,
    pub state: VMState,
    pub rest: ThreadRest,
}
/// A-CALLEE (type stand-in for `InstructionStream`, src/disassembly/mod.rs): reduced to its length.  One entry per code
/// byte (push data occupy Nop entries: unit disassemble, C10), never more than u32::MAX (TryFrom refuses: BytecodeTooLarge).
pub struct InstructionStream { pub length: u32 }
impl InstructionStream {
    // A-CALLEE: InstructionStream::len = `self.instructions.len()`
    pub fn len(&self) -> (r: usize) ensures r == self.length as usize { self.length as usize }
}
/// A-CALLEE (opaque stand-in for the rest of `VM`: the waiting threads of the queue, jump targets, stored states, the error
/// log)
#[verifier::external_body]
pub struct VMRest { _opaque: u8 }
/// A-CALLEE (type stand-in for `VM`, src/vm/mod.rs): what these opcodes reach.  `thread_queue: VecDeque<VMThread>` is
/// reduced to its front (`current`; the rest of the queue is in `rest`).
pub struct VM {
    pub instructions: InstructionStream,
    pub current: Option<CurrentThread>,
    pub builder: ValueBuilder,
    pub config: Config,
    pub watchdog: DynWatchdog,
    pub current_thread_killed: bool,
    pub rest: VMRest,
}
impl VM {
    pub open spec fn has_thread(&self) -> bool { self.current is Some }
    /// the location `NoSuchThread` errors carry: the end of the code (VM::instructions_len)
    pub open spec fn instructions_len(&self) -> u32 { self.instructions.length }
    /// instruction pointer of the current thread
    pub open spec fn ip(&self) -> u32 { self.current->Some_0.instruction_pointer }
    /// the current thread's state and its parts
    pub open spec fn st(&self) -> VMState { self.current->Some_0.state }
    /// the current thread's stack, bottom first, top last
    pub open spec fn stack(&self) -> Seq<RuntimeBoxedVal> { self.st().stack@ }
    pub open spec fn memory(&self) -> Memory { self.st().memory }
    pub open spec fn storage(&self) -> Storage { self.st().storage }
    pub open spec fn recorded(&self) -> Seq<RuntimeBoxedVal> { self.st().recorded_values@ }
    pub open spec fn logged(&self) -> Seq<RuntimeBoxedVal> { self.st().logged_values@ }
    /// everything but the current thread's state: the code, the builder, the configuration, the kill flag, the rest of the VM (queue, jump
    /// targets, stored states, error log), whether there is a thread, its pointer and its rest (gas)
    pub open spec fn same_but_state(&self, o: &VM) -> bool {
        &&& self.has_thread() == o.has_thread()
        &&& self.instructions == o.instructions
        &&& self.builder == o.builder
        &&& self.config == o.config
        &&& self.watchdog == o.watchdog
        &&& self.current_thread_killed == o.current_thread_killed
        &&& self.rest == o.rest
        &&& self.has_thread() ==> self.ip() == o.ip() && self.current->Some_0.rest == o.current->Some_0.rest
    }
    /// FRAME of an instruction: everything but the current thread's stack and the named parts of its state
    pub open spec fn frame(&self, o: &VM, memory: bool, storage: bool, recorded: bool, logged: bool) -> bool {
        &&& self.same_but_state(o)
        &&& self.has_thread() ==> {
            &&& self.st().rest == o.st().rest
            &&& (!memory ==> self.memory() == o.memory())
            &&& (!storage ==> self.storage() == o.storage())
            &&& (!recorded ==> self.st().recorded_values == o.st().recorded_values)
            &&& (!logged ==> self.st().logged_values == o.st().logged_values)
        }
    }
    /// everything but the current thread's stack
    pub open spec fn same_but_stack(&self, o: &VM) -> bool { self.frame(o, false, false, false, false) }
    // A-CALLEE: VM::instruction_pointer = `current_thread_mut().map(|thread| thread.instructions_mut().instruction_pointer())`,
    // current_thread_mut = `thread_queue.front_mut().ok_or(NoSuchThread.locate(instructions_len()))`  (src/vm/mod.rs; same
    // contract as units control / alu_ops)
    #[verifier::external_body]
    pub fn instruction_pointer(&mut self) -> (r: Result<u32>)
        ensures
            *final(self) == *old(self),
            old(self).has_thread() ==> r == Ok::<u32, LocatedError>(old(self).ip()),
            !old(self).has_thread() ==> r == Err::<u32, LocatedError>(LocatedError { location: old(self).instructions_len(), payload: Error::NoSuchThread }),
    { unimplemented!() }
    // A-CALLEE: VM::stack_handle = `let ip = self.instruction_pointer()?; current_thread_mut().map(|thread|
    // thread.state_mut().stack_mut().new_located(ip))` (src/vm/mod.rs; same contract as units stack / control / alu_ops).
    // `wf`: every Stack of a VMState was made by Stack::new and changed only through Stack's own methods, which keep it
    // (C07.stack.*.wf).
    #[verifier::external_body]
    pub fn stack_handle(&mut self) -> (r: Result<LocatedStackHandle<'_>>)
        ensures
            old(self).has_thread() ==> r is Ok,
            r is Ok ==> old(self).has_thread() && r->Ok_0.ip() == old(self).ip() && r->Ok_0.cur() == old(self).stack() && r->Ok_0.wf()
                && final(self).same_but_stack(old(self)) && final(self).stack() == r->Ok_0.fin(),
            r is Err ==> !old(self).has_thread() && *final(self) == *old(self) && r->Err_0 == (LocatedError { location: old(self).instructions_len(), payload: Error::NoSuchThread }),
    { unimplemented!() }
    // A-CALLEE: VM::state = `current_thread_mut().map(VMThread::state_mut)` (src/vm/mod.rs; same contract as units control /
    // watchdog).  `wf`: every Storage / Memory of a VMState was made by Storage::new / Memory::new and changed only through
    // their own methods, which keep their representation invariant (units storage / memory: *.wf); the fields are private.
    #[verifier::external_body]
    pub fn state(&mut self) -> (r: Result<&mut VMState>)
        ensures
            old(self).has_thread() ==> r is Ok,
            r is Ok ==> old(self).has_thread() && *r->Ok_0 == old(self).st() && final(self).has_thread() && final(self).st() == *final(r->Ok_0)
                && final(self).same_but_state(old(self)) && r->Ok_0.storage.wf() && r->Ok_0.memory.wf(),
            r is Err ==> !old(self).has_thread() && *final(self) == *old(self) && r->Err_0 == (LocatedError { location: old(self).instructions_len(), payload: Error::NoSuchThread }),
    { unimplemented!() }
}
//@extract file=src/vm/mod.rs path="impl VM" kind=header
//@end
//@extract file=src/vm/mod.rs path="impl VM|fn build"
//@ret r
//@spec
        ensures *r == self.builder,
//@end
//@extract file=src/vm/mod.rs path="impl VM|fn instructions"
//@ret r
//@spec
        ensures *r == self.instructions,
//@end
//@extract file=src/vm/mod.rs path="impl VM|fn config"
//@ret r
//@spec
        ensures *r == self.config,
//@end
//@extract file=src/vm/mod.rs path="impl VM|fn watchdog"
//@ret r
//@spec
        ensures *r == self.watchdog,
//@end
}
} // verus!
}

// ======================================================================================================
// The EVM side of the contracts, written from the EVM definition (not from the code): operands are counted
// from the top of the stack, 1-based (operand k = mu_s[k-1]); an instruction with `pops` operands and `pushes`
// results (0 or 1) replaces the former by the latter.
// ======================================================================================================
pub mod evm {
use vstd::prelude::*;
use super::*;
use super::execution::{Error, LocatedError};
use super::vm::{exec_built, is_zero_literal, item, known_built, loaded, mkey, return_data_stored, skey, slice_read, ExecuteResult, MKey, MemWidth, Memory, SKey, Storage, ValueBuilder, VM};
verus! {
/// the instruction is defined: there is a current thread with `n` operands on its stack
pub open spec fn ready(vm: &VM, n: int) -> bool { vm.has_thread() && vm.stack().len() >= n }
/// the instruction's k-th operand: the k-th item from the top (mu_s[k-1]); operand 1 is the top of the stack
pub open spec fn operand(vm: &VM, k: int) -> RuntimeBoxedVal { item(vm.stack(), k) }
/// the instruction's result: the new top of the stack
pub open spec fn result(vm: &VM) -> RSV { *vm.stack().last() }
/// `new` is `old` with its `pops` top items removed and `pushes` items put on top; everything below is unchanged
pub open spec fn replaces_top<T>(new: Seq<T>, old: Seq<T>, pops: int, pushes: int) -> bool {
    new.len() == old.len() - pops + pushes && new.subrange(0, old.len() - pops) =~= old.subrange(0, old.len() - pops)
}
/// the outcome is the stopped-by-watchdog error (only the CALL family can meet it: the return-data copy polls)
pub open spec fn stopped(r: ExecuteResult) -> bool { r is Err && r->Err_0.payload is StoppedByWatchdog }
/// STACK EFFECT of an instruction with `pops` operands and `pushes` results: Ok whenever the operands are there and the
/// result fits (`may_stop`: or the watchdog stopped it), and on Ok exactly `pops` items are gone from the top, exactly
/// `pushes` are new on top, the rest of the stack is unchanged
pub open spec fn stack_effect(before: &VM, after: &VM, r: ExecuteResult, pops: int, pushes: int, may_stop: bool) -> bool {
    &&& ready(before, pops) && before.stack().len() - pops + pushes <= 1024 ==> r is Ok || (may_stop && stopped(r))
    &&& r is Ok ==> ready(before, pops) && after.has_thread() && replaces_top(after.stack(), before.stack(), pops, pushes)
}
/// KNOWN CLASS partial_pop_on_underflow: an instruction of arity >= 2 met 0 < k < arity items and consumed them
pub open spec fn known_partial_pop(before: &VM, after: &VM, pops: int) -> bool {
    pops >= 2 && 0 < before.stack().len() < pops && after.stack().len() == 0
}
/// ERRORS: too few operands: Err(NoSuchStackFrame) located at the current instruction, the stack unchanged (or the known
/// class); no room for the result: Err(StackDepthExceeded) located at the current instruction, the stack unchanged; no
/// thread: Err(NoSuchThread) located at the end of the code, nothing changes.
pub open spec fn stack_errors(before: &VM, after: &VM, r: ExecuteResult, pops: int, pushes: int) -> bool {
    &&& before.has_thread() && before.stack().len() < pops ==> r is Err && r->Err_0.location == before.ip()
            && r->Err_0.payload is NoSuchStackFrame && after.has_thread() && (after.stack() == before.stack() || known_partial_pop(before, after, pops))
    &&& ready(before, pops) && before.stack().len() - pops + pushes > 1024 ==> r is Err && r->Err_0.location == before.ip()
            && r->Err_0.payload is StackDepthExceeded && after.has_thread() && after.stack() == before.stack()
    &&& !before.has_thread() ==> r == Err::<(), LocatedError>(LocatedError { location: before.instructions_len(), payload: Error::NoSuchThread })
            && *after == *before
}
/// the code IS in the known class: with 0 < k < arity items the stack is left empty
pub open spec fn partial_pop_exact(before: &VM, after: &VM, pops: int) -> bool {
    before.has_thread() && 0 < before.stack().len() < pops ==> after.has_thread() && after.stack().len() == 0
}
/// the result is the node `symbolic_exec(ip, data)` builds: at the current instruction, provenance Execution, payload `data`
/// (or culled to an opaque Value by the configured size limit: C18)
pub open spec fn pushed_exec(before: &VM, after: &VM, data: RSVD) -> bool {
    exec_built(result(after), before.builder, before.ip(), data)
}
/// `r` is the constant `n` made by the builder at `ip` with provenance `prov` (or culled)
pub open spec fn is_const(r: RSV, ip: u32, prov: Provenance, n: nat) -> bool {
    r.ip() == ip && r.prov() == prov
        && (r.dt() is Value || (r.dt() matches RSVD::KnownData { value } && kw_nat(value) == n))
}
/// `r` is a one-node leaf `Value` at `ip` with provenance `prov` (CALLDATASIZE / RETURNDATASIZE / MSIZE)
pub open spec fn is_leaf(r: RSV, ip: u32, prov: Provenance) -> bool { r.ip() == ip && r.prov() == prov && r.dt() is Value }
/// the result as it sits on the stack (the Arc)
pub open spec fn result_box(vm: &VM) -> RuntimeBoxedVal { vm.stack().last() }
/// CALLDATALOAD: the result is the 32-byte call-data word at `offset`: CallData { offset, size: the constant 32 } built through
/// the builder (the node's `id` is a fresh random identity)
pub open spec fn pushed_call_data_word(before: &VM, after: &VM, offset: RuntimeBoxedVal) -> bool {
    exists|data: RSVD| #[trigger] exec_built(result(after), before.builder, before.ip(), data)
        && (data matches RSVD::CallData { id, offset: o, size: s } && o == offset && is_const(*s, before.ip(), Provenance::Synthetic, 32))
}
/// MLOAD(offset): the word read is the data of the LAST store under the offset's key; a key never written on this path reads
/// the zero word, which is filed as its first generation; no other history changes
pub open spec fn mload_reads(before: Memory, after: Memory, offset: RSV, r: RuntimeBoxedVal) -> bool {
    &&& before.hist(mkey(offset)).len() > 0 ==> after.hist(mkey(offset)) == before.hist(mkey(offset)) && r == before.hist(mkey(offset)).last().0
    &&& before.hist(mkey(offset)).len() == 0 ==> after.hist(mkey(offset)) == seq![(r, MemWidth::Word)] && is_zero_literal(*r)
    &&& forall|o: MKey| o != mkey(offset) ==> #[trigger] after.hist(o) == before.hist(o)
}
/// MSTORE / MSTORE8 (offset, value): one store of that width is appended to the history of exactly the offset's key
pub open spec fn mstore_writes(before: Memory, after: Memory, offset: RSV, value: RuntimeBoxedVal, width: MemWidth) -> bool {
    &&& after.hist(mkey(offset)) == before.hist(mkey(offset)).push((value, width))
    &&& forall|o: MKey| o != mkey(offset) ==> #[trigger] after.hist(o) == before.hist(o)
}
/// SLOAD(key): what is pushed wraps the LAST generation under the key; a key never touched on this path gets the
/// unwritten-slot placeholder as its first generation; no other history changes, none is shortened
pub open spec fn sload_reads(before: Storage, after: Storage, key: RuntimeBoxedVal, r: RSV) -> bool {
    &&& before.hist(skey(*key)).len() > 0 ==> after.hist(skey(*key)) == before.hist(skey(*key)) && r.dt() == loaded(key, before.hist(skey(*key)).last())
    &&& before.hist(skey(*key)).len() == 0 ==> after.hist(skey(*key)).len() == 1
            && after.hist(skey(*key))[0].dt() == (RSVD::UnwrittenStorageValue { key }) && r.dt() == loaded(key, after.hist(skey(*key))[0])
    &&& forall|o: SKey| o != skey(*key) ==> #[trigger] after.hist(o) == before.hist(o)
}
/// SSTORE(key, value): the value is appended to the history of exactly that key
pub open spec fn sstore_writes(before: Storage, after: Storage, key: RSV, value: RuntimeBoxedVal) -> bool {
    &&& after.hist(skey(key)) == before.hist(skey(key)).push(value)
    &&& forall|o: SKey| o != skey(key) ==> #[trigger] after.hist(o) == before.hist(o)
}
/// SHA3 / CREATE / CREATE2 / LOG / CALL read their byte-string operand mem[offset .. offset + size] through
/// Memory::load_slice: `slice_read(data, memory before, memory after, offset, size, ip)`.
/// SHA3(offset, size): Sha3 { data: mem[offset .. offset + size] }
pub open spec fn pushed_sha3(before: &VM, after: &VM, offset: RuntimeBoxedVal, size: RuntimeBoxedVal) -> bool {
    exists|data: RuntimeBoxedVal| #[trigger] slice_read(*data, before.memory(), after.memory(), *offset, *size, before.ip())
        && pushed_exec(before, after, RSVD::Sha3 { data })
}
/// CREATE(value, offset, size): Create { value, data: mem[offset .. offset + size] }
pub open spec fn pushed_create(before: &VM, after: &VM, value: RuntimeBoxedVal, offset: RuntimeBoxedVal, size: RuntimeBoxedVal) -> bool {
    exists|data: RuntimeBoxedVal| #[trigger] slice_read(*data, before.memory(), after.memory(), *offset, *size, before.ip())
        && pushed_exec(before, after, RSVD::Create { value, data })
}
/// CREATE2(value, offset, size, salt): Create2 { value, salt, data: mem[offset .. offset + size] }
pub open spec fn pushed_create2(before: &VM, after: &VM, value: RuntimeBoxedVal, offset: RuntimeBoxedVal, size: RuntimeBoxedVal, salt: RuntimeBoxedVal) -> bool {
    exists|data: RuntimeBoxedVal| #[trigger] slice_read(*data, before.memory(), after.memory(), *offset, *size, before.ip())
        && pushed_exec(before, after, RSVD::Create2 { value, salt, data })
}
/// CALL / CALLCODE (gas, address, value, argsOffset, argsSize, retOffset, retSize): the seven operands in that order; the
/// argument bytes mem[argsOffset .. + argsSize] are read (memory `mid` then), the return data are written for retSize bytes at
/// retOffset
pub open spec fn pushed_call_with_value(before: &VM, after: &VM, gas: RuntimeBoxedVal, address: RuntimeBoxedVal, value: RuntimeBoxedVal,
        args_offset: RuntimeBoxedVal, args_size: RuntimeBoxedVal, ret_offset: RuntimeBoxedVal, ret_size: RuntimeBoxedVal) -> bool {
    exists|argument_data: RuntimeBoxedVal, mid: Memory| #[trigger] slice_read(*argument_data, before.memory(), mid, *args_offset, *args_size, before.ip())
        && return_data_stored(mid, after.memory(), *ret_size, *ret_offset, before.ip())
        && pushed_exec(before, after, RSVD::CallWithValue { gas, address, value, argument_data, ret_offset, ret_size })
}
/// DELEGATECALL / STATICCALL (gas, address, argsOffset, argsSize, retOffset, retSize): the six operands in that order
pub open spec fn pushed_call_without_value(before: &VM, after: &VM, gas: RuntimeBoxedVal, address: RuntimeBoxedVal,
        args_offset: RuntimeBoxedVal, args_size: RuntimeBoxedVal, ret_offset: RuntimeBoxedVal, ret_size: RuntimeBoxedVal) -> bool {
    exists|argument_data: RuntimeBoxedVal, mid: Memory| #[trigger] slice_read(*argument_data, before.memory(), mid, *args_offset, *args_size, before.ip())
        && return_data_stored(mid, after.memory(), *ret_size, *ret_offset, before.ip())
        && pushed_exec(before, after, RSVD::CallWithoutValue { gas, address, argument_data, ret_offset, ret_size })
}
/// LOGn(offset, size, topic_0 .. topic_{n-1}): one record Log { data: mem[offset .. offset + size], topics } is appended to the
/// thread's logged values; topic i is operand 3 + i, in that order
pub open spec fn logged_record(before: &VM, after: &VM, n: int) -> bool {
    exists|record: RuntimeBoxedVal, data: RuntimeBoxedVal, topics: Vec<RuntimeBoxedVal>|
        #[trigger] exec_built(*record, before.builder, before.ip(), RSVD::Log { data, topics })
        && after.logged() == before.logged().push(record)
        && slice_read(*data, before.memory(), after.memory(), *operand(before, 1), *operand(before, 2), before.ip())
        && topics@.len() == n && (forall|i: int| 0 <= i < n ==> #[trigger] topics@[i] == operand(before, 3 + i))
}
/// the size operand of a bulk copy is not a constant after folding: the copy is ONE symbolic store
pub open spec fn symbolic_size(size: RuntimeBoxedVal) -> bool { !(fold(*size).dt() is KnownData) }
/// CALLDATACOPY(destOffset, offset, size) with a symbolic size: mem[destOffset] := CallData { offset, size } (both folded),
/// built through the builder, as one word-sized store under destOffset's key
pub open spec fn stored_call_data(before: &VM, after: &VM, dest: RuntimeBoxedVal, offset: RuntimeBoxedVal, size: RuntimeBoxedVal) -> bool {
    exists|v: RuntimeBoxedVal, data: RSVD| #[trigger] exec_built(*v, before.builder, before.ip(), data)
        && (data matches RSVD::CallData { id, offset: o, size: s } && *o == fold(*offset) && *s == fold(*size))
        && mstore_writes(before.memory(), after.memory(), *dest, v, MemWidth::Word)
}
/// CODECOPY(destOffset, offset, size) with a symbolic size: mem[destOffset] := CodeCopy { offset, size }
pub open spec fn stored_code_copy(before: &VM, after: &VM, dest: RuntimeBoxedVal, offset: RuntimeBoxedVal, size: RuntimeBoxedVal) -> bool {
    exists|v: RuntimeBoxedVal, o: RuntimeBoxedVal, s: RuntimeBoxedVal| #[trigger] exec_built(*v, before.builder, before.ip(), RSVD::CodeCopy { offset: o, size: s })
        && *o == fold(*offset) && *s == fold(*size)
        && mstore_writes(before.memory(), after.memory(), *dest, v, MemWidth::Word)
}
/// RETURNDATACOPY(destOffset, offset, size) with a symbolic size: mem[destOffset] := ReturnData { offset, size }
pub open spec fn stored_return_data(before: &VM, after: &VM, dest: RuntimeBoxedVal, offset: RuntimeBoxedVal, size: RuntimeBoxedVal) -> bool {
    exists|v: RuntimeBoxedVal, o: RuntimeBoxedVal, s: RuntimeBoxedVal| #[trigger] exec_built(*v, before.builder, before.ip(), RSVD::ReturnData { offset: o, size: s })
        && *o == fold(*offset) && *s == fold(*size)
        && mstore_writes(before.memory(), after.memory(), *dest, v, MemWidth::Word)
}
/// EXTCODECOPY(address, destOffset, offset, size) with a symbolic size: mem[destOffset] := ExtCodeCopy { address, offset, size }
pub open spec fn stored_ext_code_copy(before: &VM, after: &VM, address: RuntimeBoxedVal, dest: RuntimeBoxedVal, offset: RuntimeBoxedVal, size: RuntimeBoxedVal) -> bool {
    exists|v: RuntimeBoxedVal, o: RuntimeBoxedVal, s: RuntimeBoxedVal| #[trigger] exec_built(*v, before.builder, before.ip(), RSVD::ExtCodeCopy { address, offset: o, size: s })
        && *o == fold(*offset) && *s == fold(*size)
        && mstore_writes(before.memory(), after.memory(), *dest, v, MemWidth::Word)
}
/// a stopped message call (the watchdog said stop while the return data were copied): located at the instruction
pub open spec fn stop_is_located(before: &VM, r: ExecuteResult) -> bool {
    before.has_thread() && stopped(r) ==> r->Err_0.location == before.ip()
}
} // verus!
}

pub mod environment {
use vstd::prelude::*;
use super::evm::*;
use super::vm::{exec_built, slice_read, ExecuteResult, Opcode, VM};
use super::{KnownWord, Provenance, RuntimeBoxedVal, RSV, RSVD};
verus! {
broadcast use super::vm::lemma_handle_resolved;
//@include env_ops/ops_environment.rs

// SHA3 (KECCAK256): 2 -> 1, offset = mu_s[0], size = mu_s[1]
//@extract file=src/opcode/environment.rs path="struct Sha3" kind=type
//@end
//@extract file=src/opcode/environment.rs path="impl Opcode for Sha3" kind=header
//@end
//@extract file=src/opcode/environment.rs path="impl Opcode for Sha3|fn execute"
//@ret r
//@spec
        ensures
            r is Ok ==> pushed_sha3(old(vm), final(vm), operand(old(vm), 1), operand(old(vm), 2)),      //@ob C07.env.Sha3.operands_in_evm_roles C18.env.Sha3.built_through_the_value_builder
            stack_effect(old(vm), final(vm), r, 2, 1, false),      //@ob C07.env.Sha3.stack_effect C05.env.Sha3.stack_effect_is_evm_arity
            stack_errors(old(vm), final(vm), r, 2, 1),      //@ob C07.env.Sha3.underflow_or_overflow_is_error_at_ip C17.env.Sha3.error_located_at_ip
            partial_pop_exact(old(vm), final(vm), 2),      //@ob C07.env.Sha3.known_partial_pop.exact
            final(vm).frame(old(vm), true, false, false, false),      //@ob C07.env.Sha3.nothing_else_moves
//@end
}

// LOGn: (2 + n) -> 0, offset = mu_s[0], size = mu_s[1], topic i = mu_s[2 + i]; the record goes to the thread's log
//@extract file=src/opcode/environment.rs path="struct LogN" kind=type
//@end
impl LogN {
    /// the number of topics n of LOGn (LogN::new admits 0..=4: unit disassemble)
    pub closed spec fn topics(&self) -> int { self.topic_count as int }
}
//@extract file=src/opcode/environment.rs path="impl LogN" kind=header
//@end
//@extract file=src/opcode/environment.rs path="impl LogN|fn n"
//@ret r
//@spec
        ensures r as int == self.topics(),      //@ob C07.env.LogN.n_is_the_topic_count
//@end
}
//@extract file=src/opcode/environment.rs path="impl Opcode for LogN" kind=header
//@end
// (loop_isolation(false): the loop body may use what is known before the loop — the VM after the stack handle's borrow, the
// two operands popped so far — without re-stating all of it in the invariant)
#[verifier::loop_isolation(false)]
//@extract file=src/opcode/environment.rs path="impl Opcode for LogN|fn execute"
//@ret r
// R-SIG: Verus names the ghost iterator of a `for` loop in its header (`for x in NAME: range`); the pattern `_` and the range
// expression ($1) are carried over verbatim
//@rw R-SIG
//@old
for _ in $1 {
//@new
for _ in topic_iter: $1 {
//@proof before "for _ in"
        // (the stack the handle's borrow will leave behind: every operation of the handle keeps it — same_handle)
        let ghost handle_fin = stack.fin();
//@loop 1 kind=for
            invariant
                stack.ip() == old(vm).ip() && stack.fin() == handle_fin,
                old(vm).has_thread() && old(vm).stack().len() >= 2 + topic_iter.index@,
                upper_bound == self.topics() + 2,      //@ob C05.env.LogN.loop.bound_is_two_plus_the_topic_count
                // the topics popped so far are operands 3, 4, .. in that order; the stack is what is left below them
                topics@.len() == topic_iter.index@,      //@ob C07.env.LogN.loop.one_topic_per_iteration
                forall|i: int| 0 <= i < topics@.len() ==> #[trigger] topics@[i] == operand(old(vm), 3 + i),      //@ob C07.env.LogN.loop.topics_in_operand_order
                stack.cur() == old(vm).stack().subrange(0, old(vm).stack().len() - 2 - topic_iter.index@),      //@ob C07.env.LogN.loop.pops_one_per_topic
//@spec
        ensures
            r is Ok ==> logged_record(old(vm), final(vm), self.topics()),      //@ob C07.env.LogN.operands_in_evm_roles C18.env.LogN.built_through_the_value_builder
            r is Err ==> old(vm).has_thread() ==> final(vm).logged() == old(vm).logged(),
            stack_effect(old(vm), final(vm), r, 2 + self.topics(), 0, false),      //@ob C07.env.LogN.stack_effect C05.env.LogN.stack_effect_is_evm_arity
            stack_errors(old(vm), final(vm), r, 2 + self.topics(), 0),      //@ob C07.env.LogN.underflow_or_overflow_is_error_at_ip C17.env.LogN.error_located_at_ip
            partial_pop_exact(old(vm), final(vm), 2 + self.topics()),      //@ob C07.env.LogN.known_partial_pop.exact
            final(vm).frame(old(vm), true, false, false, true),      //@ob C07.env.LogN.nothing_else_moves
//@end
}

// CREATE: 3 -> 1, value = mu_s[0], offset = mu_s[1], size = mu_s[2]
//@extract file=src/opcode/environment.rs path="struct Create" kind=type
//@end
//@extract file=src/opcode/environment.rs path="impl Opcode for Create" kind=header
//@end
//@extract file=src/opcode/environment.rs path="impl Opcode for Create|fn execute"
//@ret r
//@spec
        ensures
            r is Ok ==> pushed_create(old(vm), final(vm), operand(old(vm), 1), operand(old(vm), 2), operand(old(vm), 3)),      //@ob C07.env.Create.operands_in_evm_roles C18.env.Create.built_through_the_value_builder
            stack_effect(old(vm), final(vm), r, 3, 1, false),      //@ob C07.env.Create.stack_effect C05.env.Create.stack_effect_is_evm_arity
            stack_errors(old(vm), final(vm), r, 3, 1),      //@ob C07.env.Create.underflow_or_overflow_is_error_at_ip C17.env.Create.error_located_at_ip
            partial_pop_exact(old(vm), final(vm), 3),      //@ob C07.env.Create.known_partial_pop.exact
            final(vm).frame(old(vm), true, false, false, false),      //@ob C07.env.Create.nothing_else_moves
//@end
}

// CREATE2: 4 -> 1, value = mu_s[0], offset = mu_s[1], size = mu_s[2], salt = mu_s[3]
//@extract file=src/opcode/environment.rs path="struct Create2" kind=type
//@end
//@extract file=src/opcode/environment.rs path="impl Opcode for Create2" kind=header
//@end
//@extract file=src/opcode/environment.rs path="impl Opcode for Create2|fn execute"
//@ret r
//@spec
        ensures
            r is Ok ==> pushed_create2(old(vm), final(vm), operand(old(vm), 1), operand(old(vm), 2), operand(old(vm), 3), operand(old(vm), 4)),      //@ob C07.env.Create2.operands_in_evm_roles C18.env.Create2.built_through_the_value_builder
            stack_effect(old(vm), final(vm), r, 4, 1, false),      //@ob C07.env.Create2.stack_effect C05.env.Create2.stack_effect_is_evm_arity
            stack_errors(old(vm), final(vm), r, 4, 1),      //@ob C07.env.Create2.underflow_or_overflow_is_error_at_ip C17.env.Create2.error_located_at_ip
            partial_pop_exact(old(vm), final(vm), 4),      //@ob C07.env.Create2.known_partial_pop.exact
            final(vm).frame(old(vm), true, false, false, false),      //@ob C07.env.Create2.nothing_else_moves
//@end
}
} // verus!
}

pub mod memory {
use vstd::prelude::*;
use super::evm::*;
use super::vm::{exec_built, ExecuteResult, MemWidth, Opcode, VM};
use super::{kw_from_usize_denotes, KnownWord, Provenance, RuntimeBoxedVal, RSV, RSVD};
verus! {
broadcast use super::vm::lemma_handle_resolved, kw_from_usize_denotes;
//@include env_ops/ops_memory.rs

// CALLDATALOAD: 1 -> 1, offset = mu_s[0]; the result is msg.data[offset .. offset + 32]
//@extract file=src/opcode/memory.rs path="struct CallDataLoad" kind=type
//@end
//@extract file=src/opcode/memory.rs path="impl Opcode for CallDataLoad" kind=header
//@end
//@extract file=src/opcode/memory.rs path="impl Opcode for CallDataLoad|fn execute"
//@ret r
//@spec
        ensures
            r is Ok ==> pushed_call_data_word(old(vm), final(vm), operand(old(vm), 1)),      //@ob C07.env.CallDataLoad.operand_in_evm_role C18.env.CallDataLoad.built_through_the_value_builder
            stack_effect(old(vm), final(vm), r, 1, 1, false),      //@ob C07.env.CallDataLoad.stack_effect C05.env.CallDataLoad.stack_effect_is_evm_arity
            stack_errors(old(vm), final(vm), r, 1, 1),      //@ob C07.env.CallDataLoad.underflow_or_overflow_is_error_at_ip C17.env.CallDataLoad.error_located_at_ip C08.env.CallDataLoad.full_stack_ends_the_path
            final(vm).same_but_stack(old(vm)),      //@ob C07.env.CallDataLoad.nothing_else_moves
//@end
}

// CODESIZE: 0 -> 1; the result is the constant |code| (one instruction-stream entry per code byte)
//@extract file=src/opcode/memory.rs path="struct CodeSize" kind=type
//@end
//@extract file=src/opcode/memory.rs path="impl Opcode for CodeSize" kind=header
//@end
//@extract file=src/opcode/memory.rs path="impl Opcode for CodeSize|fn execute"
//@ret r
//@spec
        ensures
            r is Ok ==> is_const(result(final(vm)), old(vm).ip(), Provenance::Execution, old(vm).instructions.length as nat),      //@ob C07.env.CodeSize.pushes_the_code_length C18.env.CodeSize.built_through_the_value_builder
            stack_effect(old(vm), final(vm), r, 0, 1, false),      //@ob C07.env.CodeSize.stack_effect C05.env.CodeSize.stack_effect_is_evm_arity
            stack_errors(old(vm), final(vm), r, 0, 1),      //@ob C07.env.CodeSize.underflow_or_overflow_is_error_at_ip C17.env.CodeSize.error_located_at_ip C08.env.CodeSize.full_stack_ends_the_path
            final(vm).same_but_stack(old(vm)),      //@ob C07.env.CodeSize.nothing_else_moves
//@end
}

// POP: 1 -> 0; the item is kept among the recorded values (the tool drops nothing it has seen)
//@extract file=src/opcode/memory.rs path="struct Pop" kind=type
//@end
//@extract file=src/opcode/memory.rs path="impl Opcode for Pop" kind=header
//@end
//@extract file=src/opcode/memory.rs path="impl Opcode for Pop|fn execute"
//@ret r
//@spec
        ensures
            r is Ok ==> final(vm).recorded() == old(vm).recorded().push(operand(old(vm), 1)),      //@ob C07.env.Pop.popped_item_is_recorded
            r is Err ==> old(vm).has_thread() ==> final(vm).recorded() == old(vm).recorded(),
            stack_effect(old(vm), final(vm), r, 1, 0, false),      //@ob C07.env.Pop.stack_effect C05.env.Pop.stack_effect_is_evm_arity
            stack_errors(old(vm), final(vm), r, 1, 0),      //@ob C07.env.Pop.underflow_or_overflow_is_error_at_ip C17.env.Pop.error_located_at_ip
            final(vm).frame(old(vm), false, false, true, false),      //@ob C07.env.Pop.nothing_else_moves
//@end
}

// MLOAD: 1 -> 1, offset = mu_s[0]; reads the last store under the offset's key (unit memory's histories)
//@extract file=src/opcode/memory.rs path="struct MLoad" kind=type
//@end
//@extract file=src/opcode/memory.rs path="impl Opcode for MLoad" kind=header
//@end
//@extract file=src/opcode/memory.rs path="impl Opcode for MLoad|fn execute"
//@ret r
//@spec
        ensures
            r is Ok ==> mload_reads(old(vm).memory(), final(vm).memory(), *operand(old(vm), 1), result_box(final(vm))),      //@ob C07.env.MLoad.reads_the_last_store_at_operand_1
            r is Err ==> old(vm).has_thread() ==> final(vm).memory() == old(vm).memory(),
            stack_effect(old(vm), final(vm), r, 1, 1, false),      //@ob C07.env.MLoad.stack_effect C05.env.MLoad.stack_effect_is_evm_arity
            stack_errors(old(vm), final(vm), r, 1, 1),      //@ob C07.env.MLoad.underflow_or_overflow_is_error_at_ip C17.env.MLoad.error_located_at_ip
            final(vm).frame(old(vm), true, false, false, false),      //@ob C07.env.MLoad.nothing_else_moves
//@end
}

// MSTORE: 2 -> 0, offset = mu_s[0], value = mu_s[1]
//@extract file=src/opcode/memory.rs path="struct MStore" kind=type
//@end
//@extract file=src/opcode/memory.rs path="impl Opcode for MStore" kind=header
//@end
//@extract file=src/opcode/memory.rs path="impl Opcode for MStore|fn execute"
//@ret r
//@spec
        ensures
            r is Ok ==> mstore_writes(old(vm).memory(), final(vm).memory(), *operand(old(vm), 1), operand(old(vm), 2), MemWidth::Word),      //@ob C07.env.MStore.offset_is_operand_1_value_is_operand_2
            r is Err ==> old(vm).has_thread() ==> final(vm).memory() == old(vm).memory(),
            stack_effect(old(vm), final(vm), r, 2, 0, false),      //@ob C07.env.MStore.stack_effect C05.env.MStore.stack_effect_is_evm_arity
            stack_errors(old(vm), final(vm), r, 2, 0),      //@ob C07.env.MStore.underflow_or_overflow_is_error_at_ip C17.env.MStore.error_located_at_ip
            partial_pop_exact(old(vm), final(vm), 2),      //@ob C07.env.MStore.known_partial_pop.exact
            final(vm).frame(old(vm), true, false, false, false),      //@ob C07.env.MStore.nothing_else_moves
//@end
}

// MSTORE8: 2 -> 0, offset = mu_s[0], value = mu_s[1]; a byte-wide store
//@extract file=src/opcode/memory.rs path="struct MStore8" kind=type
//@end
//@extract file=src/opcode/memory.rs path="impl Opcode for MStore8" kind=header
//@end
//@extract file=src/opcode/memory.rs path="impl Opcode for MStore8|fn execute"
//@ret r
//@spec
        ensures
            r is Ok ==> mstore_writes(old(vm).memory(), final(vm).memory(), *operand(old(vm), 1), operand(old(vm), 2), MemWidth::Byte),      //@ob C07.env.MStore8.offset_is_operand_1_value_is_operand_2
            r is Err ==> old(vm).has_thread() ==> final(vm).memory() == old(vm).memory(),
            stack_effect(old(vm), final(vm), r, 2, 0, false),      //@ob C07.env.MStore8.stack_effect C05.env.MStore8.stack_effect_is_evm_arity
            stack_errors(old(vm), final(vm), r, 2, 0),      //@ob C07.env.MStore8.underflow_or_overflow_is_error_at_ip C17.env.MStore8.error_located_at_ip
            partial_pop_exact(old(vm), final(vm), 2),      //@ob C07.env.MStore8.known_partial_pop.exact
            final(vm).frame(old(vm), true, false, false, false),      //@ob C07.env.MStore8.nothing_else_moves
//@end
}

// SLOAD: 1 -> 1, key = mu_s[0]; pushes the last generation under the key (unit storage's histories)
//@extract file=src/opcode/memory.rs path="struct SLoad" kind=type
//@end
//@extract file=src/opcode/memory.rs path="impl Opcode for SLoad" kind=header
//@end
//@extract file=src/opcode/memory.rs path="impl Opcode for SLoad|fn execute"
//@ret r
//@spec
        ensures
            r is Ok ==> sload_reads(old(vm).storage(), final(vm).storage(), operand(old(vm), 1), result(final(vm))),      //@ob C07.env.SLoad.reads_the_last_generation_at_operand_1 C06.env.sload.leaves_a_generation_under_its_key C05.env.sload.key_is_the_operand
            r is Err ==> old(vm).has_thread() ==> final(vm).storage() == old(vm).storage(),      //@ob C05.env.sload.no_storage_access_without_the_operand
            stack_effect(old(vm), final(vm), r, 1, 1, false),      //@ob C07.env.SLoad.stack_effect C05.env.SLoad.stack_effect_is_evm_arity
            stack_errors(old(vm), final(vm), r, 1, 1),      //@ob C07.env.SLoad.underflow_or_overflow_is_error_at_ip C17.env.SLoad.error_located_at_ip
            final(vm).frame(old(vm), false, true, false, false),      //@ob C07.env.SLoad.nothing_else_moves
//@end
}

// SSTORE: 2 -> 0, key = mu_s[0], value = mu_s[1]
//@extract file=src/opcode/memory.rs path="struct SStore" kind=type
//@end
//@extract file=src/opcode/memory.rs path="impl Opcode for SStore" kind=header
//@end
//@extract file=src/opcode/memory.rs path="impl Opcode for SStore|fn execute"
//@ret r
//@spec
        ensures
            r is Ok ==> sstore_writes(old(vm).storage(), final(vm).storage(), *operand(old(vm), 1), operand(old(vm), 2)),      //@ob C07.env.SStore.key_is_operand_1_value_is_operand_2 C06.env.sstore.leaves_a_generation_under_its_key C05.env.sstore.key_is_the_operand
            r is Err ==> old(vm).has_thread() ==> final(vm).storage() == old(vm).storage(),      //@ob C05.env.sstore.no_storage_access_without_the_operands
            stack_effect(old(vm), final(vm), r, 2, 0, false),      //@ob C07.env.SStore.stack_effect C05.env.SStore.stack_effect_is_evm_arity
            stack_errors(old(vm), final(vm), r, 2, 0),      //@ob C07.env.SStore.underflow_or_overflow_is_error_at_ip C17.env.SStore.error_located_at_ip
            partial_pop_exact(old(vm), final(vm), 2),      //@ob C07.env.SStore.known_partial_pop.exact
            final(vm).frame(old(vm), false, true, false, false),      //@ob C07.env.SStore.nothing_else_moves
//@end
}
} // verus!
}

pub mod control {
use vstd::prelude::*;
use super::evm::*;
use super::execution::{Error, LocatedError};
use super::vm::{return_data_stored, ExecuteResult, Opcode, VM};
use super::{KnownWord, Provenance, RuntimeBoxedVal, RSV, RSVD};
verus! {
broadcast use super::vm::lemma_handle_resolved;
// A-CALLEE: `store_return_data(ret_size, ret_offset, vm)` (src/opcode/control.rs).  Unit watchdog has its body (the polled copy
// loop) under contract and proves: it touches memory only — the thread, its pointer and its stack are as before
// (C13.wd.store_return_data.nothing_pushed), without a thread it fails.  Read from the body and ASSUMED here (unit watchdog's
// stand-in state has no storage / recorded / logged values): those are not touched either (the body only calls
// `vm.state()?.memory_mut().store(..)`); with a current thread its only error is StoppedByWatchdog, located at the current
// instruction (`Err(Error::StoppedByWatchdog).locate(instruction_pointer)?`); WHAT is stored is the uninterpreted relation
// return_data_stored of (memory before / after, ret_size, ret_offset, ip).  The watchdog's poll counter is out of sight.
#[verifier::external_body]
fn store_return_data(ret_size: &RuntimeBoxedVal, ret_offset: &RuntimeBoxedVal, vm: &mut VM) -> (r: ExecuteResult)
    ensures
        final(vm).frame(old(vm), true, false, false, false),
        old(vm).has_thread() ==> final(vm).stack() == old(vm).stack(),
        r is Ok ==> old(vm).has_thread() && return_data_stored(old(vm).memory(), final(vm).memory(), **ret_size, **ret_offset, old(vm).ip()),
        r is Err && old(vm).has_thread() ==> stopped(r) && r->Err_0.location == old(vm).ip(),
        !old(vm).has_thread() ==> *final(vm) == *old(vm) && r == Err::<(), LocatedError>(LocatedError { location: old(vm).instructions_len(), payload: Error::NoSuchThread }),
{ unimplemented!() }

// PC: 0 -> 1; the result is the constant offset of this instruction
//@extract file=src/opcode/control.rs path="struct PC" kind=type
//@end
//@extract file=src/opcode/control.rs path="impl Opcode for PC" kind=header
//@end
//@extract file=src/opcode/control.rs path="impl Opcode for PC|fn execute"
//@ret r
//@spec
        ensures
            r is Ok ==> is_const(result(final(vm)), old(vm).ip(), Provenance::ProgramCounter, old(vm).ip() as nat),      //@ob C07.env.PC.pushes_the_offset_of_this_instruction C18.env.PC.built_through_the_value_builder
            stack_effect(old(vm), final(vm), r, 0, 1, false),      //@ob C07.env.PC.stack_effect C05.env.PC.stack_effect_is_evm_arity
            stack_errors(old(vm), final(vm), r, 0, 1),      //@ob C07.env.PC.underflow_or_overflow_is_error_at_ip C17.env.PC.error_located_at_ip C08.env.PC.full_stack_ends_the_path
            final(vm).same_but_stack(old(vm)),      //@ob C07.env.PC.nothing_else_moves
//@end
}

// CALL: 7 -> 1; gas, address, value, argsOffset, argsSize, retOffset, retSize = mu_s[0..6]
//@extract file=src/opcode/control.rs path="struct Call" kind=type
//@end
//@extract file=src/opcode/control.rs path="impl Opcode for Call" kind=header
//@end
//@extract file=src/opcode/control.rs path="impl Opcode for Call|fn execute"
//@ret r
//@spec
        ensures
            r is Ok ==> pushed_call_with_value(old(vm), final(vm), operand(old(vm), 1), operand(old(vm), 2), operand(old(vm), 3), operand(old(vm), 4),
                operand(old(vm), 5), operand(old(vm), 6), operand(old(vm), 7)),      //@ob C07.env.Call.operands_in_evm_roles C18.env.Call.built_through_the_value_builder
            stack_effect(old(vm), final(vm), r, 7, 1, true),      //@ob C07.env.Call.stack_effect C05.env.Call.stack_effect_is_evm_arity
            stack_errors(old(vm), final(vm), r, 7, 1),      //@ob C07.env.Call.underflow_or_overflow_is_error_at_ip C17.env.Call.error_located_at_ip
            stop_is_located(old(vm), r),      //@ob C17.env.Call.stop_located_at_ip
            partial_pop_exact(old(vm), final(vm), 7),      //@ob C07.env.Call.known_partial_pop.exact
            final(vm).frame(old(vm), true, false, false, false),      //@ob C07.env.Call.nothing_else_moves
//@end
}

// CALLCODE: 7 -> 1; the same seven operands as CALL
//@extract file=src/opcode/control.rs path="struct CallCode" kind=type
//@end
//@extract file=src/opcode/control.rs path="impl Opcode for CallCode" kind=header
//@end
//@extract file=src/opcode/control.rs path="impl Opcode for CallCode|fn execute"
//@ret r
//@spec
        ensures
            r is Ok ==> pushed_call_with_value(old(vm), final(vm), operand(old(vm), 1), operand(old(vm), 2), operand(old(vm), 3), operand(old(vm), 4),
                operand(old(vm), 5), operand(old(vm), 6), operand(old(vm), 7)),      //@ob C07.env.CallCode.operands_in_evm_roles C18.env.CallCode.built_through_the_value_builder
            stack_effect(old(vm), final(vm), r, 7, 1, true),      //@ob C07.env.CallCode.stack_effect C05.env.CallCode.stack_effect_is_evm_arity
            stack_errors(old(vm), final(vm), r, 7, 1),      //@ob C07.env.CallCode.underflow_or_overflow_is_error_at_ip C17.env.CallCode.error_located_at_ip
            stop_is_located(old(vm), r),      //@ob C17.env.CallCode.stop_located_at_ip
            partial_pop_exact(old(vm), final(vm), 7),      //@ob C07.env.CallCode.known_partial_pop.exact
            final(vm).frame(old(vm), true, false, false, false),      //@ob C07.env.CallCode.nothing_else_moves
//@end
}

// DELEGATECALL: 6 -> 1; gas, address, argsOffset, argsSize, retOffset, retSize = mu_s[0..5]
//@extract file=src/opcode/control.rs path="struct DelegateCall" kind=type
//@end
//@extract file=src/opcode/control.rs path="impl Opcode for DelegateCall" kind=header
//@end
//@extract file=src/opcode/control.rs path="impl Opcode for DelegateCall|fn execute"
//@ret r
//@spec
        ensures
            r is Ok ==> pushed_call_without_value(old(vm), final(vm), operand(old(vm), 1), operand(old(vm), 2), operand(old(vm), 3), operand(old(vm), 4),
                operand(old(vm), 5), operand(old(vm), 6)),      //@ob C07.env.DelegateCall.operands_in_evm_roles C18.env.DelegateCall.built_through_the_value_builder
            stack_effect(old(vm), final(vm), r, 6, 1, true),      //@ob C07.env.DelegateCall.stack_effect C05.env.DelegateCall.stack_effect_is_evm_arity
            stack_errors(old(vm), final(vm), r, 6, 1),      //@ob C07.env.DelegateCall.underflow_or_overflow_is_error_at_ip C17.env.DelegateCall.error_located_at_ip
            stop_is_located(old(vm), r),      //@ob C17.env.DelegateCall.stop_located_at_ip
            partial_pop_exact(old(vm), final(vm), 6),      //@ob C07.env.DelegateCall.known_partial_pop.exact
            final(vm).frame(old(vm), true, false, false, false),      //@ob C07.env.DelegateCall.nothing_else_moves
//@end
}

// STATICCALL: 6 -> 1; the same six operands as DELEGATECALL
//@extract file=src/opcode/control.rs path="struct StaticCall" kind=type
//@end
//@extract file=src/opcode/control.rs path="impl Opcode for StaticCall" kind=header
//@end
//@extract file=src/opcode/control.rs path="impl Opcode for StaticCall|fn execute"
//@ret r
//@spec
        ensures
            r is Ok ==> pushed_call_without_value(old(vm), final(vm), operand(old(vm), 1), operand(old(vm), 2), operand(old(vm), 3), operand(old(vm), 4),
                operand(old(vm), 5), operand(old(vm), 6)),      //@ob C07.env.StaticCall.operands_in_evm_roles C18.env.StaticCall.built_through_the_value_builder
            stack_effect(old(vm), final(vm), r, 6, 1, true),      //@ob C07.env.StaticCall.stack_effect C05.env.StaticCall.stack_effect_is_evm_arity
            stack_errors(old(vm), final(vm), r, 6, 1),      //@ob C07.env.StaticCall.underflow_or_overflow_is_error_at_ip C17.env.StaticCall.error_located_at_ip
            stop_is_located(old(vm), r),      //@ob C17.env.StaticCall.stop_located_at_ip
            partial_pop_exact(old(vm), final(vm), 6),      //@ob C07.env.StaticCall.known_partial_pop.exact
            final(vm).frame(old(vm), true, false, false, false),      //@ob C07.env.StaticCall.nothing_else_moves
//@end
}
} // verus!
}

// ======================================================================================================
// The four bulk-copy opcodes once more (their polled loops are under contract in unit watchdog, C13): here the EVM ARITY,
// the error behaviour, the frame, and the OPERAND ROLES of the one-store branch (symbolic size).  WHAT the word-by-word loop
// writes (constant size) is not under contract: the loop invariant only carries the frame and the stack.
// ======================================================================================================
pub mod copy {
use vstd::prelude::*;
use super::container::Locatable;
use super::evm::*;
use super::execution::Error;
use super::vm::{exec_built, ExecuteResult, PolledOpcode as Opcode, CONTRACT_MAXIMUM_SIZE_BYTES, VM};
use super::{KnownWord, Provenance, RuntimeBoxedVal, RSV, RSVD};
verus! {
broadcast use super::vm::lemma_handle_resolved;
//@include env_ops/ops_copy.rs
} // verus!
}

// ======================================================================================================
// CLIENT lemmas: hand-written callers (NOT repository code) of the extracted `execute` functions, verified from their
// contracts only — what the contracts are worth to a program that runs two instructions in sequence.
// ======================================================================================================
pub mod client {
use vstd::prelude::*;
use super::evm::*;
use super::memory::{MLoad, MStore, SLoad, SStore};
use super::vm::{loaded, mkey, skey, ExecuteResult, Opcode, VM};
verus! {
/// once the two top items are gone, the third is on top
proof fn lemma_after_two_pops<T>(before: Seq<T>, after: Seq<T>)
    requires before.len() >= 3, replaces_top(after, before, 2, 0),
    ensures after =~= before.subrange(0, before.len() - 2), after.last() == before[before.len() - 3],
{
    assert(after =~= after.subrange(0, before.len() - 2));
}
/// SSTORE k v ; SLOAD k' with k' the same key (modulo the derived Eq): what is pushed wraps v — whatever the slot held before.
/// Stack before: [.., k', v, k] (k on top).
fn sstore_then_sload(vm: &mut VM) -> (r: ExecuteResult)
    requires ready(old(vm), 3), old(vm).stack().len() <= 1024, skey(*operand(old(vm), 1)) == skey(*operand(old(vm), 3)),
    ensures
        r is Ok && result(final(vm)).dt() == loaded(operand(old(vm), 3), operand(old(vm), 2)),      //@ob C07.env.lemma.sstore_then_sload_reads_it C06.env.lemma.sstore_then_sload_reads_it
        replaces_top(final(vm).stack(), old(vm).stack(), 3, 1),      //@ob C07.env.lemma.sstore_then_sload_stack
{
    SStore.execute(vm)?;
    proof { lemma_after_two_pops(old(vm).stack(), vm.stack()); }
    SLoad.execute(vm)
}
/// SSTORE k v ; SLOAD k' with ANOTHER key that has a history: the write does not disturb the read.
fn sstore_elsewhere_then_sload(vm: &mut VM) -> (r: ExecuteResult)
    requires ready(old(vm), 3), old(vm).stack().len() <= 1024, skey(*operand(old(vm), 1)) != skey(*operand(old(vm), 3)),
        old(vm).storage().hist(skey(*operand(old(vm), 3))).len() > 0,
    ensures
        r is Ok && result(final(vm)).dt() == loaded(operand(old(vm), 3), old(vm).storage().hist(skey(*operand(old(vm), 3))).last()),      //@ob C07.env.lemma.sstore_elsewhere_does_not_change_sload
{
    SStore.execute(vm)?;
    proof { lemma_after_two_pops(old(vm).stack(), vm.stack()); }
    SLoad.execute(vm)
}
/// MSTORE o v ; MLOAD o' with o' naming the same memory key: v itself is pushed.  Stack before: [.., o', v, o].
fn mstore_then_mload(vm: &mut VM) -> (r: ExecuteResult)
    requires ready(old(vm), 3), old(vm).stack().len() <= 1024, mkey(*operand(old(vm), 1)) == mkey(*operand(old(vm), 3)),
    ensures
        r is Ok && result_box(final(vm)) == operand(old(vm), 2),      //@ob C07.env.lemma.mstore_then_mload_reads_it
        replaces_top(final(vm).stack(), old(vm).stack(), 3, 1),      //@ob C07.env.lemma.mstore_then_mload_stack
{
    MStore.execute(vm)?;
    proof { lemma_after_two_pops(old(vm).stack(), vm.stack()); }
    MLoad.execute(vm)
}
} // verus!
}

fn main() {}
