#!/usr/bin/env python3
"""Mutation / refactor self-test of unit env_ops on the scratch worktree /tmp/wt_env (never /repo).
Usage: git -C /repo worktree add --detach /tmp/wt_env HEAD; python3 units/env_ops/mutations.py [mut|ref|all] [Mnn|Rnn ...];
       git -C /repo worktree remove --force /tmp/wt_env
M* = property-breaking edits (must give status=failed on the expected labelled obligation), R* = behaviour-preserving refactors (must stay ok)."""
import subprocess, sys, re, time, json
WT = '/tmp/wt_env'

def block(src, header):
    """span of the item starting at `header` up to the matching closing brace"""
    a = src.index(header)
    i = src.index('{', a)
    depth = 0
    while True:
        c = src[i]
        if c == '{': depth += 1
        elif c == '}':
            depth -= 1
            if depth == 0: return a, i + 1
        i += 1

def edit(file, header, old, new, count=1):
    p = f'{WT}/{file}'
    s = open(p).read()
    if header:
        a, b = block(s, header)
    else:
        a, b = 0, len(s)
    seg = s[a:b]
    assert seg.count(old) >= 1, (header, old)
    seg = seg.replace(old, new, count)
    open(p, 'w').write(s[:a] + seg + s[b:])

ENV, MEM, CTL = 'src/opcode/environment.rs', 'src/opcode/memory.rs', 'src/opcode/control.rs'
MUT = [
 ('M01 CALLCODE runs DelegateCall.execute (pops 6)', [(CTL, 'impl Opcode for CallCode', 'Call.execute(vm)', 'DelegateCall.execute(vm)')], 'CallCode.stack_effect'),
 ('M02 SSTORE key/value swapped', [(MEM, 'impl Opcode for SStore', 'store(key, value)', 'store(value, key)')], 'SStore.key_is_operand_1'),
 ('M03 MSTORE operands swapped', [(MEM, 'impl Opcode for MStore {', 'memory.store(offset, value)', 'memory.store(value, offset)')], 'MStore.offset_is_operand_1'),
 ('M04 SLOAD reads the key without popping it', [(MEM, 'impl Opcode for SLoad', 'let key = vm.stack_handle()?.pop()?;', 'let key = vm.stack_handle()?.read(0)?.clone();')], 'SLoad.stack_effect'),
 ('M05 LOGn pops one topic too many', [(ENV, 'impl Opcode for LogN', 'u32::from(self.n()) + 2', 'u32::from(self.n()) + 3')], 'LogN'),
 ('M06 CREATE2 pops 3 (salt := size)', [(ENV, 'impl Opcode for Create2', 'let salt = stack.pop()?;', 'let salt = size.clone();')], 'Create2.stack_effect'),
 ('M07 BALANCE pushes without popping', [(ENV, 'impl Opcode for Balance', 'let address = stack.pop()?;', 'let address = stack.read(0)?.clone();')], 'Balance.stack_effect'),
 ('M08 CALLDATALOAD pushes two values', [(MEM, 'impl Opcode for CallDataLoad', 'stack.push(value)?;', 'stack.push(value.clone())?;\n        stack.push(value)?;')], 'CallDataLoad.stack_effect'),
 ('M09 DELEGATECALL/STATICCALL argsOffset and argsSize swapped', [(CTL, 'impl Opcode for DelegateCall', 'let arg_offset = stack.pop()?;\n        let arg_size = stack.pop()?;', 'let arg_size = stack.pop()?;\n        let arg_offset = stack.pop()?;')], 'DelegateCall.operands_in_evm_roles'),
 ('M10 STATICCALL runs Call.execute (pops 7)', [(CTL, 'impl Opcode for StaticCall', 'DelegateCall.execute(vm)', 'Call.execute(vm)')], 'StaticCall.stack_effect'),
 ('M11 POP on an empty stack returns Ok', [(MEM, 'impl Opcode for Pop', 'let value = stack.pop()?;', 'let value = match stack.pop() { Ok(v) => v, Err(_) => return Ok(()) };')], 'Pop.'),
 ('M12 CHAINID pushes nothing', [(ENV, 'impl Opcode for ChainId', 'stack.push(value)?;', '')], 'ChainId.stack_effect'),
 ('M13 SSTORE of a literal value skipped', [(MEM, 'impl Opcode for SStore', 'vm.state()?.storage_mut().store(key, value);', 'if let RSVD::KnownData { .. } = value.data() { } else { vm.state()?.storage_mut().store(key, value); }')], 'SStore.key_is_operand_1'),
 ('M14 MSTORE8 stores a word', [(MEM, 'impl Opcode for MStore8', 'memory.store_8(offset, value)', 'memory.store(offset, value)')], 'MStore8.offset_is_operand_1'),
 ('M15 CALL address and value swapped', [(CTL, 'impl Opcode for Call {', 'let address = stack.pop()?;\n        let value = stack.pop()?;', 'let value = stack.pop()?;\n        let address = stack.pop()?;')], 'Call.operands_in_evm_roles'),
 ('M16 TIMESTAMP pushes the block number node', [(ENV, 'impl Opcode for Timestamp', 'RSVD::BlockTimestamp', 'RSVD::BlockNumber')], 'Timestamp.pushes_its_node'),
 ('M17 SHA3 offset and size swapped', [(ENV, 'impl Opcode for Sha3', 'memory.load_slice(&offset, &size, instruction_pointer)', 'memory.load_slice(&size, &offset, instruction_pointer)')], 'Sha3.operands_in_evm_roles'),
 ('M18 ADDRESS built without the size limit', [(ENV, 'impl Opcode for Address', 'vm.build().symbolic_exec(instruction_pointer, RSVD::Address)', 'RSV::new(instruction_pointer, RSVD::Address, Provenance::Execution, None)')], 'Address.built_through_the_value_builder'),
 ('M19 LOGn topics in reverse order', [(ENV, 'impl Opcode for LogN', 'topics.push(stack.pop()?);', 'topics.insert(0, stack.pop()?);')], 'LogN'),
 ('M20 SLOAD pushes the key back', [(MEM, 'impl Opcode for SLoad', 'vm.stack_handle()?.push(result)?;', 'vm.stack_handle()?.push(key)?;')], 'SLoad.reads_the_last_generation'),
 ('M21 CODESIZE pushes length + 1', [(MEM, 'impl Opcode for CodeSize', 'KnownWord::from(true_code_size)', 'KnownWord::from(true_code_size + 1)')], 'CodeSize'),
 ('M22 CALLDATALOAD reads 31 bytes', [(MEM, 'impl Opcode for CallDataLoad', 'KnownWord::from_le(32u8)', 'KnownWord::from_le(31u8)')], 'CallDataLoad.operand_in_evm_role'),
 ('M23 CALL retOffset and retSize swapped in store_return_data', [(CTL, 'impl Opcode for Call {', 'store_return_data(&ret_size, &ret_offset, vm)?;', 'store_return_data(&ret_offset, &ret_size, vm)?;')], 'Call.operands_in_evm_roles'),
 ('M24 MLOAD does not push', [(MEM, 'impl Opcode for MLoad', 'vm.stack_handle()?.push(result)?;', 'vm.state()?.record_value(result);')], 'MLoad'),
 ('M25 PC pushes the NEXT offset', [(CTL, 'impl Opcode for PC', 'KnownWord::from_le(instruction_pointer)', 'KnownWord::from_le(instruction_pointer.wrapping_add(1))')], 'PC.pushes_the_offset'),
 ('M26 CREATE value taken from the third operand', [(ENV, 'impl Opcode for Create {', 'let value = stack.pop()?;\n        let offset = stack.pop()?;\n        let size = stack.pop()?;', 'let offset = stack.pop()?;\n        let size = stack.pop()?;\n        let value = stack.pop()?;')], 'Create.operands_in_evm_roles'),
 ('M27 MSIZE leaf with the wrong provenance', [(MEM, 'impl Opcode for MSize', 'Provenance::MSize', 'Provenance::CallDataSize')], 'MSize.pushes_its_node'),
 ('M28 GAS error swallowed on a full stack', [(ENV, 'impl Opcode for Gas {', 'stack.push(value)?;', 'let _ = stack.push(value);')], 'Gas.'),
 ('M29 CALLDATACOPY pops 2 (size := offset)', [(MEM, 'impl Opcode for CallDataCopy', 'let size = stack.pop()?.constant_fold();', 'let size = offset.clone();')], 'CallDataCopy.stack_effect'),
 ('M30 CODECOPY one-store node with offset and size swapped', [(MEM, 'impl Opcode for CodeCopy', 'RSVD::CodeCopy { offset, size }', 'RSVD::CodeCopy { offset: size, size: offset }')], 'CodeCopy.symbolic_copy_operands_in_evm_roles'),
 ('M31 EXTCODECOPY address and destOffset swapped', [(MEM, 'impl Opcode for ExtCodeCopy', 'let address = stack.pop()?;\n        let dest_offset = stack.pop()?;', 'let dest_offset = stack.pop()?;\n        let address = stack.pop()?;')], 'ExtCodeCopy.symbolic_copy_operands_in_evm_roles'),
 ('M32 RETURNDATACOPY pushes every copied word', [(MEM, 'impl Opcode for ReturnDataCopy', 'let memory = vm.state()?.memory_mut();\n                memory.store(dest_offset, value);', 'vm.stack_handle()?.push(value.clone())?;\n                let memory = vm.state()?.memory_mut();\n                memory.store(dest_offset, value);')], 'ReturnDataCopy.loop.pushes_nothing'),
 ('M33 CALLDATACOPY one store lands at the source offset', [(MEM, 'impl Opcode for CallDataCopy', 'RSVD::call_data(offset, size));\n            let memory = vm.state()?.memory_mut();\n            memory.store(dest_offset, value);', 'RSVD::call_data(offset.clone(), size));\n            let memory = vm.state()?.memory_mut();\n            memory.store(offset, value);')], 'CallDataCopy.symbolic_copy_operands_in_evm_roles'),
 ('M34 CODECOPY swallows the watchdog stop', [(MEM, 'impl Opcode for CodeCopy', 'Err(Error::StoppedByWatchdog).locate(instruction_pointer)?;', 'return Err(Error::StoppedByWatchdog).locate(0);')], 'CodeCopy.stop_located_at_ip'),
]
REF = [
 ('R01 SSTORE locals renamed', [(MEM, 'impl Opcode for SStore', 'let key = stack.pop()?;\n        let value = stack.pop()?;', 'let slot = stack.pop()?;\n        let word = stack.pop()?;'), (MEM, 'impl Opcode for SStore', 'store(key, value)', 'store(slot, word)')]),
 ('R02 MSTORE without the temporary', [(MEM, 'impl Opcode for MStore {', 'let memory = vm.state()?.memory_mut();\n        memory.store(offset, value);', 'vm.state()?.memory_mut().store(offset, value);')]),
 ('R03 POP with an explicit match instead of `?`', [(MEM, 'impl Opcode for Pop', 'let value = stack.pop()?;', 'let value = match stack.pop() {\n            Ok(v) => v,\n            Err(e) => return Err(e),\n        };')]),
 ('R04 CALL locals renamed', [(CTL, 'impl Opcode for Call {', 'let gas = stack.pop()?;\n        let address = stack.pop()?;\n        let value = stack.pop()?;', 'let g = stack.pop()?;\n        let a = stack.pop()?;\n        let v = stack.pop()?;'), (CTL, 'impl Opcode for Call {', 'gas,\n                address,\n                value,', 'gas: g,\n                address: a,\n                value: v,')]),
 ('R05 ADDRESS pushes through a temporary handle', [(ENV, 'impl Opcode for Address', 'let mut stack = vm.stack_handle()?;\n        stack.push(value)?;', 'vm.stack_handle()?.push(value)?;')]),
 ('R06 LOGn bound written 2 + n', [(ENV, 'impl Opcode for LogN', 'u32::from(self.n()) + 2', '2 + u32::from(self.n())')]),
 ('R07 SLOAD without the temporary', [(MEM, 'impl Opcode for SLoad', 'let storage = vm.state()?.storage_mut();\n        let result = storage.load(&key);', 'let result = vm.state()?.storage_mut().load(&key);')]),
 ('R08 CALLCODE through a named value', [(CTL, 'impl Opcode for CallCode', 'Call.execute(vm)', 'let call = Call;\n        call.execute(vm)')]),
 ('R09 GAS returns explicitly', [(ENV, 'impl Opcode for Gas {', '        // Done, so return ok\n        Ok(())', '        return Ok(());')]),
 ('R10 BALANCE with let-else', [(ENV, 'impl Opcode for Balance', 'let address = stack.pop()?;', 'let popped = stack.pop();\n        let Ok(address) = popped else {\n            return match popped { Err(e) => Err(e), Ok(_) => Ok(()) };\n        };')]),
 ('R11 SHA3 memory temporary inlined, result renamed', [(ENV, 'impl Opcode for Sha3', 'let memory = vm.state()?.memory_mut();\n        let data = memory.load_slice(&offset, &size, instruction_pointer);', 'let data = vm.state()?.memory_mut().load_slice(&offset, &size, instruction_pointer);'), (ENV, 'impl Opcode for Sha3', 'let result = vm.build()', 'let hash = vm.build()'), (ENV, 'impl Opcode for Sha3', 'push(result)?', 'push(hash)?')]),
 ('R12 CREATE2 pops into a tuple-free sequence with renamed salt', [(ENV, 'impl Opcode for Create2', 'let salt = stack.pop()?;', 'let create_salt = stack.pop()?;'), (ENV, 'impl Opcode for Create2', 'RSVD::Create2 { value, salt, data }', 'RSVD::Create2 { value, salt: create_salt, data }')]),
 ('R13 CODECOPY constant renamed', [(MEM, 'impl Opcode for CodeCopy', 'num_32', 'word_size', 9)]),
 ('R14 CALLDATACOPY one-store branch without the temporary', [(MEM, 'impl Opcode for CallDataCopy', 'RSVD::call_data(offset, size));\n            let memory = vm.state()?.memory_mut();\n            memory.store(dest_offset, value);', 'RSVD::call_data(offset, size));\n            vm.state()?.memory_mut().store(dest_offset, value);')]),
]

def run(name, edits):
    subprocess.run(['git', '-C', WT, 'checkout', '-q', '.'], check=True)
    for e in edits:
        edit(*e)
    t = time.time()
    out = subprocess.run(['python3', 'vx/vx.py', 'unit', 'env_ops', '--raw'], cwd='/verif', capture_output=True, text=True,
                         env={**__import__('os').environ, 'VX_REPO': WT}).stdout
    subprocess.run(['git', '-C', WT, 'checkout', '-q', '.'], check=True)
    first = out.splitlines()[0] if out else ''
    status = re.search(r'status=(\w+)', first).group(1) if first else '?'
    labels = sorted(set(re.findall(r"'((?:C\d\d)\.env\.[^']+)'", out)))
    fns = sorted(set(re.findall(r'FAIL (\S+)', out)))
    return status, labels, fns, out, time.time() - t

def main():
    which = sys.argv[1] if len(sys.argv) > 1 else 'all'
    only = sys.argv[2:]
    if which in ('mut', 'all'):
        for name, edits, expect in MUT:
            if only and not any(name.startswith(o) for o in only): continue
            status, labels, fns, out, dt = run(name, edits)
            hit = any(expect in l for l in labels)
            print(f'{name}: status={status} expected~{expect} hit={hit} ({dt:.1f}s)\n     fns={fns}\n     labels={labels[:6]}{" ..." if len(labels) > 6 else ""}')
            if status != 'failed' or not hit:
                print('     !!', out[:1500])
    if which in ('ref', 'all'):
        for name, edits in REF:
            if only and not any(name.startswith(o) for o in only): continue
            status, labels, fns, out, dt = run(name, edits)
            print(f'{name}: status={status} ({dt:.1f}s) {fns}')
            if status != 'ok':
                print('     !!', out[:1500])

main()
