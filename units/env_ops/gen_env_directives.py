#!/usr/bin/env python3
"""Writes units/env_ops/ops_<module>.rs, the per-opcode sections of the three REGULAR families that unit.rs pulls in
with //@include (the irregular opcodes are written out in unit.rs itself).

The sections contain only extraction *directives* and contract clauses: for every opcode struct `X` the struct item and
`impl Opcode for X|fn execute` are pulled from /repo/src/opcode/{environment,memory}.rs by the generator on every run.
Nothing in the tables below is read from the repository: they are the EVM's definition of each instruction (yellow paper
appendix H / evm.codes, Shanghai: delta = items removed, alpha = items added, mu_s[0] = the TOP of the stack = the
instruction's FIRST operand) together with the documented meaning of the value-tree constructors of src/vm/value/mod.rs.

  python3 units/env_ops/gen_env_directives.py      # rewrites the ops_*.rs files next to this script
"""

# --- delta 0, alpha 1: an environment read.  module -> [(struct, EVM mnemonic, constructor that denotes the read)] ----------
ZERO = {
    'environment': [
        ('Address', 'ADDRESS', 'Address'),
        ('Origin', 'ORIGIN', 'Origin'),
        ('Caller', 'CALLER', 'Caller'),
        ('CallValue', 'CALLVALUE', 'CallValue'),
        ('GasPrice', 'GASPRICE', 'GasPrice'),
        ('CoinBase', 'COINBASE', 'CoinBase'),
        ('Timestamp', 'TIMESTAMP', 'BlockTimestamp'),
        ('Number', 'NUMBER', 'BlockNumber'),
        ('Prevrandao', 'PREVRANDAO', 'Prevrandao'),
        ('GasLimit', 'GASLIMIT', 'GasLimit'),
        ('ChainId', 'CHAINID', 'ChainId'),
        ('SelfBalance', 'SELFBALANCE', 'SelfBalance'),
        ('BaseFee', 'BASEFEE', 'BaseFee'),
        ('Gas', 'GAS', 'Gas'),
    ],
    'memory': [],
}
# --- delta 1, alpha 1: a read keyed by one operand.  (struct, mnemonic, constructor, field that receives mu_s[0]) ------------
UNARY = {
    'environment': [
        ('Balance', 'BALANCE', 'Balance', 'address'),
        ('ExtCodeHash', 'EXTCODEHASH', 'ExtCodeHash', 'address'),
        ('BlockHash', 'BLOCKHASH', 'BlockHash', 'block_number'),
    ],
    'memory': [
        ('ExtCodeSize', 'EXTCODESIZE', 'ExtCodeSize', 'address'),
    ],
}
# --- delta 0, alpha 1: a size the tool keeps opaque: a one-node leaf `Value` whose provenance names the instruction --------
LEAF = {
    'environment': [],
    'memory': [
        ('CallDataSize', 'CALLDATASIZE', 'CallDataSize'),
        ('ReturnDataSize', 'RETURNDATASIZE', 'ReturnDataSize'),
        ('MSize', 'MSIZE', 'MSize'),
    ],
}

# --- the four bulk copies: delta 3 (4 for EXTCODECOPY), alpha 0.  (struct, mnemonic, delta, one-store clause) -------------------
# operands: CALLDATACOPY / CODECOPY / RETURNDATACOPY (destOffset, offset, size); EXTCODECOPY (address, destOffset, offset, size)
COPY = [
    ('CallDataCopy', 'CALLDATACOPY', 3, 'stored_call_data(old(vm), final(vm), operand(old(vm), 1), operand(old(vm), 2), operand(old(vm), 3))'),
    ('CodeCopy', 'CODECOPY', 3, 'stored_code_copy(old(vm), final(vm), operand(old(vm), 1), operand(old(vm), 2), operand(old(vm), 3))'),
    ('ExtCodeCopy', 'EXTCODECOPY', 4, 'stored_ext_code_copy(old(vm), final(vm), operand(old(vm), 1), operand(old(vm), 2), operand(old(vm), 3), operand(old(vm), 4))'),
    ('ReturnDataCopy', 'RETURNDATACOPY', 3, 'stored_return_data(old(vm), final(vm), operand(old(vm), 1), operand(old(vm), 2), operand(old(vm), 3))'),
]
COPY_SECTION = '''// {mnem}: {pops} -> 0
//@extract file=src/opcode/memory.rs path="struct {name}" kind=type
//@end
//@extract file=src/opcode/memory.rs path="impl Opcode for {name}" kind=header
//@end
//@extract file=src/opcode/memory.rs path="impl Opcode for {name}|fn execute"
//@ret r
// R-STEPBY-ENUM (as in unit watchdog): `for (c, o) in (0..n).step_by(32).enumerate() {{ BODY }}` is `c = 0; o = 0; while o < n {{ BODY; c += 1; o += 32 }}`
// with the addition checked (the range iterator ends when the next offset does not exist); BODY ($1) and the step ($2) are carried over verbatim
//@rw R-STEPBY-ENUM
//@old
for (count, internal_offset) in (0..size_limit).step_by($2).enumerate() {{
$1
            }}
        }} else {{
//@new
let mut count: usize = 0;
            let mut internal_offset: usize = 0;
            while internal_offset < size_limit {{
$1
                count = count + 1;
                internal_offset = match internal_offset.checked_add($2) {{ Some(next) => next, None => usize::MAX }};
            }}
        }} else {{
//@spec
        ensures
            r is Ok && symbolic_size(operand(old(vm), {pops})) ==> {store},      //@ob C07.env.{name}.symbolic_copy_operands_in_evm_roles C18.env.{name}.built_through_the_value_builder
            stack_effect(old(vm), final(vm), r, {pops}, 0, true),      //@ob C07.env.{name}.stack_effect C05.env.{name}.stack_effect_is_evm_arity
            stack_errors(old(vm), final(vm), r, {pops}, 0),      //@ob C07.env.{name}.underflow_or_overflow_is_error_at_ip C17.env.{name}.error_located_at_ip
            stop_is_located(old(vm), r),      //@ob C17.env.{name}.stop_located_at_ip
            partial_pop_exact(old(vm), final(vm), {pops}),      //@ob C07.env.{name}.known_partial_pop.exact
            final(vm).frame(old(vm), true, false, false, false),      //@ob C07.env.{name}.nothing_else_moves
//@loop 1 kind=while
                invariant
                    polling_interval >= 1 && instruction_pointer == old(vm).ip(),
                    internal_offset < size_limit ==> internal_offset as nat == 32 * (count as nat),
                    old(vm).has_thread() && {pops} <= old(vm).stack().len() <= 1024,
                    vm.frame(old(vm), true, false, false, false),      //@ob C07.env.{name}.loop.touches_memory_only
                    vm.stack() == old(vm).stack().subrange(0, old(vm).stack().len() - {pops}),      //@ob C07.env.{name}.loop.pushes_nothing
                decreases (if internal_offset < size_limit {{ size_limit - internal_offset }} else {{ 0 }}),
//@end
}}
'''

HEAD = '''//@extract file=src/opcode/{mod}.rs path="struct {name}" kind=type
//@end
//@extract file=src/opcode/{mod}.rs path="impl Opcode for {name}" kind=header
//@end
//@extract file=src/opcode/{mod}.rs path="impl Opcode for {name}|fn execute"
//@ret r
//@spec
        ensures
'''
TAIL = '''            stack_effect(old(vm), final(vm), r, {pops}, {pushes}, false),      //@ob C07.env.{name}.stack_effect C05.env.{name}.stack_effect_is_evm_arity
            stack_errors(old(vm), final(vm), r, {pops}, {pushes}),      //@ob C07.env.{name}.underflow_or_overflow_is_error_at_ip C17.env.{name}.error_located_at_ip C08.env.{name}.full_stack_ends_the_path
            final(vm).same_but_stack(old(vm)),      //@ob C07.env.{name}.nothing_else_moves
//@end
}}
'''


def zero(mod, name, mnem, ctor):
    return (f'// {mnem}: 0 -> 1\n' + HEAD.format(mod=mod, name=name)
            + f'            r is Ok ==> pushed_exec(old(vm), final(vm), RSVD::{ctor}),      //@ob C07.env.{name}.pushes_its_node C18.env.{name}.built_through_the_value_builder\n'
            + TAIL.format(name=name, pops=0, pushes=1))


def unary(mod, name, mnem, ctor, field):
    return (f'// {mnem}: 1 -> 1, {field} = mu_s[0]\n' + HEAD.format(mod=mod, name=name)
            + f'            r is Ok ==> pushed_exec(old(vm), final(vm), RSVD::{ctor} {{ {field}: operand(old(vm), 1) }}),      //@ob C07.env.{name}.operand_in_evm_role C18.env.{name}.built_through_the_value_builder\n'
            + TAIL.format(name=name, pops=1, pushes=1))


def leaf(mod, name, mnem, prov):
    return (f'// {mnem}: 0 -> 1, an opaque one-node leaf\n' + HEAD.format(mod=mod, name=name)
            + f'            r is Ok ==> is_leaf(result(final(vm)), old(vm).ip(), Provenance::{prov}),      //@ob C07.env.{name}.pushes_its_node C18.env.{name}.is_a_one_node_leaf\n'
            + TAIL.format(name=name, pops=0, pushes=1))


def main():
    import os
    here = os.path.dirname(os.path.abspath(__file__))
    for mod in ('environment', 'memory'):
        out = ['// GENERATED by gen_env_directives.py — directives and contract clauses only; bodies are extracted from /repo on every run.',
               f'// regular opcodes of src/opcode/{mod}.rs: stack effect and node of `execute` against the EVM definition']
        for row in ZERO[mod]:
            out.append(zero(mod, *row).rstrip('\n'))
        for row in UNARY[mod]:
            out.append(unary(mod, *row).rstrip('\n'))
        for row in LEAF[mod]:
            out.append(leaf(mod, *row).rstrip('\n'))
        open(os.path.join(here, f'ops_{mod}.rs'), 'w').write('\n'.join(out) + '\n')


def copies():
    import os
    here = os.path.dirname(os.path.abspath(__file__))
    out = ['// GENERATED by gen_env_directives.py — directives and contract clauses only; bodies are extracted from /repo on every run.',
           '// the four bulk-copy opcodes of src/opcode/memory.rs: arity, errors, frame and the one-store branch against the EVM definition']
    for name, mnem, pops, store in COPY:
        out.append(COPY_SECTION.format(name=name, mnem=mnem, pops=pops, store=store).rstrip('\n'))
    open(os.path.join(here, 'ops_copy.rs'), 'w').write('\n'.join(out) + '\n')


if __name__ == '__main__':
    copies()
    main()
