//@unit props=C09
// Unit fold_arms — the 21 foldable arms of `constant_folder`, the function nested in
// `SymbolicValueData::constant_fold` (src/vm/value/mod.rs), against property C09 "constant folding
// preserves meaning": with all operands constant the node becomes the constant obtained by applying
// THE SAME operator to THE SAME operands IN THE SAME ORDER; otherwise the node is rebuilt with the
// same constructor around the (transformed) operands in their original positions; every other
// constructor is left to the traversal (None).
//
// `KnownWord` is opaque here (common/value_tree_items.rs): `kw_op(a, b)` is uninterpreted, its
// arithmetic meaning is proved in unit known_word against the EVM definition.
use vstd::prelude::*;
use std::sync::Arc;
//@include common/ethnum_prelude.rs
//@include common/value_tree_items.rs
// Robustness shim (no contract): lets an edited arm that consults the numeric value of a word (`value_le`,
// `zero`, `from_le`, ethnum comparisons) TYPE-CHECK, so that the edit reaches the arm's postcondition instead
// of ending as a rustc-stage "undecided".  Nothing is assumed about these functions.
impl KnownWord {
    pub fn value_le(&self) -> ethnum::U256 { unimplemented!() }
    pub fn value_le_signed(&self) -> ethnum::I256 { unimplemented!() }
    pub fn zero() -> KnownWord { unimplemented!() }
    pub fn from_le(_v: ethnum::U256) -> KnownWord { unimplemented!() }
}
verus! {
pub assume_specification[ KnownWord::value_le ](k: &KnownWord) -> (r: ethnum::U256);
pub assume_specification[ KnownWord::value_le_signed ](k: &KnownWord) -> (r: ethnum::I256);
pub assume_specification[ KnownWord::zero ]() -> (r: KnownWord);
pub assume_specification[ KnownWord::from_le ](v: ethnum::U256) -> (r: KnownWord);

// A-CALLEE: the traversal combinator `SymbolicValue::transform_data(constant_folder)` applied to an
// operand is an uninterpreted function `tx` of that operand (determinism only; that it folds every
// node bottom-up is NOT proved here). R-SELFREF replaces the self-referential call by `tx_exec()`.
pub uninterp spec fn tx<A>(v: SymbolicValue<A>) -> SymbolicValue<A>;
impl<AuxData> SymbolicValue<AuxData> {
    #[verifier::external_body]
    pub fn tx_exec(&self) -> (r: Arc<Self>) ensures *r == tx(*self) { unimplemented!() }
}

/// the operand is a constant after the traversal has been applied to it
pub open spec fn k1<A>(p: SymbolicValue<A>) -> bool { aw(tx(p)) is Some }
pub open spec fn k2<A>(p: SymbolicValue<A>, q: SymbolicValue<A>) -> bool { k1(p) && k1(q) }
/// ... and this is its word
pub open spec fn w<A>(p: SymbolicValue<A>) -> KnownWord { aw(tx(p))->Some_0 }
/// the result is the constant leaf `k`
pub open spec fn konst<A>(r: Option<SVD<A>>, k: KnownWord) -> bool { r == Some(SVD::<A>::KnownData { value: k }) }
/// induction hypothesis of idempotence for one operand
pub open spec fn stable<A>(p: SymbolicValue<A>) -> bool { tx(tx(p)) == tx(p) }

// ---- per-arm contract. Operand order is the EVM's: Divide { dividend, divisor } = dividend / divisor,
// Exp { value, exponent } = value ** exponent, shifts { shift, value } = value shifted by shift
// (`kw_shl(v, s)` is `v << s`), comparisons left ? right.
/// Add { left, right }  =  left + right
pub open spec fn Add_const<A>(d: SVD<A>, r: Option<SVD<A>>) -> bool {
    d matches SVD::Add { left, right } ==> k2(*left, *right) ==> konst(r, kw_add(w(*left), w(*right)))
}
pub open spec fn Add_rebuild<A>(d: SVD<A>, r: Option<SVD<A>>) -> bool {
    d matches SVD::Add { left, right } ==> !k2(*left, *right) ==>
        (r matches Some(SVD::Add { left: p, right: q }) && *p == tx(*left) && *q == tx(*right))
}
/// Multiply { left, right }  =  left * right
pub open spec fn Multiply_const<A>(d: SVD<A>, r: Option<SVD<A>>) -> bool {
    d matches SVD::Multiply { left, right } ==> k2(*left, *right) ==> konst(r, kw_mul(w(*left), w(*right)))
}
pub open spec fn Multiply_rebuild<A>(d: SVD<A>, r: Option<SVD<A>>) -> bool {
    d matches SVD::Multiply { left, right } ==> !k2(*left, *right) ==>
        (r matches Some(SVD::Multiply { left: p, right: q }) && *p == tx(*left) && *q == tx(*right))
}
/// Subtract { left, right }  =  left - right
pub open spec fn Subtract_const<A>(d: SVD<A>, r: Option<SVD<A>>) -> bool {
    d matches SVD::Subtract { left, right } ==> k2(*left, *right) ==> konst(r, kw_sub(w(*left), w(*right)))
}
pub open spec fn Subtract_rebuild<A>(d: SVD<A>, r: Option<SVD<A>>) -> bool {
    d matches SVD::Subtract { left, right } ==> !k2(*left, *right) ==>
        (r matches Some(SVD::Subtract { left: p, right: q }) && *p == tx(*left) && *q == tx(*right))
}
/// Divide { dividend, divisor }  =  dividend / divisor
pub open spec fn Divide_const<A>(d: SVD<A>, r: Option<SVD<A>>) -> bool {
    d matches SVD::Divide { dividend, divisor } ==> k2(*dividend, *divisor) ==> konst(r, kw_div(w(*dividend), w(*divisor)))
}
pub open spec fn Divide_rebuild<A>(d: SVD<A>, r: Option<SVD<A>>) -> bool {
    d matches SVD::Divide { dividend, divisor } ==> !k2(*dividend, *divisor) ==>
        (r matches Some(SVD::Divide { dividend: p, divisor: q }) && *p == tx(*dividend) && *q == tx(*divisor))
}
/// SignedDivide { dividend, divisor }  =  dividend sdiv divisor
pub open spec fn SignedDivide_const<A>(d: SVD<A>, r: Option<SVD<A>>) -> bool {
    d matches SVD::SignedDivide { dividend, divisor } ==> k2(*dividend, *divisor) ==> konst(r, kw_signed_div(w(*dividend), w(*divisor)))
}
pub open spec fn SignedDivide_rebuild<A>(d: SVD<A>, r: Option<SVD<A>>) -> bool {
    d matches SVD::SignedDivide { dividend, divisor } ==> !k2(*dividend, *divisor) ==>
        (r matches Some(SVD::SignedDivide { dividend: p, divisor: q }) && *p == tx(*dividend) && *q == tx(*divisor))
}
/// Modulo { dividend, divisor }  =  dividend % divisor
pub open spec fn Modulo_const<A>(d: SVD<A>, r: Option<SVD<A>>) -> bool {
    d matches SVD::Modulo { dividend, divisor } ==> k2(*dividend, *divisor) ==> konst(r, kw_rem(w(*dividend), w(*divisor)))
}
pub open spec fn Modulo_rebuild<A>(d: SVD<A>, r: Option<SVD<A>>) -> bool {
    d matches SVD::Modulo { dividend, divisor } ==> !k2(*dividend, *divisor) ==>
        (r matches Some(SVD::Modulo { dividend: p, divisor: q }) && *p == tx(*dividend) && *q == tx(*divisor))
}
/// SignedModulo { dividend, divisor }  =  dividend smod divisor
pub open spec fn SignedModulo_const<A>(d: SVD<A>, r: Option<SVD<A>>) -> bool {
    d matches SVD::SignedModulo { dividend, divisor } ==> k2(*dividend, *divisor) ==> konst(r, kw_signed_rem(w(*dividend), w(*divisor)))
}
pub open spec fn SignedModulo_rebuild<A>(d: SVD<A>, r: Option<SVD<A>>) -> bool {
    d matches SVD::SignedModulo { dividend, divisor } ==> !k2(*dividend, *divisor) ==>
        (r matches Some(SVD::SignedModulo { dividend: p, divisor: q }) && *p == tx(*dividend) && *q == tx(*divisor))
}
/// Exp { value, exponent }  =  value ** exponent
pub open spec fn Exp_const<A>(d: SVD<A>, r: Option<SVD<A>>) -> bool {
    d matches SVD::Exp { value, exponent } ==> k2(*value, *exponent) ==> konst(r, kw_exp(w(*value), w(*exponent)))
}
pub open spec fn Exp_rebuild<A>(d: SVD<A>, r: Option<SVD<A>>) -> bool {
    d matches SVD::Exp { value, exponent } ==> !k2(*value, *exponent) ==>
        (r matches Some(SVD::Exp { value: p, exponent: q }) && *p == tx(*value) && *q == tx(*exponent))
}
/// LessThan { left, right }  =  left < right
pub open spec fn LessThan_const<A>(d: SVD<A>, r: Option<SVD<A>>) -> bool {
    d matches SVD::LessThan { left, right } ==> k2(*left, *right) ==> konst(r, kw_lt(w(*left), w(*right)))
}
pub open spec fn LessThan_rebuild<A>(d: SVD<A>, r: Option<SVD<A>>) -> bool {
    d matches SVD::LessThan { left, right } ==> !k2(*left, *right) ==>
        (r matches Some(SVD::LessThan { left: p, right: q }) && *p == tx(*left) && *q == tx(*right))
}
/// GreaterThan { left, right }  =  left > right
pub open spec fn GreaterThan_const<A>(d: SVD<A>, r: Option<SVD<A>>) -> bool {
    d matches SVD::GreaterThan { left, right } ==> k2(*left, *right) ==> konst(r, kw_gt(w(*left), w(*right)))
}
pub open spec fn GreaterThan_rebuild<A>(d: SVD<A>, r: Option<SVD<A>>) -> bool {
    d matches SVD::GreaterThan { left, right } ==> !k2(*left, *right) ==>
        (r matches Some(SVD::GreaterThan { left: p, right: q }) && *p == tx(*left) && *q == tx(*right))
}
/// SignedLessThan { left, right }  =  left <s right
pub open spec fn SignedLessThan_const<A>(d: SVD<A>, r: Option<SVD<A>>) -> bool {
    d matches SVD::SignedLessThan { left, right } ==> k2(*left, *right) ==> konst(r, kw_signed_lt(w(*left), w(*right)))
}
pub open spec fn SignedLessThan_rebuild<A>(d: SVD<A>, r: Option<SVD<A>>) -> bool {
    d matches SVD::SignedLessThan { left, right } ==> !k2(*left, *right) ==>
        (r matches Some(SVD::SignedLessThan { left: p, right: q }) && *p == tx(*left) && *q == tx(*right))
}
/// SignedGreaterThan { left, right }  =  left >s right
pub open spec fn SignedGreaterThan_const<A>(d: SVD<A>, r: Option<SVD<A>>) -> bool {
    d matches SVD::SignedGreaterThan { left, right } ==> k2(*left, *right) ==> konst(r, kw_signed_gt(w(*left), w(*right)))
}
pub open spec fn SignedGreaterThan_rebuild<A>(d: SVD<A>, r: Option<SVD<A>>) -> bool {
    d matches SVD::SignedGreaterThan { left, right } ==> !k2(*left, *right) ==>
        (r matches Some(SVD::SignedGreaterThan { left: p, right: q }) && *p == tx(*left) && *q == tx(*right))
}
/// Equals { left, right }  =  left == right
pub open spec fn Equals_const<A>(d: SVD<A>, r: Option<SVD<A>>) -> bool {
    d matches SVD::Equals { left, right } ==> k2(*left, *right) ==> konst(r, kw_from_bool(w(*left) == w(*right)))
}
pub open spec fn Equals_rebuild<A>(d: SVD<A>, r: Option<SVD<A>>) -> bool {
    d matches SVD::Equals { left, right } ==> !k2(*left, *right) ==>
        (r matches Some(SVD::Equals { left: p, right: q }) && *p == tx(*left) && *q == tx(*right))
}
/// And { left, right }  =  left & right
pub open spec fn And_const<A>(d: SVD<A>, r: Option<SVD<A>>) -> bool {
    d matches SVD::And { left, right } ==> k2(*left, *right) ==> konst(r, kw_bitand(w(*left), w(*right)))
}
pub open spec fn And_rebuild<A>(d: SVD<A>, r: Option<SVD<A>>) -> bool {
    d matches SVD::And { left, right } ==> !k2(*left, *right) ==>
        (r matches Some(SVD::And { left: p, right: q }) && *p == tx(*left) && *q == tx(*right))
}
/// Or { left, right }  =  left | right
pub open spec fn Or_const<A>(d: SVD<A>, r: Option<SVD<A>>) -> bool {
    d matches SVD::Or { left, right } ==> k2(*left, *right) ==> konst(r, kw_bitor(w(*left), w(*right)))
}
pub open spec fn Or_rebuild<A>(d: SVD<A>, r: Option<SVD<A>>) -> bool {
    d matches SVD::Or { left, right } ==> !k2(*left, *right) ==>
        (r matches Some(SVD::Or { left: p, right: q }) && *p == tx(*left) && *q == tx(*right))
}
/// Xor { left, right }  =  left ^ right
pub open spec fn Xor_const<A>(d: SVD<A>, r: Option<SVD<A>>) -> bool {
    d matches SVD::Xor { left, right } ==> k2(*left, *right) ==> konst(r, kw_bitxor(w(*left), w(*right)))
}
pub open spec fn Xor_rebuild<A>(d: SVD<A>, r: Option<SVD<A>>) -> bool {
    d matches SVD::Xor { left, right } ==> !k2(*left, *right) ==>
        (r matches Some(SVD::Xor { left: p, right: q }) && *p == tx(*left) && *q == tx(*right))
}
/// LeftShift { shift, value }  =  value << shift
pub open spec fn LeftShift_const<A>(d: SVD<A>, r: Option<SVD<A>>) -> bool {
    d matches SVD::LeftShift { shift, value } ==> k2(*shift, *value) ==> konst(r, kw_shl(w(*value), w(*shift)))
}
pub open spec fn LeftShift_rebuild<A>(d: SVD<A>, r: Option<SVD<A>>) -> bool {
    d matches SVD::LeftShift { shift, value } ==> !k2(*shift, *value) ==>
        (r matches Some(SVD::LeftShift { shift: p, value: q }) && *p == tx(*shift) && *q == tx(*value))
}
/// RightShift { shift, value }  =  value >> shift
pub open spec fn RightShift_const<A>(d: SVD<A>, r: Option<SVD<A>>) -> bool {
    d matches SVD::RightShift { shift, value } ==> k2(*shift, *value) ==> konst(r, kw_shr(w(*value), w(*shift)))
}
pub open spec fn RightShift_rebuild<A>(d: SVD<A>, r: Option<SVD<A>>) -> bool {
    d matches SVD::RightShift { shift, value } ==> !k2(*shift, *value) ==>
        (r matches Some(SVD::RightShift { shift: p, value: q }) && *p == tx(*shift) && *q == tx(*value))
}
/// ArithmeticRightShift { shift, value }  =  value sar shift
pub open spec fn ArithmeticRightShift_const<A>(d: SVD<A>, r: Option<SVD<A>>) -> bool {
    d matches SVD::ArithmeticRightShift { shift, value } ==> k2(*shift, *value) ==> konst(r, kw_sar(w(*value), w(*shift)))
}
pub open spec fn ArithmeticRightShift_rebuild<A>(d: SVD<A>, r: Option<SVD<A>>) -> bool {
    d matches SVD::ArithmeticRightShift { shift, value } ==> !k2(*shift, *value) ==>
        (r matches Some(SVD::ArithmeticRightShift { shift: p, value: q }) && *p == tx(*shift) && *q == tx(*value))
}
/// IsZero { number }  =  number == 0
pub open spec fn IsZero_const<A>(d: SVD<A>, r: Option<SVD<A>>) -> bool {
    d matches SVD::IsZero { number } ==> k1(*number) ==> konst(r, kw_is_zero(w(*number)))
}
pub open spec fn IsZero_rebuild<A>(d: SVD<A>, r: Option<SVD<A>>) -> bool {
    d matches SVD::IsZero { number } ==> !k1(*number) ==>
        (r matches Some(SVD::IsZero { number: p }) && *p == tx(*number))
}
/// Not { value }  =  !value
pub open spec fn Not_const<A>(d: SVD<A>, r: Option<SVD<A>>) -> bool {
    d matches SVD::Not { value } ==> k1(*value) ==> konst(r, kw_not(w(*value)))
}
pub open spec fn Not_rebuild<A>(d: SVD<A>, r: Option<SVD<A>>) -> bool {
    d matches SVD::Not { value } ==> !k1(*value) ==>
        (r matches Some(SVD::Not { value: p }) && *p == tx(*value))
}
pub open spec fn foldable<A>(d: SVD<A>) -> bool {
    d is Add || d is Multiply || d is Subtract || d is Divide || d is SignedDivide
    || d is Modulo || d is SignedModulo || d is Exp || d is LessThan || d is GreaterThan
    || d is SignedLessThan || d is SignedGreaterThan || d is Equals || d is And || d is Or
    || d is Xor || d is LeftShift || d is RightShift || d is ArithmeticRightShift || d is IsZero
    || d is Not
}
pub open spec fn folder_post<A>(d: SVD<A>, r: Option<SVD<A>>) -> bool {
    Add_const(d, r) && Add_rebuild(d, r)
    && Multiply_const(d, r) && Multiply_rebuild(d, r)
    && Subtract_const(d, r) && Subtract_rebuild(d, r)
    && Divide_const(d, r) && Divide_rebuild(d, r)
    && SignedDivide_const(d, r) && SignedDivide_rebuild(d, r)
    && Modulo_const(d, r) && Modulo_rebuild(d, r)
    && SignedModulo_const(d, r) && SignedModulo_rebuild(d, r)
    && Exp_const(d, r) && Exp_rebuild(d, r)
    && LessThan_const(d, r) && LessThan_rebuild(d, r)
    && GreaterThan_const(d, r) && GreaterThan_rebuild(d, r)
    && SignedLessThan_const(d, r) && SignedLessThan_rebuild(d, r)
    && SignedGreaterThan_const(d, r) && SignedGreaterThan_rebuild(d, r)
    && Equals_const(d, r) && Equals_rebuild(d, r)
    && And_const(d, r) && And_rebuild(d, r)
    && Or_const(d, r) && Or_rebuild(d, r)
    && Xor_const(d, r) && Xor_rebuild(d, r)
    && LeftShift_const(d, r) && LeftShift_rebuild(d, r)
    && RightShift_const(d, r) && RightShift_rebuild(d, r)
    && ArithmeticRightShift_const(d, r) && ArithmeticRightShift_rebuild(d, r)
    && IsZero_const(d, r) && IsZero_rebuild(d, r)
    && Not_const(d, r) && Not_rebuild(d, r)
    && (!foldable(d) ==> r is None)
}
pub open spec fn operands_stable<A>(d: SVD<A>) -> bool {
    match d {
        SVD::Add { left, right } => stable(*left) && stable(*right),
        SVD::Multiply { left, right } => stable(*left) && stable(*right),
        SVD::Subtract { left, right } => stable(*left) && stable(*right),
        SVD::Divide { dividend, divisor } => stable(*dividend) && stable(*divisor),
        SVD::SignedDivide { dividend, divisor } => stable(*dividend) && stable(*divisor),
        SVD::Modulo { dividend, divisor } => stable(*dividend) && stable(*divisor),
        SVD::SignedModulo { dividend, divisor } => stable(*dividend) && stable(*divisor),
        SVD::Exp { value, exponent } => stable(*value) && stable(*exponent),
        SVD::LessThan { left, right } => stable(*left) && stable(*right),
        SVD::GreaterThan { left, right } => stable(*left) && stable(*right),
        SVD::SignedLessThan { left, right } => stable(*left) && stable(*right),
        SVD::SignedGreaterThan { left, right } => stable(*left) && stable(*right),
        SVD::Equals { left, right } => stable(*left) && stable(*right),
        SVD::And { left, right } => stable(*left) && stable(*right),
        SVD::Or { left, right } => stable(*left) && stable(*right),
        SVD::Xor { left, right } => stable(*left) && stable(*right),
        SVD::LeftShift { shift, value } => stable(*shift) && stable(*value),
        SVD::RightShift { shift, value } => stable(*shift) && stable(*value),
        SVD::ArithmeticRightShift { shift, value } => stable(*shift) && stable(*value),
        SVD::IsZero { number } => stable(*number),
        SVD::Not { value } => stable(*value),
        _ => true,
    }
}

// C09 (one step of) idempotence, as a lemma over the contract alone: folding the result of a fold
// again changes nothing — a folded constant is not foldable (the traversal keeps a leaf), and a rebuilt
// node is rebuilt identically — given the induction hypothesis `tx(tx(c)) == tx(c)` for the operands
// (the induction itself needs the definition of the traversal, which is an assumed callee).
proof fn lemma_fold_step_idempotent<A>(d: SVD<A>, r1: Option<SVD<A>>, r2: Option<SVD<A>>)
    requires
        folder_post(d, r1),
        r1 is Some,
        folder_post(r1->Some_0, r2),
        operands_stable(d),
    ensures
        r1->Some_0 is KnownData ==> r2 is None,            //@ob C09.fold.lemma.idem_const
        !(r1->Some_0 is KnownData) ==> r2 == r1,           //@ob C09.fold.lemma.idem_rebuild
{
}

//@extract file=src/vm/value/mod.rs path="impl<AuxData> SymbolicValueData<AuxData>#2|fn constant_fold|fn constant_folder"
//@ret r
//@rw R-SELFREF count=40
//@old
.transform_data(constant_folder)
//@new
.tx_exec()
//@spec
        ensures
            Add_const(*data, r),      //@ob C09.fold.Add.const
            Add_rebuild(*data, r),    //@ob C09.fold.Add.rebuild
            Multiply_const(*data, r),      //@ob C09.fold.Multiply.const
            Multiply_rebuild(*data, r),    //@ob C09.fold.Multiply.rebuild
            Subtract_const(*data, r),      //@ob C09.fold.Subtract.const
            Subtract_rebuild(*data, r),    //@ob C09.fold.Subtract.rebuild
            Divide_const(*data, r),      //@ob C09.fold.Divide.const
            Divide_rebuild(*data, r),    //@ob C09.fold.Divide.rebuild
            SignedDivide_const(*data, r),      //@ob C09.fold.SignedDivide.const
            SignedDivide_rebuild(*data, r),    //@ob C09.fold.SignedDivide.rebuild
            Modulo_const(*data, r),      //@ob C09.fold.Modulo.const
            Modulo_rebuild(*data, r),    //@ob C09.fold.Modulo.rebuild
            SignedModulo_const(*data, r),      //@ob C09.fold.SignedModulo.const
            SignedModulo_rebuild(*data, r),    //@ob C09.fold.SignedModulo.rebuild
            Exp_const(*data, r),      //@ob C09.fold.Exp.const
            Exp_rebuild(*data, r),    //@ob C09.fold.Exp.rebuild
            LessThan_const(*data, r),      //@ob C09.fold.LessThan.const
            LessThan_rebuild(*data, r),    //@ob C09.fold.LessThan.rebuild
            GreaterThan_const(*data, r),      //@ob C09.fold.GreaterThan.const
            GreaterThan_rebuild(*data, r),    //@ob C09.fold.GreaterThan.rebuild
            SignedLessThan_const(*data, r),      //@ob C09.fold.SignedLessThan.const
            SignedLessThan_rebuild(*data, r),    //@ob C09.fold.SignedLessThan.rebuild
            SignedGreaterThan_const(*data, r),      //@ob C09.fold.SignedGreaterThan.const
            SignedGreaterThan_rebuild(*data, r),    //@ob C09.fold.SignedGreaterThan.rebuild
            Equals_const(*data, r),      //@ob C09.fold.Equals.const
            Equals_rebuild(*data, r),    //@ob C09.fold.Equals.rebuild
            And_const(*data, r),      //@ob C09.fold.And.const
            And_rebuild(*data, r),    //@ob C09.fold.And.rebuild
            Or_const(*data, r),      //@ob C09.fold.Or.const
            Or_rebuild(*data, r),    //@ob C09.fold.Or.rebuild
            Xor_const(*data, r),      //@ob C09.fold.Xor.const
            Xor_rebuild(*data, r),    //@ob C09.fold.Xor.rebuild
            LeftShift_const(*data, r),      //@ob C09.fold.LeftShift.const
            LeftShift_rebuild(*data, r),    //@ob C09.fold.LeftShift.rebuild
            RightShift_const(*data, r),      //@ob C09.fold.RightShift.const
            RightShift_rebuild(*data, r),    //@ob C09.fold.RightShift.rebuild
            ArithmeticRightShift_const(*data, r),      //@ob C09.fold.ArithmeticRightShift.const
            ArithmeticRightShift_rebuild(*data, r),    //@ob C09.fold.ArithmeticRightShift.rebuild
            IsZero_const(*data, r),      //@ob C09.fold.IsZero.const
            IsZero_rebuild(*data, r),    //@ob C09.fold.IsZero.rebuild
            Not_const(*data, r),      //@ob C09.fold.Not.const
            Not_rebuild(*data, r),    //@ob C09.fold.Not.rebuild
            !foldable(*data) ==> r is None,    //@ob C09.fold.other_is_none
//@end

//@dropped SymbolicValueData::constant_fold's last line `self.clone().transform(constant_folder)` and the 70-arm traversal `SymbolicValueData::transform` / `SymbolicValue::transform_data`: assumed callee (tx), not under contract here
} // verus!
fn main() {}
