# Mutation self-test for unit extractor.
# Usage: git -C /repo worktree add --detach /tmp/wt_extractor HEAD; python3 units/extractor/mutations.py [Mnn ...]; git -C /repo worktree remove --force /tmp/wt_extractor
# M* = property-breaking edits (must give status=failed on the expected labelled obligation),
# H* = behaviour-preserving edits (must give status=ok; undecided = lost anchor = brittleness).
import os
import re
import subprocess
import sys
import time

WT = '/tmp/wt_extractor'
X = 'src/extractor/mod.rs'
T = 'src/tc/mod.rs'

# (id + description, file, old text, new text, label that must be among the failures | None)
MUTS = [
    ('M01 analyze swallows the execution error and goes on to a layout', X,
     'let extractor = extractor.execute()?;',
     'let extractor = match extractor.execute() { Ok(e) => e, Err(_) => return Ok(StorageLayout::default()) };',
     'C13.extractor.analyze.result_is_the_chain_of_all_stages'),
    ('M02 execute (stage) ignores the result of VM::execute', X,
     'old_state.vm.execute()?;', 'let _ = old_state.vm.execute();',
     'C17.extractor.execute.error_returned_else_consumed_result_of_the_executed_vm'),
    ('M03 prepare_vm hands VM::new a default vm config, not the configured one', X,
     'VM::new(old_state.bytecode, old_state.vm_config, watchdog.clone())?', 'VM::new(old_state.bytecode, vm::Config::default(), watchdog.clone())?',
     'C13.extractor.prepare_vm.vm_built_from_given_stream_config_watchdog'),
    ('M04 prepare_vm hands VM::new a fresh watchdog, not the given one', X,
     'VM::new(old_state.bytecode, old_state.vm_config, watchdog.clone())?', 'VM::new(old_state.bytecode, old_state.vm_config, crate::watchdog::LazyWatchdog.in_rc())?',
     'C13.extractor.prepare_vm.vm_built_from_given_stream_config_watchdog'),
    ('M05 prepare_unifier builds the TypeChecker with Config::default()', X,
     'TypeChecker::new(old_state.tc_config, watchdog.clone())', 'TypeChecker::new(tc::Config::default(), watchdog.clone())',
     'C01.extractor.prepare_unifier.closure_never_fails_and_checker_gets_given_config_watchdog'),
    ('M06 run: infer before assign_vars', T,
     '        self.assign_vars(transformed_values)?;\n        self.infer()?;', '        self.infer()?;\n        self.assign_vars(transformed_values)?;',
     'C13.extractor.run.result_is_the_chain_of_stages'),
    ('M07 run ignores the error of assign_vars', T,
     'self.assign_vars(transformed_values)?;', 'let _ = self.assign_vars(transformed_values);',
     'C13.extractor.run.result_is_the_chain_of_stages'),
    ('M08 infer (stage) returns a default layout when run fails', X,
     'let layout = old_state.engine.run(old_state.execution_result)?;', 'let layout = match old_state.engine.run(old_state.execution_result) { Ok(l) => l, Err(_) => StorageLayout::default() };',
     'C17.extractor.infer.error_returned_else_the_layout_run_produced'),
    ('M09 new drops the given watchdog for a fresh one', X,
     '        tc_config,\n        watchdog,\n    };\n    Extractor { contract, state }', '        tc_config,\n        watchdog: crate::watchdog::LazyWatchdog.in_rc(),\n    };\n    Extractor { contract, state }',
     'C13.extractor.new.same_watchdog'),
    ('M10 run calls unify twice', T,
     '        self.infer()?;\n        self.unify()', '        self.infer()?;\n        let _ = self.unify();\n        self.unify()',
     'C13.extractor.run.result_is_the_chain_of_stages'),
    ('M11 execute (stage) never runs the VM: consumes an unexecuted VM', X,
     '                old_state.vm.execute()?;\n                let execution_result = old_state.vm.consume();',
     '                let execution_result = old_state.vm.consume();',
     'C17.extractor.execute.error_returned_else_consumed_result_of_the_executed_vm'),
    ('M12 transform_state drops the error of the transform (panics instead)', X,
     'let state = transform(self.state)?;', 'let state = transform(self.state).unwrap();',
     'C01'),
    ('M13 TypeChecker::new drops the given watchdog', T,
     '            state,\n            watchdog,\n        }', '            state,\n            watchdog: crate::watchdog::LazyWatchdog.in_rc(),\n        }',
     'C13.extractor.tc_new.same_watchdog'),
    ('M14 new swaps nothing visible to rustc but stores vm limits from a default config', X,
     '    let state = state::HasContract {\n        vm_config,', '    let state = state::HasContract {\n        vm_config: vm::Config::default(),',
     'C03.extractor.new.vm_config_kept'),
    ('M15 analyze: a failed type check yields a default layout instead of the error', X,
     'let extractor = extractor.infer()?;\n        let layout = extractor.layout();\n\n        Ok(layout.clone())',
     'let extractor = match extractor.infer() { Ok(x) => x, Err(_) => return Ok(StorageLayout::default()) };\n        let layout = extractor.layout();\n\n        Ok(layout.clone())',
     'C17.extractor.analyze.type_checker_errors_returned'),
    ('M16 prepare_unifier: the checker gets a fresh watchdog', X,
     'TypeChecker::new(old_state.tc_config, watchdog.clone())', 'TypeChecker::new(old_state.tc_config, crate::watchdog::LazyWatchdog.in_rc())',
     'C01.extractor.prepare_unifier.closure_never_fails_and_checker_gets_given_config_watchdog'),
    ('M17 run ignores the error of lift (goes on with no values)', T,
     'let transformed_values = self.lift(execution_result)?;', 'let transformed_values = match self.lift(execution_result) { Ok(v) => v, Err(_) => VecDeque::new() };',
     'C17.extractor.run.lift_error_returned_nothing_else_called'),
    ('H01 analyze: locals renamed', X,
     ['let extractor = self.disassemble()?;\n        let extractor = extractor.prepare_vm()?;', 'let extractor = extractor.execute()?;'],
     ['let stage1 = self.disassemble()?;\n        let extractor = stage1.prepare_vm()?;', 'let extractor = extractor.execute()?;'], None),
    ('H02 prepare_vm: independent lets reordered', X,
     '                let tc_config = old_state.tc_config;\n                let watchdog = old_state.watchdog;\n                let vm = VM::new',
     '                let watchdog = old_state.watchdog;\n                let tc_config = old_state.tc_config;\n                let vm = VM::new', None),
    ('H03 run: explicit match instead of `?`', T,
     'self.infer()?;', 'match self.infer() { Ok(()) => (), Err(e) => return Err(e) };', None),
    ('H04 disassemble: lets inlined into the struct literal', X,
     '                let vm_config = old_state.vm_config;\n                let tc_config = old_state.tc_config;\n                let watchdog = old_state.watchdog;\n                Ok(state::DisassemblyComplete {\n                    bytecode,\n                    vm_config,\n                    tc_config,\n                    watchdog,\n                })',
     '                Ok(state::DisassemblyComplete {\n                    bytecode,\n                    vm_config: old_state.vm_config,\n                    tc_config: old_state.tc_config,\n                    watchdog: old_state.watchdog,\n                })', None),
    ('H05 execute: closure parameter renamed', X,
     '            self.transform_state(|mut old_state| {\n                old_state.vm.execute()?;\n                let execution_result = old_state.vm.consume();\n                let tc_config = old_state.tc_config;\n                let watchdog = old_state.watchdog;',
     '            self.transform_state(|mut ready| {\n                ready.vm.execute()?;\n                let execution_result = ready.vm.consume();\n                let tc_config = ready.tc_config;\n                let watchdog = ready.watchdog;', None),
    ('H06 analyze: explicit match instead of `?` on infer, clone inlined', X,
     '        let extractor = extractor.infer()?;\n        let layout = extractor.layout();\n\n        Ok(layout.clone())',
     '        let extractor = match extractor.infer() { Ok(x) => x, Err(e) => return Err(e) };\n        Ok(extractor.layout().clone())', None),
    ('H07 infer: explicit match with From instead of `?`', X,
     'let layout = old_state.engine.run(old_state.execution_result)?;',
     'let layout = match old_state.engine.run(old_state.execution_result) { Ok(l) => l, Err(e) => return Err(error::Errors::from(e)) };', None),
]


def run(name, path, old, new, want):
    subprocess.run(['git', '-C', WT, 'checkout', '--', '.'], check=True)
    p = f'{WT}/{path}'
    s = open(p).read()
    pairs = list(zip(old, new)) if isinstance(old, list) else [(old, new)]
    for o, n in pairs:
        assert s.count(o) == 1, (name, o, s.count(o))
        s = s.replace(o, n)
    open(p, 'w').write(s)
    t0 = time.time()
    r = subprocess.run(['python3', '/verif/vx/vx.py', 'unit', 'extractor', '--raw'], capture_output=True, text=True,
                       env={**os.environ, 'VX_REPO': WT}, cwd='/verif')
    out = r.stdout + r.stderr
    first = out.splitlines()[0] if out else ''
    status = first.split('status=')[1].split()[0] if 'status=' in first else '?'
    labels = sorted(set(re.findall(r"C\d\d\.extractor\.[A-Za-z0-9_.]+", out)))
    fails = [l for l in out.splitlines() if l.strip().startswith('FAIL')]
    if want is None:
        verdict = 'OK' if status == 'ok' else ('BRITTLE' if status == 'undecided' else 'FALSE-ALARM')
    else:
        hit = any(want in l for l in labels) or any(want in f for f in fails)
        verdict = 'CAUGHT' if status == 'failed' and hit else ('CAUGHT-OTHER' if status == 'failed' else 'MISSED(' + status + ')')
    print(f'{verdict:13} {name}\n              status={status} {time.time() - t0:.0f}s labels={labels[:6]}')
    if verdict not in ('OK', 'CAUGHT'):
        print('\n'.join('              ' + l[:260] for l in out.splitlines()[:8]))
    sys.stdout.flush()
    return verdict


if __name__ == '__main__':
    sel = sys.argv[1:]
    res = []
    for m in MUTS:
        if sel and not any(m[0].startswith(x) for x in sel):
            continue
        res.append((m[0], run(*m)))
    subprocess.run(['git', '-C', WT, 'checkout', '--', '.'], check=True)
    bad = [r for r in res if r[1] not in ('OK', 'CAUGHT')]
    print(f'\n{len(res)} edits, {len(bad)} not as expected')
    for b in bad:
        print('  ', b)
