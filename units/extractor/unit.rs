//@unit props=C01,C13,C17,C03
// Unit extractor — THE STAGE-CHAINING CODE: `extractor::new`, `Extractor::{transform_state, analyze, disassemble, prepare_vm, execute,
// prepare_unifier, infer, layout, engine}` (src/extractor/mod.rs), the typestate structs (src/extractor/state.rs), `TypeChecker::{new, run}`
// and `struct TypeChecker` (src/tc/mod.rs): real text, re-extracted on every run.
//
// WHAT IS CLAIMED: `analyze` returns exactly `analyze_spec(contract, vm_config, tc_config, watchdog)`: the composition, in the order
// disassemble -> VM::new -> VM::execute -> VM::consume -> TypeChecker::new -> lift -> assign_vars -> infer -> unify, of the callee
// OUTCOME FUNCTIONS (uninterpreted spec functions of the callee's arguments = the ghost call history of the by-value pipeline: the
// value names which callee produced it from which arguments), every Err being the failing stage's error converted by the `?` From
// conversion and nothing else; the configs and THE watchdog handed to `new` are the ones VM::new / TypeChecker::new get.
// `TypeChecker::run` additionally keeps a GHOST CALL LOG in the stand-in state (`state.calls()`), each stage stand-in appends itself: the
// log after `run` is exactly [lift(er), assign_vars(lift's values), infer, unify] or the prefix ending at the first failing stage.
// The `.expect` of prepare_unifier is proved unreachable (C01).
//
// STAND-INS (assumptions, each commented A-CALLEE / A-DERIVE / A-STD where declared): opaque payload types, the callees
// InstructionStream::try_from, VM::{new, execute, consume}, TypeChecker::{lift, assign_vars, infer, unify}, TypeCheckerState::empty,
// DynWatchdog::clone, Contract::bytecode, StorageLayout::clone, the four `From<..> for error::Errors` conversions.
//@dropped Extractor::{contract, state, contract_mut, state_mut, set_contract, set_state} (accessors, not used by the chain), extractor::chain, Contract::new
//@dropped the closures handed to transform_state get an explicit parameter type, result name and `ensures` (R-SIG on the closure header: Verus needs a closure's contract written on it); their bodies are the real text
//@dropped R-TRY (desugaring, as in unit vm_loop): Verus does not apply the `From` conversion of a `?` whose error type differs; the four `?` on a callee with a foreign error type are written out as `match X { Ok(v) => v, Err(e) => return Err(From::from(e)) }`, X carried over verbatim; `optional`: an edited statement goes to Verus as it is
//@dropped `unsafe fn` markers of transform_state are kept; `InstructionStream: TryFrom<&[u8]>` body (assert_eq! on re-assembled bytecode) is a stand-in, not under contract here
//@dropped termination / panics INSIDE the callees (units vm_loop, tc_loops, disassemble); VM::new panics when the instruction stream is longer than u32::MAX: its stand-in requires `fits_u32`, the try_from stand-in guarantees it for code of at most u32::MAX bytes, and `analyze` has that as a premise (FINDING: 2^32 bytes pass disassemble and panic in VM::new)
use vstd::prelude::*;

pub mod error {
use vstd::prelude::*;
verus! {
// A-CALLEE (type stand-in): error::Errors, the library's error container (opaque; unit errors speaks about its contents)
#[verifier::external_body]
pub struct Errors { _opaque: u8 }
// A-DERIVE: #[derive(Debug)] (only a bound of `Result::expect`, whose failure branch is proved unreachable)
#[verifier::external]
impl std::fmt::Debug for Errors { fn fmt(&self, _f: &mut std::fmt::Formatter<'_>) -> std::fmt::Result { unimplemented!() } }
pub type Result<T> = std::result::Result<T, Errors>;

pub mod disassembly { use vstd::prelude::*; verus! {
// A-CALLEE (type stand-in): disassembly::LocatedError
#[verifier::external_body] pub struct LocatedError { _opaque: u8 }
} }
pub mod execution { use vstd::prelude::*; verus! {
// A-CALLEE (type stand-in): execution::LocatedError (VM::new), execution::Errors (VM::execute)
#[verifier::external_body] pub struct LocatedError { _opaque: u8 }
#[verifier::external_body] pub struct Errors { _opaque: u8 }
} }
pub mod unification { use vstd::prelude::*; verus! {
// A-CALLEE (type stand-in): unification::Errors
#[verifier::external_body] pub struct Errors { _opaque: u8 }
pub type Result<T> = std::result::Result<T, Errors>;
} }

// the four conversions `?` applies in the chain, as uninterpreted functions: "the error value unchanged, converted only by From"
pub uninterp spec fn from_dis(e: disassembly::LocatedError) -> Errors;
pub uninterp spec fn from_exec1(e: execution::LocatedError) -> Errors;
pub uninterp spec fn from_execs(e: execution::Errors) -> Errors;
pub uninterp spec fn from_unif(e: unification::Errors) -> Errors;

// A-CALLEE: `impl From<disassembly::LocatedError> for error::Errors` (src/error/mod.rs; contents: unit errors) is a function of its argument
impl vstd::std_specs::convert::FromSpecImpl<disassembly::LocatedError> for Errors {
    open spec fn obeys_from_spec() -> bool { true }
    open spec fn from_spec(v: disassembly::LocatedError) -> Errors { from_dis(v) }
}
impl From<disassembly::LocatedError> for Errors { #[verifier::external_body] fn from(value: disassembly::LocatedError) -> (r: Self) { unimplemented!() } }
// A-CALLEE: `impl From<execution::LocatedError> for error::Errors`, as above
impl vstd::std_specs::convert::FromSpecImpl<execution::LocatedError> for Errors {
    open spec fn obeys_from_spec() -> bool { true }
    open spec fn from_spec(v: execution::LocatedError) -> Errors { from_exec1(v) }
}
impl From<execution::LocatedError> for Errors { #[verifier::external_body] fn from(value: execution::LocatedError) -> (r: Self) { unimplemented!() } }
// A-CALLEE: `impl From<execution::Errors> for error::Errors`, as above
impl vstd::std_specs::convert::FromSpecImpl<execution::Errors> for Errors {
    open spec fn obeys_from_spec() -> bool { true }
    open spec fn from_spec(v: execution::Errors) -> Errors { from_execs(v) }
}
impl From<execution::Errors> for Errors { #[verifier::external_body] fn from(value: execution::Errors) -> (r: Self) { unimplemented!() } }
// A-CALLEE: `impl From<unification::Errors> for error::Errors`, as above
impl vstd::std_specs::convert::FromSpecImpl<unification::Errors> for Errors {
    open spec fn obeys_from_spec() -> bool { true }
    open spec fn from_spec(v: unification::Errors) -> Errors { from_unif(v) }
}
impl From<unification::Errors> for Errors { #[verifier::external_body] fn from(value: unification::Errors) -> (r: Self) { unimplemented!() } }
} // verus!
}

pub mod watchdog {
use vstd::prelude::*;
verus! {
// A-CALLEE (type stand-in): `DynWatchdog = Rc<dyn Watchdog>`; the spec value of a handle IS the identity of the watchdog it points to
#[verifier::external_body]
pub struct DynWatchdog { _opaque: u8 }
// A-STD: Rc::clone returns a handle on the SAME watchdog
impl Clone for DynWatchdog {
    #[verifier::external_body]
    fn clone(&self) -> (r: Self) ensures r == *self { unimplemented!() }
}
// stand-in with NO contract (nothing is known about what it returns): `LazyWatchdog.in_rc()`, a way to make ANOTHER watchdog; unused by the
// code under contract, present so that an edit that substitutes a fresh watchdog reaches the verifier instead of failing to compile
pub struct LazyWatchdog;
impl LazyWatchdog {
    #[verifier::external_body]
    pub fn in_rc(self) -> DynWatchdog { unimplemented!() }
}
#[verifier::external]
impl std::fmt::Debug for DynWatchdog { fn fmt(&self, _f: &mut std::fmt::Formatter<'_>) -> std::fmt::Result { unimplemented!() } }
} // verus!
}

verus! {
// A-CALLEE (type stand-in): StorageLayout (src/layout.rs), opaque
#[verifier::external_body]
pub struct StorageLayout { _opaque: u8 }
// A-DERIVE: #[derive(Clone)] on StorageLayout yields an equal value
impl Clone for StorageLayout {
    #[verifier::external_body]
    fn clone(&self) -> (r: Self) ensures r == *self { unimplemented!() }
}
// Default with NO contract (an arbitrary layout): unused by the code under contract, lets a "default layout" edit reach the verifier
impl Default for StorageLayout { #[verifier::external_body] fn default() -> Self { unimplemented!() } }
#[verifier::external]
impl std::fmt::Debug for StorageLayout { fn fmt(&self, _f: &mut std::fmt::Formatter<'_>) -> std::fmt::Result { unimplemented!() } }
} // verus!

pub mod disassembly {
use vstd::prelude::*;
use super::error;
verus! {
// A-CALLEE (type stand-in): InstructionStream, opaque
#[verifier::external_body]
pub struct InstructionStream { _opaque: u8 }
#[verifier::external]
impl std::fmt::Debug for InstructionStream { fn fmt(&self, _f: &mut std::fmt::Formatter<'_>) -> std::fmt::Result { unimplemented!() } }
/// outcome of disassembling these bytes (ghost call history of `InstructionStream::try_from`)
pub uninterp spec fn disasm(bytes: Seq<u8>) -> std::result::Result<InstructionStream, error::disassembly::LocatedError>;
/// the stream is short enough for VM::new (<= u32::MAX instructions)
pub uninterp spec fn fits_u32(is: InstructionStream) -> bool;
// A-CALLEE: `InstructionStream::try_from(&[u8])` is a function of the bytes (contract of `disassemble`: unit disassemble, C10); a stream it
// returns has one instruction per byte (C10.dis), hence at most u32::MAX instructions IF the input has at most u32::MAX bytes.
// NOTE (finding, see analyze): disassemble's own guard `u32::try_from(offset)` admits 2^32 bytes (largest offset 2^32-1), one more than VM::new accepts
impl<'a> TryFrom<&'a [u8]> for InstructionStream {
    type Error = error::disassembly::LocatedError;
    #[verifier::external_body]
    fn try_from(value: &'a [u8]) -> (r: std::result::Result<Self, Self::Error>)
        ensures r == disasm(value@), r matches Ok(is) ==> (value@.len() <= u32::MAX ==> fits_u32(is)),
    { unimplemented!() }
}
} // verus!
}

pub mod vm {
use vstd::prelude::*;
use super::{error, disassembly::InstructionStream, watchdog::DynWatchdog};
verus! {
// A-CALLEE (type stand-ins): vm::Config, VM, ExecutionResult, opaque
#[verifier::external_body] pub struct Config { _opaque: u8 }
#[verifier::external_body] pub struct VM { _opaque: u8 }
#[verifier::external_body] pub struct ExecutionResult { _opaque: u8 }
// Default with NO contract (an arbitrary config): unused by the code under contract, lets a "default config" edit reach the verifier
impl Default for Config { #[verifier::external_body] fn default() -> Self { unimplemented!() } }
#[verifier::external] impl std::fmt::Debug for Config { fn fmt(&self, _f: &mut std::fmt::Formatter<'_>) -> std::fmt::Result { unimplemented!() } }
#[verifier::external] impl std::fmt::Debug for VM { fn fmt(&self, _f: &mut std::fmt::Formatter<'_>) -> std::fmt::Result { unimplemented!() } }
#[verifier::external] impl std::fmt::Debug for ExecutionResult { fn fmt(&self, _f: &mut std::fmt::Formatter<'_>) -> std::fmt::Result { unimplemented!() } }
/// ghost call history of the VM stand-ins: outcome functions of the arguments
pub uninterp spec fn vm_new(is: InstructionStream, config: Config, watchdog: DynWatchdog) -> std::result::Result<VM, error::execution::LocatedError>;
pub uninterp spec fn exec_res(vm: VM) -> std::result::Result<(), error::execution::Errors>;
pub uninterp spec fn exec_post(vm: VM) -> VM;
pub uninterp spec fn consumed(vm: VM) -> ExecutionResult;
impl VM {
    // A-CALLEE: `VM::new` is a function of (instructions, config, watchdog); it panics only on a stream longer than u32::MAX
    #[verifier::external_body]
    pub fn new(instructions: InstructionStream, config: Config, watchdog: DynWatchdog) -> (r: std::result::Result<Self, error::execution::LocatedError>)
        requires super::disassembly::fits_u32(instructions),
        ensures r == vm_new(instructions, config, watchdog),
    { unimplemented!() }
    // A-CALLEE: `VM::execute` (its contract - stop answers, strict-mode errors, limits - is PROVED in unit vm_loop): outcome and final VM are functions of the VM
    #[verifier::external_body]
    pub fn execute(&mut self) -> (r: std::result::Result<(), error::execution::Errors>)
        ensures r == exec_res(*old(self)), *final(self) == exec_post(*old(self)),
    { unimplemented!() }
    // A-CALLEE: `VM::consume` is a function of the VM
    #[verifier::external_body]
    pub fn consume(self) -> (r: ExecutionResult)
        ensures r == consumed(self),
    { unimplemented!() }
}
} // verus!
}

pub mod tc {
use vstd::prelude::*;
use std::collections::VecDeque;
use super::{error::unification::{Errors, Result}, vm::ExecutionResult, watchdog::DynWatchdog, StorageLayout};
verus! {
// A-CALLEE (type stand-ins): tc::Config, TypeCheckerState, RuntimeBoxedVal, opaque
#[verifier::external_body] pub struct Config { _opaque: u8 }
#[verifier::external_body] pub struct RuntimeBoxedVal { _opaque: u8 }
// Default with NO contract (an arbitrary config), as for vm::Config
impl Default for Config { #[verifier::external_body] fn default() -> Self { unimplemented!() } }
#[verifier::external] impl std::fmt::Debug for Config { fn fmt(&self, _f: &mut std::fmt::Formatter<'_>) -> std::fmt::Result { unimplemented!() } }
pub mod state { use vstd::prelude::*; verus! {
#[verifier::external_body] pub struct TypeCheckerState { _opaque: u8 }
#[verifier::external] impl std::fmt::Debug for TypeCheckerState { fn fmt(&self, _f: &mut std::fmt::Formatter<'_>) -> std::fmt::Result { unimplemented!() } }
} }
use state::TypeCheckerState;
#[verifier::external] impl std::fmt::Debug for TypeChecker { fn fmt(&self, _f: &mut std::fmt::Formatter<'_>) -> std::fmt::Result { unimplemented!() } }

/// GHOST CALL LOG of the type checker's stages
pub enum TcCall { Lift(ExecutionResult), AssignVars(VecDeque<RuntimeBoxedVal>), Infer, Unify }
pub uninterp spec fn calls(s: TypeCheckerState) -> Seq<TcCall>;
pub uninterp spec fn empty_state() -> TypeCheckerState;
/// outcome functions of the stage stand-ins
pub uninterp spec fn lift_res(t: TypeChecker, er: ExecutionResult) -> Result<VecDeque<RuntimeBoxedVal>>;
pub uninterp spec fn lift_post(t: TypeChecker, er: ExecutionResult) -> TypeCheckerState;
pub uninterp spec fn assign_res(t: TypeChecker, v: VecDeque<RuntimeBoxedVal>) -> Result<()>;
pub uninterp spec fn assign_post(t: TypeChecker, v: VecDeque<RuntimeBoxedVal>) -> TypeCheckerState;
pub uninterp spec fn infer_res(t: TypeChecker) -> Result<()>;
pub uninterp spec fn infer_post(t: TypeChecker) -> TypeCheckerState;
pub uninterp spec fn unify_res(t: TypeChecker) -> Result<StorageLayout>;
pub uninterp spec fn unify_post(t: TypeChecker) -> TypeCheckerState;

impl TypeCheckerState {
    // A-CALLEE: `TypeCheckerState::empty()` is one fixed state; nothing has been called on it
    #[verifier::external_body]
    pub fn empty() -> (r: Self) ensures r == empty_state(), calls(r) == Seq::<TcCall>::empty() { unimplemented!() }
}

// R-SIG: the three private fields are made `pub` (visibility only): Verus requires the contract of a `pub fn` to be well-formed outside the module
//@extract file=src/tc/mod.rs path="struct TypeChecker" kind=type
//@rw R-SIG
//@old
config: Config,
//@new
pub config: Config,
//@rw R-SIG
//@old
state: TypeCheckerState,
//@new
pub state: TypeCheckerState,
//@rw R-SIG
//@old
watchdog: DynWatchdog,
//@new
pub watchdog: DynWatchdog,
//@end

pub open spec fn with_state(t: TypeChecker, s: TypeCheckerState) -> TypeChecker {
    TypeChecker { config: t.config, state: s, watchdog: t.watchdog }
}
/// what `run` must be: the four stages in order, each on the checker the previous one left, first Err returned unchanged
pub open spec fn run_spec(t0: TypeChecker, er: ExecutionResult) -> (TypeChecker, Result<StorageLayout>) {
    let t1 = with_state(t0, lift_post(t0, er));
    match lift_res(t0, er) {
        Err(e) => (t1, Err(e)),
        Ok(v) => {
            let t2 = with_state(t1, assign_post(t1, v));
            match assign_res(t1, v) {
                Err(e) => (t2, Err(e)),
                Ok(_) => {
                    let t3 = with_state(t2, infer_post(t2));
                    match infer_res(t2) {
                        Err(e) => (t3, Err(e)),
                        Ok(_) => (with_state(t3, unify_post(t3)), unify_res(t3)),
                    }
                }
            }
        }
    }
}

impl TypeChecker {
    // A-CALLEE: `TypeChecker::lift` (contract PROVED in unit tc_loops): outcome and final state are functions of (checker, execution result);
    // config and watchdog untouched; the call is logged
    #[verifier::external_body]
    pub fn lift(&mut self, execution_result: ExecutionResult) -> (r: Result<VecDeque<RuntimeBoxedVal>>)
        ensures r == lift_res(*old(self), execution_result), *final(self) == with_state(*old(self), lift_post(*old(self), execution_result)),
            calls(final(self).state) == calls(old(self).state).push(TcCall::Lift(execution_result)),
    { unimplemented!() }
    // A-CALLEE: `TypeChecker::assign_vars` (unit tc_loops), as above
    #[verifier::external_body]
    pub fn assign_vars(&mut self, values: VecDeque<RuntimeBoxedVal>) -> (r: Result<()>)
        ensures r == assign_res(*old(self), values), *final(self) == with_state(*old(self), assign_post(*old(self), values)),
            calls(final(self).state) == calls(old(self).state).push(TcCall::AssignVars(values)),
    { unimplemented!() }
    // A-CALLEE: `TypeChecker::infer` (unit tc_loops), as above
    #[verifier::external_body]
    pub fn infer(&mut self) -> (r: Result<()>)
        ensures r == infer_res(*old(self)), *final(self) == with_state(*old(self), infer_post(*old(self))),
            calls(final(self).state) == calls(old(self).state).push(TcCall::Infer),
    { unimplemented!() }
    // A-CALLEE: `TypeChecker::unify` (unit tc_loops / unify), as above
    #[verifier::external_body]
    pub fn unify(&mut self) -> (r: Result<StorageLayout>)
        ensures r == unify_res(*old(self)), *final(self) == with_state(*old(self), unify_post(*old(self))),
            calls(final(self).state) == calls(old(self).state).push(TcCall::Unify),
    { unimplemented!() }

//@extract file=src/tc/mod.rs path="impl TypeChecker|fn new" id=TypeChecker::new props=C03,C13
//@ret r
//@spec
        ensures
            r.config == config,                                   //@ob C03.extractor.tc_new.config_kept
            r.watchdog == watchdog,                               //@ob C13.extractor.tc_new.same_watchdog
            r.state == empty_state(),
            calls(r.state) == Seq::<TcCall>::empty(),
//@end

//@extract file=src/tc/mod.rs path="impl TypeChecker|fn run" id=TypeChecker::run props=C13,C17,C01
//@ret r
//@spec
        ensures
            r == run_spec(*old(self), execution_result).1,        //@ob C13.extractor.run.result_is_the_chain_of_stages
            *final(self) == run_spec(*old(self), execution_result).0,
            final(self).config == old(self).config,               //@ob C03.extractor.run.config_kept
            final(self).watchdog == old(self).watchdog,           //@ob C13.extractor.run.same_watchdog
            // the call log: Ok iff all four stages ran, in this order, on these arguments
            r is Ok ==> (lift_res(*old(self), execution_result) matches Ok(v) && calls(final(self).state) == calls(old(self).state)
                .push(TcCall::Lift(execution_result)).push(TcCall::AssignVars(v)).push(TcCall::Infer).push(TcCall::Unify)),   //@ob C13.extractor.run.ok_only_after_all_four_stages_in_order
            r is Ok ==> r == unify_res(with_state(*old(self), lift_post(*old(self), execution_result)).after_assign_infer(lift_res(*old(self), execution_result)->Ok_0)),   //@ob C13.extractor.run.layout_is_unifys
            // first Err returned unchanged, later stages not called
            lift_res(*old(self), execution_result) matches Err(e) ==> r == Err::<StorageLayout, Errors>(e)
                && calls(final(self).state) == calls(old(self).state).push(TcCall::Lift(execution_result)),                   //@ob C17.extractor.run.lift_error_returned_nothing_else_called
            r is Err ==> {
                let n = calls(final(self).state).len() - calls(old(self).state).len();
                &&& 1 <= n <= 4
                &&& calls(final(self).state).take(calls(old(self).state).len() as int) == calls(old(self).state)
                &&& calls(final(self).state).last() == (if n == 1 { TcCall::Lift(execution_result) } else if n == 2 { TcCall::AssignVars(lift_res(*old(self), execution_result)->Ok_0) } else if n == 3 { TcCall::Infer } else { TcCall::Unify })
            },                                                    //@ob C17.extractor.run.err_is_the_last_called_stages
//@end
}

impl TypeChecker {
    /// the checker after assign_vars and infer (spec helper for the clause `layout_is_unifys`)
    pub open spec fn after_assign_infer(self, v: VecDeque<RuntimeBoxedVal>) -> TypeChecker {
        let t2 = with_state(self, assign_post(self, v));
        with_state(t2, infer_post(t2))
    }
}
} // verus!
}

pub mod extractor {
use vstd::prelude::*;
use super::{disassembly::{self, InstructionStream}, error, tc, tc::TypeChecker, vm, vm::VM, watchdog::DynWatchdog, StorageLayout};
use contract::Contract;
use state::State;

pub mod contract { use vstd::prelude::*; verus! {
// A-CALLEE (type stand-in): Contract, opaque; `code` = its bytecode
#[verifier::external_body] pub struct Contract { _opaque: u8 }
pub uninterp spec fn code(c: Contract) -> Seq<u8>;
impl Contract {
    // A-CALLEE: `Contract::bytecode` returns the contract's bytes
    #[verifier::external_body]
    pub fn bytecode(&self) -> (r: &Vec<u8>) ensures r@ == code(*self) { unimplemented!() }
}
} }

pub mod state {
use vstd::prelude::*;
use std::fmt::Debug;
use super::super::{disassembly::InstructionStream, tc, tc::TypeChecker, vm, vm::{ExecutionResult, VM}, watchdog::DynWatchdog, StorageLayout};
verus! {
//@extract file=src/extractor/state.rs path="trait State" kind=type
//@end
//@extract file=src/extractor/state.rs path="struct HasContract" kind=type
//@end
impl State for HasContract {}
//@extract file=src/extractor/state.rs path="struct DisassemblyComplete" kind=type
//@end
impl State for DisassemblyComplete {}
//@extract file=src/extractor/state.rs path="struct VMReady" kind=type
//@end
impl State for VMReady {}
//@extract file=src/extractor/state.rs path="struct ExecutionComplete" kind=type
//@end
impl State for ExecutionComplete {}
//@extract file=src/extractor/state.rs path="struct InferenceReady" kind=type
//@end
impl State for InferenceReady {}
//@extract file=src/extractor/state.rs path="struct InferenceComplete" kind=type
//@end
impl State for InferenceComplete {}
// A-DERIVE: #[derive(Debug)] on the six state structs (bound of `State`; never called)
#[verifier::external] impl Debug for HasContract { fn fmt(&self, _f: &mut std::fmt::Formatter<'_>) -> std::fmt::Result { unimplemented!() } }
#[verifier::external] impl Debug for DisassemblyComplete { fn fmt(&self, _f: &mut std::fmt::Formatter<'_>) -> std::fmt::Result { unimplemented!() } }
#[verifier::external] impl Debug for VMReady { fn fmt(&self, _f: &mut std::fmt::Formatter<'_>) -> std::fmt::Result { unimplemented!() } }
#[verifier::external] impl Debug for ExecutionComplete { fn fmt(&self, _f: &mut std::fmt::Formatter<'_>) -> std::fmt::Result { unimplemented!() } }
#[verifier::external] impl Debug for InferenceReady { fn fmt(&self, _f: &mut std::fmt::Formatter<'_>) -> std::fmt::Result { unimplemented!() } }
#[verifier::external] impl Debug for InferenceComplete { fn fmt(&self, _f: &mut std::fmt::Formatter<'_>) -> std::fmt::Result { unimplemented!() } }
} // verus!
}

verus! {
// A-DERIVE: Debug on Extractor<S> (bound of `Result::expect`, whose failure branch is proved unreachable)
#[verifier::external]
impl<S: State> std::fmt::Debug for Extractor<S> { fn fmt(&self, _f: &mut std::fmt::Formatter<'_>) -> std::fmt::Result { unimplemented!() } }

// R-SIG: the two private fields are made `pub` (visibility only), as for TypeChecker
//@extract file=src/extractor/mod.rs path="struct Extractor" kind=type
//@rw R-SIG
//@old
contract: Contract,
//@new
pub contract: Contract,
//@rw R-SIG
//@old
state: S,
//@new
pub state: S,
//@end

// ---------------- what each stage must be (from the property statements), as functions of the callee outcome functions ----------------
pub open spec fn disassemble_spec(c: Contract, s: state::HasContract) -> error::Result<Extractor<state::DisassemblyComplete>> {
    match disassembly::disasm(contract::code(c)) {
        Err(e) => Err(error::from_dis(e)),
        Ok(is) => Ok(Extractor { contract: c, state: state::DisassemblyComplete { bytecode: is, vm_config: s.vm_config, tc_config: s.tc_config, watchdog: s.watchdog } }),
    }
}
pub open spec fn prepare_vm_spec(c: Contract, s: state::DisassemblyComplete) -> error::Result<Extractor<state::VMReady>> {
    match vm::vm_new(s.bytecode, s.vm_config, s.watchdog) {
        Err(e) => Err(error::from_exec1(e)),
        Ok(m) => Ok(Extractor { contract: c, state: state::VMReady { vm: m, tc_config: s.tc_config, watchdog: s.watchdog } }),
    }
}
pub open spec fn execute_spec(c: Contract, s: state::VMReady) -> error::Result<Extractor<state::ExecutionComplete>> {
    match vm::exec_res(s.vm) {
        Err(e) => Err(error::from_execs(e)),
        Ok(_) => Ok(Extractor { contract: c, state: state::ExecutionComplete { execution_result: vm::consumed(vm::exec_post(s.vm)), tc_config: s.tc_config, watchdog: s.watchdog } }),
    }
}
pub open spec fn fresh_checker(tc_config: tc::Config, watchdog: DynWatchdog) -> TypeChecker {
    TypeChecker { config: tc_config, state: tc::empty_state(), watchdog }
}
pub open spec fn prepare_unifier_spec(c: Contract, s: state::ExecutionComplete) -> Extractor<state::InferenceReady> {
    Extractor { contract: c, state: state::InferenceReady { engine: fresh_checker(s.tc_config, s.watchdog), watchdog: s.watchdog, execution_result: s.execution_result } }
}
pub open spec fn infer_spec(c: Contract, s: state::InferenceReady) -> error::Result<Extractor<state::InferenceComplete>> {
    match tc::run_spec(s.engine, s.execution_result).1 {
        Err(e) => Err(error::from_unif(e)),
        Ok(l) => Ok(Extractor { contract: c, state: state::InferenceComplete { engine: tc::run_spec(s.engine, s.execution_result).0, layout: l } }),
    }
}
/// the VM that `analyze` executes (None: disassembly or VM::new failed), built from the configured vm_config and THE watchdog
pub open spec fn started_vm(c: Contract, vm_config: vm::Config, watchdog: DynWatchdog) -> Option<VM> {
    match disassembly::disasm(contract::code(c)) {
        Err(_) => None,
        Ok(is) => match vm::vm_new(is, vm_config, watchdog) { Err(_) => None, Ok(m) => Some(m) },
    }
}
/// C17: if the VM `analyze` starts reports errors, `r` is exactly those errors (converted by `?` only)
pub open spec fn execution_error_returned(c: Contract, vm_config: vm::Config, watchdog: DynWatchdog, r: error::Result<StorageLayout>) -> bool {
    match started_vm(c, vm_config, watchdog) {
        Some(m) => match vm::exec_res(m) { Err(e) => r == Err::<StorageLayout, error::Errors>(error::from_execs(e)), Ok(_) => true },
        None => true,
    }
}
/// C17: if execution succeeded and the type checker (built from tc_config and THE watchdog, run on the consumed result of the executed VM) fails, `r` is its error
pub open spec fn type_checker_error_returned(c: Contract, vm_config: vm::Config, tc_config: tc::Config, watchdog: DynWatchdog, r: error::Result<StorageLayout>) -> bool {
    match started_vm(c, vm_config, watchdog) {
        Some(m) => match vm::exec_res(m) {
            Ok(_) => match tc::run_spec(fresh_checker(tc_config, watchdog), vm::consumed(vm::exec_post(m))).1 {
                Err(e) => r == Err::<StorageLayout, error::Errors>(error::from_unif(e)),
                Ok(_) => true },
            Err(_) => true },
        None => true,
    }
}
/// THE ANALYSIS: every stage in order, each on what the previous one produced; the first Err (converted by `?` only) is the result
pub open spec fn analyze_spec(c: Contract, vm_config: vm::Config, tc_config: tc::Config, watchdog: DynWatchdog) -> error::Result<StorageLayout> {
    match disassembly::disasm(contract::code(c)) {
        Err(e) => Err(error::from_dis(e)),
        Ok(is) => match vm::vm_new(is, vm_config, watchdog) {
            Err(e) => Err(error::from_exec1(e)),
            Ok(m) => match vm::exec_res(m) {
                Err(e) => Err(error::from_execs(e)),
                Ok(_) => match tc::run_spec(fresh_checker(tc_config, watchdog), vm::consumed(vm::exec_post(m))).1 {
                    Err(e) => Err(error::from_unif(e)),
                    Ok(l) => Ok(l),
                },
            },
        },
    }
}

//@extract file=src/extractor/mod.rs path="fn new" id=extractor::new props=C03,C13
//@ret r
//@spec
    ensures
        r.contract == contract,
        r.state.vm_config == vm_config,                           //@ob C03.extractor.new.vm_config_kept
        r.state.tc_config == tc_config,                           //@ob C03.extractor.new.tc_config_kept
        r.state.watchdog == watchdog,                             //@ob C13.extractor.new.same_watchdog
//@end

//@extract file=src/extractor/mod.rs path="impl<S: State> Extractor<S>#2" kind=header
//@end
//@extract file=src/extractor/mod.rs path="impl<S: State> Extractor<S>#2|fn transform_state" id=Extractor::transform_state props=C01,C13,C17
//@ret r
//@spec
        requires
            transform.requires((self.state,)),
        ensures
            r matches Ok(x) ==> x.contract == self.contract && transform.ensures((self.state,), Ok(x.state)),   //@ob C13.extractor.transform_state.ok_is_the_transforms_state
            r matches Err(e) ==> transform.ensures((self.state,), Err(e)),                                      //@ob C17.extractor.transform_state.err_is_the_transforms_error
//@end
}

//@extract file=src/extractor/mod.rs path="impl Extractor<state::HasContract>" kind=header
//@end
//@extract file=src/extractor/mod.rs path="impl Extractor<state::HasContract>|fn analyze" id=Extractor::analyze props=C01,C13,C17,C03
//@ret r
//@spec
        requires
            // C01 PREMISE = FINDING: with exactly 2^32 bytes of code (64-bit host) `disassemble` succeeds (every offset 0..2^32-1 fits u32) and
            // `VM::new` then panics ("Instruction length should not exceed 4294967295": len = 2^32 does not fit u32). Without this premise the
            // precondition of prepare_vm (VM::new's `fits_u32`) is not provable.
            contract::code(self.contract).len() <= u32::MAX,
        ensures
            r == analyze_spec(self.contract, self.state.vm_config, self.state.tc_config, self.state.watchdog),   //@ob C13.extractor.analyze.result_is_the_chain_of_all_stages
            r is Ok ==> disassembly::disasm(contract::code(self.contract)) is Ok,                                //@ob C13.extractor.analyze.ok_only_if_disassembly_ok
            r matches Ok(l) ==> (disassembly::disasm(contract::code(self.contract)) matches Ok(is) && vm::vm_new(is, self.state.vm_config, self.state.watchdog) matches Ok(m)
                && vm::exec_res(m) is Ok
                && tc::run_spec(fresh_checker(self.state.tc_config, self.state.watchdog), vm::consumed(vm::exec_post(m))).1 == Ok::<StorageLayout, error::unification::Errors>(l)),   //@ob C13.extractor.analyze.layout_only_from_complete_work
            // C17: an Err of VM::execute / of the type checker is what comes back
            execution_error_returned(self.contract, self.state.vm_config, self.state.watchdog, r),                         //@ob C17.extractor.analyze.execution_errors_returned
            type_checker_error_returned(self.contract, self.state.vm_config, self.state.tc_config, self.state.watchdog, r),   //@ob C17.extractor.analyze.type_checker_errors_returned
//@end

//@extract file=src/extractor/mod.rs path="impl Extractor<state::HasContract>|fn disassemble" id=Extractor::disassemble props=C01,C13,C03
//@ret r
//@rw R-TRY optional
//@old
InstructionStream::try_from($1)?;
//@new
match InstructionStream::try_from($1) { Ok(v) => v, Err(e) => return Err(From::from(e)) };
//@rw R-SIG
//@old
self.transform_state(|$1| {
//@new
self.transform_state(|$1: state::HasContract| -> (cr: error::Result<state::DisassemblyComplete>)
    ensures cr == Ok::<state::DisassemblyComplete, error::Errors>(state::DisassemblyComplete { bytecode, vm_config: $1.vm_config, tc_config: $1.tc_config, watchdog: $1.watchdog })   //@ob C03.extractor.disassemble.state_carried_over
{
//@spec
        ensures
            r == disassemble_spec(self.contract, self.state),     //@ob C13.extractor.disassemble.result
            r matches Ok(x) ==> (contract::code(self.contract).len() <= u32::MAX ==> disassembly::fits_u32(x.state.bytecode)),
//@end
}

//@extract file=src/extractor/mod.rs path="impl Extractor<state::DisassemblyComplete>" kind=header
//@end
//@extract file=src/extractor/mod.rs path="impl Extractor<state::DisassemblyComplete>|fn prepare_vm" id=Extractor::prepare_vm props=C01,C13,C03
//@ret r
//@rw R-TRY optional
//@old
VM::new($1)?;
//@new
match VM::new($1) { Ok(v) => v, Err(e) => return Err(From::from(e)) };
//@rw R-SIG
//@old
self.transform_state(|$1| {
//@new
self.transform_state(|$1: state::DisassemblyComplete| -> (cr: error::Result<state::VMReady>)
    requires disassembly::fits_u32($1.bytecode)
    ensures cr == (match vm::vm_new($1.bytecode, $1.vm_config, $1.watchdog) {
        Err(e) => Err::<state::VMReady, error::Errors>(error::from_exec1(e)),
        Ok(m) => Ok(state::VMReady { vm: m, tc_config: $1.tc_config, watchdog: $1.watchdog }) })   //@ob C13.extractor.prepare_vm.vm_built_from_given_stream_config_watchdog
{
//@spec
        requires
            disassembly::fits_u32(self.state.bytecode),
        ensures
            r == prepare_vm_spec(self.contract, self.state),      //@ob C13.extractor.prepare_vm.result
            r matches Ok(x) ==> vm::vm_new(self.state.bytecode, self.state.vm_config, self.state.watchdog) == Ok::<VM, error::execution::LocatedError>(x.state.vm),   //@ob C03.extractor.prepare_vm.vm_gets_the_configured_limits
            r matches Ok(x) ==> x.state.tc_config == self.state.tc_config,   //@ob C03.extractor.prepare_vm.tc_config_kept
            r matches Ok(x) ==> x.state.watchdog == self.state.watchdog,     //@ob C13.extractor.prepare_vm.same_watchdog_kept
//@end
}

//@extract file=src/extractor/mod.rs path="impl Extractor<state::VMReady>" kind=header
//@end
//@extract file=src/extractor/mod.rs path="impl Extractor<state::VMReady>|fn execute" id=Extractor::execute props=C01,C13,C17
//@ret r
//@rw R-TRY optional
//@old
| { $1.vm.execute()?;
//@new
| { match $1.vm.execute() { Ok(v) => v, Err(e) => return Err(From::from(e)) };
//@rw R-SIG
//@old
self.transform_state(|mut $1| {
//@new
self.transform_state(|mut $1: state::VMReady| -> (cr: error::Result<state::ExecutionComplete>)
    ensures cr == (match vm::exec_res($1.vm) {
        Err(e) => Err::<state::ExecutionComplete, error::Errors>(error::from_execs(e)),
        Ok(_) => Ok(state::ExecutionComplete { execution_result: vm::consumed(vm::exec_post($1.vm)), tc_config: $1.tc_config, watchdog: $1.watchdog }) })   //@ob C17.extractor.execute.error_returned_else_consumed_result_of_the_executed_vm
{
//@spec
        ensures
            r == execute_spec(self.contract, self.state),         //@ob C13.extractor.execute.result
            r matches Ok(x) ==> x.state.tc_config == self.state.tc_config,   //@ob C03.extractor.execute.tc_config_kept
            r matches Ok(x) ==> x.state.watchdog == self.state.watchdog,     //@ob C13.extractor.execute.same_watchdog_kept
            r is Ok <==> vm::exec_res(self.state.vm) is Ok,                  //@ob C17.extractor.execute.ok_iff_vm_execute_ok
//@end
}

//@extract file=src/extractor/mod.rs path="impl Extractor<state::ExecutionComplete>" kind=header
//@end
//@extract file=src/extractor/mod.rs path="impl Extractor<state::ExecutionComplete>|fn prepare_unifier" id=Extractor::prepare_unifier props=C01,C13,C03
//@ret r
//@rw R-SIG
//@old
self.transform_state(|$1| {
//@new
self.transform_state(|$1: state::ExecutionComplete| -> (cr: error::Result<state::InferenceReady>)
    ensures cr == Ok::<state::InferenceReady, error::Errors>(state::InferenceReady { engine: fresh_checker($1.tc_config, $1.watchdog), watchdog: $1.watchdog, execution_result: $1.execution_result })   //@ob C01.extractor.prepare_unifier.closure_never_fails_and_checker_gets_given_config_watchdog
{
//@spec
        ensures
            r == prepare_unifier_spec(self.contract, self.state), //@ob C13.extractor.prepare_unifier.result
            r.state.engine.config == self.state.tc_config,        //@ob C03.extractor.prepare_unifier.checker_gets_the_configured_limits
            r.state.engine.watchdog == self.state.watchdog,       //@ob C13.extractor.prepare_unifier.checker_gets_the_same_watchdog
//@end
}

//@extract file=src/extractor/mod.rs path="impl Extractor<state::InferenceReady>" kind=header
//@end
//@extract file=src/extractor/mod.rs path="impl Extractor<state::InferenceReady>|fn infer" id=Extractor::infer props=C01,C13,C17
//@ret r
//@rw R-TRY optional
//@old
= $1.engine.run($2)?;
//@new
= match $1.engine.run($2) { Ok(v) => v, Err(e) => return Err(From::from(e)) };
//@rw R-SIG
//@old
self.transform_state(|mut $1| {
//@new
self.transform_state(|mut $1: state::InferenceReady| -> (cr: error::Result<state::InferenceComplete>)
    ensures cr == (match tc::run_spec($1.engine, $1.execution_result).1 {
        Err(e) => Err::<state::InferenceComplete, error::Errors>(error::from_unif(e)),
        Ok(l) => Ok(state::InferenceComplete { engine: tc::run_spec($1.engine, $1.execution_result).0, layout: l }) })   //@ob C17.extractor.infer.error_returned_else_the_layout_run_produced
{
//@spec
        ensures
            r == infer_spec(self.contract, self.state),           //@ob C13.extractor.infer.result
            r is Ok <==> tc::run_spec(self.state.engine, self.state.execution_result).1 is Ok,   //@ob C17.extractor.infer.ok_iff_run_ok
//@end
}

//@extract file=src/extractor/mod.rs path="impl Extractor<state::InferenceComplete>" kind=header
//@end
//@extract file=src/extractor/mod.rs path="impl Extractor<state::InferenceComplete>|fn engine" id=Extractor::engine props=C13
//@ret r
//@spec
        ensures *r == self.state.engine,                          //@ob C13.extractor.engine.is_the_states
//@end
//@extract file=src/extractor/mod.rs path="impl Extractor<state::InferenceComplete>|fn layout" id=Extractor::layout props=C13
//@ret r
//@spec
        ensures *r == self.state.layout,                          //@ob C13.extractor.layout.is_the_states
//@end
}
} // verus!
}

fn main() {}
