//@unit props=C07,C01,C08
// Unit stack — src/vm/state/stack.rs against the EVM stack as a sequence (C07 stack manipulation),
// the located handle (C17: errors carry the handle's instruction pointer), DUPn/SWAPn from
// src/opcode/memory.rs composed through the real handle and stack code, and panic-freedom of all
// of them (C01).
use vstd::prelude::*;
//@dropped stack.rs: `impl From<Stack> for Vec<RuntimeBoxedVal>` (a move of the field), derived Clone/Default/Eq/Debug of Stack and LocatedStackHandle, the #[cfg(test)] module
//@dropped memory.rs DupN/SwapN: min_gas_cost, arg_count, as_text_code (format!), as_byte — not part of the stack semantics; all other opcodes of memory.rs
//@dropped container.rs: Display for Located (hex::encode, write!), Errors<E> container; execution.rs: Display via thiserror
//@dropped the real VM::stack_handle / current_thread_mut (VecDeque<VMThread>): used through the A-CALLEE contract of the abstract VM only

verus! {
// ---- element type ---------------------------------------------------------------------------------
// A-CALLEE (type stand-in): `RuntimeBoxedVal = Arc<SymbolicValue<..>>` is an opaque element; the stack
// code only moves and clones it.  A-DERIVE: Arc::clone returns an equal value.
#[verifier::external_body]
pub struct RuntimeBoxedVal { _opaque: u8 }
impl Clone for RuntimeBoxedVal {
    #[verifier::external_body]
    fn clone(&self) -> (r: Self) ensures r == *self { unimplemented!() }
}
// A-CALLEE (type stand-in): payload type of Error::InvalidOffsetForJump, never built here
#[verifier::external_body]
pub struct KnownWord { _opaque: u8 }

} // verus!

pub mod container {
use vstd::prelude::*;
verus! {
//@include stack/container_items.rs
} // verus!
}

pub mod execution {
use vstd::prelude::*;
use super::{container, KnownWord};
verus! {
//@include stack/execution_items.rs
} // verus!
}
use container::Locatable;
use execution::{Error, Result};

verus! {
//@include stack/stack_items.rs

// ---- abstract VM: only what DUPn / SWAPn touch ------------------------------------------------------
/// A-CALLEE (type stand-in for `VM`): the current thread (if any) with its instruction pointer and
/// stack, and the code length.  Everything else of the real VM is out of sight of DUPn/SWAPn.
pub struct VM {
    pub cur: Option<CurrentThread>,
    pub code_len: u32,
}
pub struct CurrentThread { pub ip: u32, pub stack: Stack }
impl VM {
    pub open spec fn has_thread(&self) -> bool { self.cur is Some }
    pub open spec fn ip(&self) -> u32 { self.cur->Some_0.ip }
    pub open spec fn stack(&self) -> Seq<RuntimeBoxedVal> { self.cur->Some_0.stack@ }
    /// everything but the current thread's stack
    pub open spec fn same_but_stack(&self, o: &VM) -> bool {
        self.has_thread() == o.has_thread() && self.code_len == o.code_len && (self.has_thread() ==> self.ip() == o.ip())
    }
    // A-CALLEE: VM::stack_handle (src/vm/mod.rs) = `current_thread_mut().map(|t| t.state_mut().stack_mut()
    // .new_located(ip))`: a handle on the current thread's stack carrying the current thread's instruction
    // pointer, Err(NoSuchThread) when the queue is empty; nothing else changes.  `wf`: every Stack in a
    // VMState was made by Stack::new and changed only through the methods above, which keep wf
    // (C07.stack.*.wf); the field is private.
    #[verifier::external_body]
    pub fn stack_handle(&mut self) -> (r: Result<LocatedStackHandle<'_>>)
        ensures
            old(self).has_thread() ==> r is Ok,
            r is Ok ==> old(self).has_thread() && r->Ok_0.ip() == old(self).ip() && r->Ok_0.cur() == old(self).stack() && r->Ok_0.wf()
                && final(self).same_but_stack(old(self)) && final(self).stack() == r->Ok_0.fin(),
            r is Err ==> *final(self) == *old(self) && r->Err_0.payload is NoSuchThread,
    { unimplemented!() }
}
//@extract file=src/opcode/mod.rs path="type ExecuteResult" kind=type
//@end
/// A-CALLEE (trait stand-in): `Opcode` reduced to the one method under contract
pub trait Opcode {
    fn execute(&self, vm: &mut VM) -> ExecuteResult;
}

/// sanity of the EVM-side definitions for every n the EVM has
pub proof fn lemma_evm_dup_swap_shape<T>(s: Seq<T>, n: int)
    requires 1 <= n <= 16,
    ensures
        n <= s.len() ==> evm_dup(s, n).len() == s.len() + 1 && evm_dup(s, n).last() == s[s.len() - n] && evm_dup(s, n).drop_last() =~= s,
        n + 1 <= s.len() ==> evm_swap(s, n).len() == s.len() && evm_swap(s, n)[s.len() - 1] == s[s.len() - 1 - n] && evm_swap(s, n)[s.len() - 1 - n] == s[s.len() - 1]
            && forall|i: int| 0 <= i < s.len() - 1 - n || s.len() - 1 - n < i < s.len() - 1 ==> evm_swap(s, n)[i] == s[i],
{
}

} // verus!

pub mod disassembly {
use vstd::prelude::*;
verus! {
//@extract file=src/error/disassembly.rs path="enum Error" kind=type id=disassembly::Error
//@end
} // verus!
}

pub mod memory {
use vstd::prelude::*;
use super::{disassembly, evm_dup, evm_swap, execution::Error, ExecuteResult, Opcode, EVM_STACK_LIMIT, VM};
verus! {
//@extract file=src/opcode/memory.rs path="struct DupN" kind=type
//@end
impl DupN {
    /// DUPn exists for 1 <= n <= 16 only (checked where it is built: `new`)
    #[verifier::type_invariant]
    pub closed spec fn inv(self) -> bool { 0 < self.item <= 16 }
    pub closed spec fn nv(&self) -> int { self.item as int }
}
//@extract file=src/opcode/memory.rs path="impl DupN" kind=header
//@end
//@extract file=src/opcode/memory.rs path="impl DupN|fn new"
//@ret r
//@spec
        ensures
            r is Ok == (1 <= n <= 16),                  //@ob C07.stack.dupn_new.range
            r is Ok ==> r->Ok_0.nv() == n,              //@ob C07.stack.dupn_new.keeps_n
//@end
//@extract file=src/opcode/memory.rs path="impl DupN|fn n"
//@ret r
//@spec
        ensures r == self.nv(), 1 <= r <= 16,           //@ob C07.stack.dupn_n.in_range
//@proof entry
        proof { use_type_invariant(self); }
//@end
}
//@extract file=src/opcode/memory.rs path="impl Opcode for DupN" kind=header
//@end
//@extract file=src/opcode/memory.rs path="impl Opcode for DupN|fn execute"
//@ret r
//@spec
        ensures
            final(vm).same_but_stack(old(vm)),
            // DUPn copies the n-th item from the top (1-based), for every n in 1..=16 and every depth
            old(vm).has_thread() && self.nv() <= old(vm).stack().len() < EVM_STACK_LIMIT() ==> r is Ok && final(vm).stack() == evm_dup(old(vm).stack(), self.nv()),      //@ob C07.stack.dupn.copies_nth_item
            old(vm).has_thread() && old(vm).stack().len() < self.nv() ==> r is Err && r->Err_0.payload is NoSuchStackFrame,                                                  //@ob C07.stack.dupn.underflow_is_error
            old(vm).has_thread() && self.nv() <= old(vm).stack().len() && old(vm).stack().len() >= EVM_STACK_LIMIT() ==> r is Err && r->Err_0.payload is StackDepthExceeded, //@ob C07.stack.dupn.overflow_is_error C08.stack.dupn.overflow_ends_path
            r is Err && old(vm).has_thread() ==> final(vm).stack() == old(vm).stack() && r->Err_0.location == old(vm).ip(),                                                  //@ob C07.stack.dupn.error_unchanged C17.stack.dupn.error_located
            !old(vm).has_thread() ==> r is Err && *final(vm) == *old(vm),
//@end
}

//@extract file=src/opcode/memory.rs path="struct SwapN" kind=type
//@end
impl SwapN {
    /// SWAPn exists for 1 <= n <= 16 only (checked where it is built: `new`)
    #[verifier::type_invariant]
    pub closed spec fn inv(self) -> bool { 0 < self.item <= 16 }
    pub closed spec fn nv(&self) -> int { self.item as int }
}
//@extract file=src/opcode/memory.rs path="impl SwapN" kind=header
//@end
//@extract file=src/opcode/memory.rs path="impl SwapN|fn new"
//@ret r
//@spec
        ensures
            r is Ok == (1 <= n <= 16),                  //@ob C07.stack.swapn_new.range
            r is Ok ==> r->Ok_0.nv() == n,              //@ob C07.stack.swapn_new.keeps_n
//@end
//@extract file=src/opcode/memory.rs path="impl SwapN|fn n"
//@ret r
//@spec
        ensures r == self.nv(), 1 <= r <= 16,           //@ob C07.stack.swapn_n.in_range
//@proof entry
        proof { use_type_invariant(self); }
//@end
}
//@extract file=src/opcode/memory.rs path="impl Opcode for SwapN" kind=header
//@end
//@extract file=src/opcode/memory.rs path="impl Opcode for SwapN|fn execute"
//@ret r
//@spec
        ensures
            final(vm).same_but_stack(old(vm)),
            // SWAPn exchanges the top with the (n+1)-th item, everything else stays, for every n in 1..=16
            old(vm).has_thread() && self.nv() + 1 <= old(vm).stack().len() ==> r is Ok && final(vm).stack() == evm_swap(old(vm).stack(), self.nv()),      //@ob C07.stack.swapn.exchanges_top_with_n_plus_1
            old(vm).has_thread() && old(vm).stack().len() < self.nv() + 1 ==> r is Err && r->Err_0.payload is NoSuchStackFrame,                              //@ob C07.stack.swapn.underflow_is_error
            r is Err && old(vm).has_thread() ==> final(vm).stack() == old(vm).stack() && r->Err_0.location == old(vm).ip(),                                  //@ob C07.stack.swapn.error_unchanged C17.stack.swapn.error_located
            !old(vm).has_thread() ==> r is Err && *final(vm) == *old(vm),
//@end
}
} // verus!
}
fn main() {}
