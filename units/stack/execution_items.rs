// src/error/execution.rs (shared by units stack and control). Include inside
// `pub mod execution { use vstd::prelude::*; use super::{container, KnownWord}; verus! { .. } }`; the crate root provides `KnownWord`
// (payload of InvalidOffsetForJump) and `mod container` (container_items.rs).
// thiserror's `#[error("..")]` Display helper attributes are dropped by the extractor (R-ATTR).
//@extract file=src/error/execution.rs path="enum Error" kind=type id=execution::Error
//@end

// A-DERIVE: #[derive(Clone)] on Error returns an equal value
impl Clone for Error {
    #[verifier::external_body]
    fn clone(&self) -> (r: Self) ensures r == *self { unimplemented!() }
}

//@extract file=src/error/execution.rs path="type LocatedError" kind=type id=execution::LocatedError
//@end
//@extract file=src/error/execution.rs path="type Result" kind=type id=execution::Result
//@end
//@extract file=src/error/execution.rs path="type Errors" kind=type id=execution::Errors
//@end

//@extract file=src/error/execution.rs path="impl container::Locatable for Error" kind=header
//@end
    type Located = LocatedError;
//@extract file=src/error/execution.rs path="impl container::Locatable for Error|fn locate" id=execution::Error::locate
//@ret r
//@spec
        ensures r.location == instruction_pointer,     //@ob C17.err.locate.location
                r.payload == self,                     //@ob C17.err.locate.payload
//@end
}
