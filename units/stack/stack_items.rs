// Stack and LocatedStackHandle under contract (shared by units stack and control): items extracted
// from src/vm/state/stack.rs and src/constant.rs with the C07 sequence-model contracts.  Include inside
// verus!{} at the crate root.  In scope must be: `RuntimeBoxedVal` (Clone returning an equal value),
// `execution::{Error, Result}`, `container::Locatable`.

// A-STD: `<[T]>::swap` exchanges two in-bounds positions and touches nothing else (panics out of bounds)
pub assume_specification<T> [<[T]>::swap] (s: &mut [T], a: usize, b: usize)
    requires a < old(s)@.len(), b < old(s)@.len(),
    ensures final(s)@ == old(s)@.update(a as int, old(s)@[b as int]).update(b as int, old(s)@[a as int]);

// ---- the EVM's stack, written from the EVM definition ----------------------------------------------
/// the EVM stack limit
pub open spec fn EVM_STACK_LIMIT() -> nat { 1024 }
/// the k-th item from the top, 1-based as in the EVM's DUPk / SWAPk
pub open spec fn item<T>(s: Seq<T>, k: int) -> T { s[s.len() - k] }
/// DUPn: push a copy of the n-th item
pub open spec fn evm_dup<T>(s: Seq<T>, n: int) -> Seq<T> { s.push(item(s, n)) }
/// SWAPn: exchange the 1st and the (n+1)-th item, nothing else moves
pub open spec fn evm_swap<T>(s: Seq<T>, n: int) -> Seq<T> {
    Seq::new(s.len(), |i: int| if i == s.len() - 1 { item(s, n + 1) } else if i == s.len() - 1 - n { item(s, 1) } else { s[i] })
}

//@extract file=src/constant.rs path="const MAXIMUM_STACK_DEPTH" kind=type
//@end

//@extract file=src/vm/state/stack.rs path="struct Stack" kind=type
//@end

impl Stack {
    /// the model: bottom of the stack first, top of the stack last
    pub closed spec fn view(&self) -> Seq<RuntimeBoxedVal> { self.data@ }
    /// representation invariant: never deeper than the EVM allows
    pub open spec fn wf(&self) -> bool { self@.len() <= EVM_STACK_LIMIT() }
}

//@extract file=src/vm/state/stack.rs path="type StackResult" kind=type
//@end

//@extract file=src/vm/state/stack.rs path="impl Stack" kind=header
//@end

//@extract file=src/vm/state/stack.rs path="impl Stack|fn new"
//@ret r
//@spec
        ensures
            r@ == Seq::<RuntimeBoxedVal>::empty(),      //@ob C07.stack.new.empty
            r.wf(),                                      //@ob C07.stack.new.wf
//@end

//@extract file=src/vm/state/stack.rs path="impl Stack|fn push"
//@ret r
//@spec
        requires old(self).wf(),
        ensures
            old(self)@.len() < EVM_STACK_LIMIT() ==> r is Ok && final(self)@ == old(self)@.push(data),                                     //@ob C07.stack.push.ok_pushes
            old(self)@.len() >= EVM_STACK_LIMIT() ==> r is Err && r->Err_0 is StackDepthExceeded,                                          //@ob C07.stack.push.limit_is_error C08.stack.push.overflow_ends_path
            r is Err ==> final(self)@ == old(self)@,                                                                                         //@ob C07.stack.push.error_unchanged
            final(self).wf(),                                                                                                                //@ob C07.stack.push.wf
//@end

//@extract file=src/vm/state/stack.rs path="impl Stack|fn pop"
//@ret r
//@spec
        ensures
            old(self)@.len() > 0 ==> r == Ok::<RuntimeBoxedVal, Error>(old(self)@.last()) && final(self)@ == old(self)@.drop_last(),      //@ob C07.stack.pop.ok_pops_top
            old(self)@.len() == 0 ==> r is Err && r->Err_0 is NoSuchStackFrame,                                                             //@ob C07.stack.pop.empty_is_error
            r is Err ==> final(self)@ == old(self)@,                                                                                         //@ob C07.stack.pop.error_unchanged
//@end

//@extract file=src/vm/state/stack.rs path="impl Stack|fn read"
//@ret r
//@spec
        ensures
            (depth as int) < self@.len() ==> r is Ok && *r->Ok_0 == item(self@, depth as int + 1),        //@ob C07.stack.read.ok_reads_frame
            (depth as int) >= self@.len() ==> r is Err && r->Err_0 is NoSuchStackFrame,                   //@ob C07.stack.read.missing_is_error
//@end

//@extract file=src/vm/state/stack.rs path="impl Stack|fn duplicate"
//@ret r
//@spec
        requires old(self).wf(),
        ensures
            (frame as int) < old(self)@.len() < EVM_STACK_LIMIT() ==> r is Ok && final(self)@ == evm_dup(old(self)@, frame as int + 1),   //@ob C07.stack.duplicate.ok_copies_frame
            (frame as int) >= old(self)@.len() ==> r is Err && r->Err_0 is NoSuchStackFrame,                                                //@ob C07.stack.duplicate.missing_is_error
            (frame as int) < old(self)@.len() && old(self)@.len() >= EVM_STACK_LIMIT() ==> r is Err && r->Err_0 is StackDepthExceeded,      //@ob C07.stack.duplicate.limit_is_error C08.stack.duplicate.overflow_ends_path
            r is Err ==> final(self)@ == old(self)@,                                                                                         //@ob C07.stack.duplicate.error_unchanged
            final(self).wf(),                                                                                                                //@ob C07.stack.duplicate.wf
//@end

//@extract file=src/vm/state/stack.rs path="impl Stack|fn swap"
//@ret r
//@spec
        ensures
            (frame as int) < old(self)@.len() ==> r is Ok && final(self)@ =~= evm_swap(old(self)@, frame as int),      //@ob C07.stack.swap.ok_exchanges
            r is Ok ==> final(self)@.len() == old(self)@.len() && forall|i: int| 0 <= i < old(self)@.len() && i != old(self)@.len() - 1 && i != old(self)@.len() - 1 - frame ==> final(self)@[i] == old(self)@[i],      //@ob C07.stack.swap.everything_else_unchanged
            (frame as int) >= old(self)@.len() ==> r is Err && r->Err_0 is NoSuchStackFrame,                           //@ob C07.stack.swap.missing_is_error
            r is Err ==> final(self)@ == old(self)@,                                                                    //@ob C07.stack.swap.error_unchanged
//@end

//@extract file=src/vm/state/stack.rs path="impl Stack|fn depth"
//@ret r
//@spec
        ensures r == self@.len(),      //@ob C07.stack.depth.is_len
//@end

//@extract file=src/vm/state/stack.rs path="impl Stack|fn is_empty"
//@ret r
//@spec
        ensures r == (self@.len() == 0),      //@ob C07.stack.is_empty.iff_no_items
//@end

//@extract file=src/vm/state/stack.rs path="impl Stack|fn check_frame_at"
//@ret r
//@spec
        ensures
            r is Ok == ((depth as int) < self@.len()),      //@ob C07.stack.check_frame_at.ok_iff_exists
            r is Err ==> r->Err_0 is NoSuchStackFrame,      //@ob C07.stack.check_frame_at.error_kind
//@end

//@extract file=src/vm/state/stack.rs path="impl Stack|fn top_frame_index"
//@ret r
//@spec
        ensures
            self@.len() > 0 ==> r is Ok && r->Ok_0 == self@.len() - 1,      //@ob C07.stack.top_frame_index.is_last
            self@.len() == 0 ==> r is Err && r->Err_0 is NoSuchStackFrame,                 //@ob C07.stack.top_frame_index.empty_is_error
//@end

//@extract file=src/vm/state/stack.rs path="impl Stack|fn new_located"
//@ret r
//@spec
        ensures
            r.ip() == instruction_pointer,      //@ob C17.stack.new_located.ip
            r.cur() == old(self)@,              //@ob C07.stack.new_located.same_stack
            r.fin() == final(self)@,            //@ob C07.stack.new_located.writes_through
//@end

//@extract file=src/vm/state/stack.rs path="impl Stack|fn all_values"
//@ret r
//@spec
        ensures r@ == self@,      //@ob C07.stack.all_values.is_model
//@end
}

//@extract file=src/vm/state/stack.rs path="struct LocatedStackHandle" kind=type
//@end

impl<'a> LocatedStackHandle<'a> {
    /// the location every error of this handle carries
    pub closed spec fn ip(&self) -> u32 { self.instruction_pointer }
    /// the stack behind the handle, now
    pub closed spec fn cur(&self) -> Seq<RuntimeBoxedVal> { self.stack@ }
    /// the stack behind the handle when the borrow ends
    #[verifier::prophetic]
    pub closed spec fn fin(&self) -> Seq<RuntimeBoxedVal> { final(self.stack)@ }
    pub open spec fn wf(&self) -> bool { self.cur().len() <= EVM_STACK_LIMIT() }
    /// frame of every handle operation: same location, same borrowed stack
    #[verifier::prophetic]
    pub open spec fn same_handle(&self, o: &Self) -> bool { self.ip() == o.ip() && self.fin() == o.fin() }
}

/// when a handle's borrow ends, what it last showed is what the borrowed stack keeps
pub broadcast proof fn lemma_handle_resolved(h: LocatedStackHandle<'_>)
    requires #[trigger] has_resolved(h),
    ensures h.cur() == h.fin(),
{
}

//@extract file=src/vm/state/stack.rs path="impl<'a> LocatedStackHandle<'a>" kind=header
//@end

//@extract file=src/vm/state/stack.rs path="impl<'a> LocatedStackHandle<'a>|fn push" id=stack::LocatedStackHandle::push
//@ret r
//@spec
        requires old(self).wf(),
        ensures
            final(self).same_handle(old(self)), final(self).wf(),
            old(self).cur().len() < EVM_STACK_LIMIT() ==> r is Ok && final(self).cur() == old(self).cur().push(data),                      //@ob C07.stack.handle_push.ok_pushes
            old(self).cur().len() >= EVM_STACK_LIMIT() ==> r is Err && r->Err_0.payload is StackDepthExceeded,                             //@ob C07.stack.handle_push.limit_is_error
            r is Err ==> final(self).cur() == old(self).cur(),                                                                               //@ob C07.stack.handle_push.error_unchanged
            r is Err ==> r->Err_0.location == old(self).ip(),                                                                                //@ob C17.stack.handle_push.error_located
//@end

//@extract file=src/vm/state/stack.rs path="impl<'a> LocatedStackHandle<'a>|fn pop" id=stack::LocatedStackHandle::pop
//@ret r
//@spec
        ensures
            final(self).same_handle(old(self)),
            old(self).cur().len() > 0 ==> r is Ok && r->Ok_0 == old(self).cur().last() && final(self).cur() == old(self).cur().drop_last(),      //@ob C07.stack.handle_pop.ok_pops_top
            old(self).cur().len() == 0 ==> r is Err && r->Err_0.payload is NoSuchStackFrame,                                                       //@ob C07.stack.handle_pop.empty_is_error
            r is Err ==> final(self).cur() == old(self).cur(),                                                                                      //@ob C07.stack.handle_pop.error_unchanged
            r is Err ==> r->Err_0.location == old(self).ip(),                                                                                       //@ob C17.stack.handle_pop.error_located
//@end

//@extract file=src/vm/state/stack.rs path="impl<'a> LocatedStackHandle<'a>|fn read" id=stack::LocatedStackHandle::read
//@ret r
//@spec
        ensures
            (depth as int) < self.cur().len() ==> r is Ok && *r->Ok_0 == item(self.cur(), depth as int + 1),      //@ob C07.stack.handle_read.ok_reads_frame
            (depth as int) >= self.cur().len() ==> r is Err && r->Err_0.payload is NoSuchStackFrame,               //@ob C07.stack.handle_read.missing_is_error
            r is Err ==> r->Err_0.location == self.ip(),                                                            //@ob C17.stack.handle_read.error_located
//@end

//@extract file=src/vm/state/stack.rs path="impl<'a> LocatedStackHandle<'a>|fn dup" id=stack::LocatedStackHandle::dup
//@ret r
//@spec
        requires old(self).wf(),
        ensures
            final(self).same_handle(old(self)), final(self).wf(),
            (frame as int) < old(self).cur().len() < EVM_STACK_LIMIT() ==> r is Ok && final(self).cur() == evm_dup(old(self).cur(), frame as int + 1),      //@ob C07.stack.handle_dup.ok_copies_frame
            (frame as int) >= old(self).cur().len() ==> r is Err && r->Err_0.payload is NoSuchStackFrame,                                                     //@ob C07.stack.handle_dup.missing_is_error
            (frame as int) < old(self).cur().len() && old(self).cur().len() >= EVM_STACK_LIMIT() ==> r is Err && r->Err_0.payload is StackDepthExceeded,     //@ob C07.stack.handle_dup.limit_is_error
            r is Err ==> final(self).cur() == old(self).cur(),                                                                                                 //@ob C07.stack.handle_dup.error_unchanged
            r is Err ==> r->Err_0.location == old(self).ip(),                                                                                                  //@ob C17.stack.handle_dup.error_located
//@end

//@extract file=src/vm/state/stack.rs path="impl<'a> LocatedStackHandle<'a>|fn swap" id=stack::LocatedStackHandle::swap
//@ret r
//@spec
        ensures
            final(self).same_handle(old(self)),
            (frame as int) < old(self).cur().len() ==> r is Ok && final(self).cur() == evm_swap(old(self).cur(), frame as int),      //@ob C07.stack.handle_swap.ok_exchanges
            (frame as int) >= old(self).cur().len() ==> r is Err && r->Err_0.payload is NoSuchStackFrame,                             //@ob C07.stack.handle_swap.missing_is_error
            r is Err ==> final(self).cur() == old(self).cur(),                                                                         //@ob C07.stack.handle_swap.error_unchanged
            r is Err ==> r->Err_0.location == old(self).ip(),                                                                          //@ob C17.stack.handle_swap.error_located
//@end
}

