// src/error/container.rs: Located, Locatable and the blanket impl for Result (shared by units
// stack and control). Include inside `pub mod container { use vstd::prelude::*; verus! { .. } }`.
//@extract file=src/error/container.rs path="struct Located" kind=type id=container::Located
//@end

//@extract file=src/error/container.rs path="trait Locatable" kind=type id=container::Locatable
//@end

//@extract file=src/error/container.rs path="impl<T, E> Locatable for Result<T, E>" kind=header
// std::error::Error (Debug + Display) is outside Verus; the bound plays no role in the body
//@rw R-SIG
//@old
E: std::error::Error + Clone,
//@new
E: Clone,
//@end
    type Located = Result<T, Located<E>>;
//@extract file=src/error/container.rs path="impl<T, E> Locatable for Result<T, E>|fn locate" id=container::Result::locate
//@ret r
// Verus has no inferred postcondition for an unannotated closure passed to map_err
//@rw R-MAPERR
//@old
self.map_err(|e| Located {
            location: instruction_pointer,
            payload:  e,
        })
//@new
match self { Ok(v) => Ok(v), Err(e) => Err(Located {
            location: instruction_pointer,
            payload:  e,
        }) }
//@spec
        ensures
            self is Ok ==> r == Ok::<T, Located<E>>(self->Ok_0),                                                                 //@ob C17.err.locate_result.ok_unchanged
            self is Err ==> r == Err::<T, Located<E>>(Located { location: instruction_pointer, payload: self->Err_0 }),          //@ob C17.err.locate_result.location
//@end
}

// ---- the error buffer ---------------------------------------------------------------------------------
//@extract file=src/error/container.rs path="struct Errors" kind=type id=container::Errors
//@end
impl<E> Errors<E> {
    /// the recorded errors, oldest first
    pub closed spec fn log(&self) -> Seq<E> { self.payloads@ }
}
//@extract file=src/error/container.rs path="impl<E> Errors<E>#1" kind=header
//@end
//@extract file=src/error/container.rs path="impl<E> Errors<E>#1|fn new" id=container::Errors::new
//@ret r
//@spec
        ensures r.log() == Seq::<E>::empty(),      //@ob C17.err.errors_new.empty
//@end
//@extract file=src/error/container.rs path="impl<E> Errors<E>#1|fn len" id=container::Errors::len
//@ret r
//@spec
        ensures r == self.log().len(),
//@end
//@extract file=src/error/container.rs path="impl<E> Errors<E>#1|fn is_empty" id=container::Errors::is_empty
//@ret r
//@spec
        ensures r == (self.log().len() == 0),      //@ob C17.err.errors_is_empty.iff_nothing_recorded
//@end
}
//@extract file=src/error/container.rs path="impl<E> Errors<E>#2" kind=header
// std::error::Error (Debug + Display) is outside Verus; the bound plays no role in the body
//@rw R-SIG
//@old
E: std::error::Error,
//@new
E: Sized,
//@end
//@extract file=src/error/container.rs path="impl<E> Errors<E>#2|fn add" id=container::Errors::add
//@spec
        ensures final(self).log() == old(self).log().push(error),      //@ob C17.err.errors_add.appends
//@end
}
