//@unit props=C19,C01
// Unit combine — src/data/combine.rs: the `Combine` instance for `Option<A>` that `DisjointSet` uses to merge the auxiliary
// data of two sets (`union`: `v1_data.combine(v2_data or identity)`; `add_data`: `previous.combine(new)`), against the
// property's reading "the data of the merged set is the combination of both sets' data, an absent datum contributes nothing":
//   * `None` is the identity on BOTH sides (`C19.cmb.option.none_is_left_identity`, `.none_is_right_identity`);
//   * two present data are combined by the element's own `combine`, in operand order (`.some_some_combines_the_elements`);
//   * `identity()` is `None`.
// The element type `A` is abstract: its `combine` / `identity` are functions of their arguments (uninterpreted spec fns of
// the trait, as in unit disjoint_set); no monoid law of `A` is assumed.
use vstd::prelude::*;
//@dropped combine.rs: `impl Combine for HashSet<A, S>` (`self.union(&other).cloned().collect()`: iterator adapters over std's HashSet, outside Verus' subset) — bounded driver c19 only
verus! {

// A-COMBINE: `combine` / `identity` of the ELEMENT type are functions of their arguments (uninterpreted)
//@extract file=src/data/combine.rs path="trait Combine" kind=type
//@rw R-SIG
//@old
fn combine(self, other: Self) -> Self;
//@new
spec fn combine_spec(self, other: Self) -> Self;
    spec fn identity_spec() -> Self;
    fn combine(self, other: Self) -> (r: Self)
        ensures r == self.combine_spec(other);
//@rw R-SIG
//@old
fn identity() -> Self;
//@new
fn identity() -> (r: Self)
        ensures r == Self::identity_spec();
//@end

//@extract file=src/data/combine.rs path="impl<A: Combine> Combine for Option<A>" kind=header
//@end
    // written from the property, not from the body: an absent datum contributes nothing, two present data are combined
    open spec fn combine_spec(self, other: Self) -> Self {
        match (self, other) {
            (Some(a), Some(b)) => Some(a.combine_spec(b)),
            (Some(a), None) => Some(a),
            (None, Some(b)) => Some(b),
            (None, None) => None,
        }
    }
    open spec fn identity_spec() -> Self { None }
//@extract file=src/data/combine.rs path="impl<A: Combine> Combine for Option<A>|fn combine"
//@ret r
//@spec
        ensures r == self.combine_spec(other),                              //@ob C19.cmb.option.combine_is_the_lifted_combination
//@end
//@extract file=src/data/combine.rs path="impl<A: Combine> Combine for Option<A>|fn identity"
//@ret r
//@spec
        ensures r == None::<A>,                                              //@ob C19.cmb.option.identity_is_none
//@end
}

/// the laws `DisjointSet` relies on, over the spec of the instance (and through it over the real `combine`, whose result is
/// proved equal to the spec above)
pub proof fn law_none_is_identity<A: Combine>(x: Option<A>)
    ensures
        None::<A>.combine_spec(x) == x,                                     //@ob C19.cmb.option.none_is_left_identity
        x.combine_spec(None::<A>) == x,                                     //@ob C19.cmb.option.none_is_right_identity
        <Option<A> as Combine>::identity_spec() == None::<A>,               //@ob C19.cmb.option.identity_is_none
{
}

pub proof fn law_some_some<A: Combine>(a: A, b: A)
    ensures Some(a).combine_spec(Some(b)) == Some(a.combine_spec(b)),       //@ob C19.cmb.option.some_some_combines_the_elements
{
}

/// client harnesses on the REAL functions: merging a datum with an absent one, either way round, gives the datum back
pub fn client_absent_on_the_right<A: Combine>(a: A) -> (r: Option<A>)
    ensures r == Some(a),                                                    //@ob C19.cmb.option.client.absent_on_the_right_contributes_nothing
{
    let id = <Option<A> as Combine>::identity();
    Some(a).combine(id)
}
pub fn client_absent_on_the_left<A: Combine>(a: A) -> (r: Option<A>)
    ensures r == Some(a),                                                    //@ob C19.cmb.option.client.absent_on_the_left_contributes_nothing
{
    let id = <Option<A> as Combine>::identity();
    id.combine(Some(a))
}

} // verus!
fn main() {}
