// ============================================================================================
// A-ETHNUM — trusted stand-in for ethnum 1.5.x `U256` / `I256` (external crate, not verified).
// The types are opaque; `u` / `s` are their mathematical values; every contract below is an
// ASSUMPTION about ethnum written from its documentation/source.  `requires` clauses encode the
// conditions under which ethnum panics (zero divisor; shift amount >= 256 in debug/test builds).
// ============================================================================================
mod ethnum {
    #[derive(Clone, Copy, PartialEq, Eq, PartialOrd, Ord)]
    pub struct U256(pub [u128; 2]);
    #[derive(Clone, Copy, PartialEq, Eq, PartialOrd, Ord)]
    pub struct I256(pub [i128; 2]);
    impl U256 {
        pub fn wrapping_add(self, _r: U256) -> U256 { unimplemented!() }
        pub fn wrapping_sub(self, _r: U256) -> U256 { unimplemented!() }
        pub fn wrapping_mul(self, _r: U256) -> U256 { unimplemented!() }
        pub fn wrapping_div(self, _r: U256) -> U256 { unimplemented!() }
        pub fn wrapping_rem(self, _r: U256) -> U256 { unimplemented!() }
        pub fn wrapping_pow(self, _e: u32) -> U256 { unimplemented!() }
        pub const ZERO: U256 = U256([0, 0]);
        pub const ONE: U256 = U256([1, 0]);
        pub const MAX: U256 = U256([u128::MAX, u128::MAX]);
        pub const MIN: U256 = U256([0, 0]);
        pub fn new(_v: u128) -> U256 { unimplemented!() }
        pub fn as_u8(self) -> u8 { unimplemented!() }
        pub fn as_u16(self) -> u16 { unimplemented!() }
        pub fn as_u128(self) -> u128 { unimplemented!() }
        pub fn as_i128(self) -> i128 { unimplemented!() }
        pub fn as_i256(self) -> I256 { unimplemented!() }
        pub fn checked_add(self, _r: U256) -> Option<U256> { unimplemented!() }
        pub fn checked_sub(self, _r: U256) -> Option<U256> { unimplemented!() }
        pub fn checked_mul(self, _r: U256) -> Option<U256> { unimplemented!() }
        pub fn checked_div(self, _r: U256) -> Option<U256> { unimplemented!() }
        pub fn checked_rem(self, _r: U256) -> Option<U256> { unimplemented!() }
        pub fn saturating_add(self, _r: U256) -> U256 { unimplemented!() }
        pub fn saturating_sub(self, _r: U256) -> U256 { unimplemented!() }
        pub fn saturating_mul(self, _r: U256) -> U256 { unimplemented!() }
        pub fn wrapping_shl(self, _r: u32) -> U256 { unimplemented!() }
        pub fn wrapping_shr(self, _r: u32) -> U256 { unimplemented!() }
        pub fn pow(self, _e: u32) -> U256 { unimplemented!() }
        pub fn leading_zeros(self) -> u32 { unimplemented!() }
        pub fn trailing_zeros(self) -> u32 { unimplemented!() }
        pub fn count_ones(self) -> u32 { unimplemented!() }
        pub fn as_u32(self) -> u32 { unimplemented!() }
        pub fn as_u64(self) -> u64 { unimplemented!() }
        pub fn as_usize(self) -> usize { unimplemented!() }
        pub fn swap_bytes(self) -> U256 { unimplemented!() }
        pub fn to_be(self) -> U256 { unimplemented!() }
        pub fn to_le(self) -> U256 { unimplemented!() }
        pub fn to_ne_bytes(self) -> [u8; 32] { unimplemented!() }
        pub fn to_le_bytes(self) -> [u8; 32] { unimplemented!() }
        pub fn to_be_bytes(self) -> [u8; 32] { unimplemented!() }
        pub fn from_ne_bytes(_b: [u8; 32]) -> U256 { unimplemented!() }
        pub fn from_le_bytes(_b: [u8; 32]) -> U256 { unimplemented!() }
        pub fn from_be_bytes(_b: [u8; 32]) -> U256 { unimplemented!() }
    }
    impl I256 {
        pub const ZERO: I256 = I256([0, 0]);
        pub const ONE: I256 = I256([1, 0]);
        pub const MINUS_ONE: I256 = I256([-1, -1]);
        pub const MAX: I256 = I256([-1, i128::MAX]);
        pub const MIN: I256 = I256([0, i128::MIN]);
        pub fn new(_v: i128) -> I256 { unimplemented!() }
        pub fn as_u256(self) -> U256 { unimplemented!() }
        pub fn as_u32(self) -> u32 { unimplemented!() }
        pub fn as_usize(self) -> usize { unimplemented!() }
        pub fn wrapping_add(self, _r: I256) -> I256 { unimplemented!() }
        pub fn wrapping_sub(self, _r: I256) -> I256 { unimplemented!() }
        pub fn wrapping_mul(self, _r: I256) -> I256 { unimplemented!() }
        pub fn wrapping_neg(self) -> I256 { unimplemented!() }
        pub fn wrapping_abs(self) -> I256 { unimplemented!() }
        pub fn checked_div(self, _r: I256) -> Option<I256> { unimplemented!() }
        pub fn checked_rem(self, _r: I256) -> Option<I256> { unimplemented!() }
        pub fn is_negative(self) -> bool { unimplemented!() }
        pub fn signum(self) -> I256 { unimplemented!() }
        pub fn wrapping_div(self, _r: I256) -> I256 { unimplemented!() }
        pub fn wrapping_rem(self, _r: I256) -> I256 { unimplemented!() }
        pub fn to_ne_bytes(self) -> [u8; 32] { unimplemented!() }
        pub fn to_be_bytes(self) -> [u8; 32] { unimplemented!() }
        pub fn from_ne_bytes(_b: [u8; 32]) -> I256 { unimplemented!() }
    }
    impl core::ops::Shl<U256> for U256 { type Output = U256; fn shl(self, _r: U256) -> U256 { unimplemented!() } }
    impl core::ops::Shr<U256> for U256 { type Output = U256; fn shr(self, _r: U256) -> U256 { unimplemented!() } }
    impl core::ops::Shr<U256> for I256 { type Output = I256; fn shr(self, _r: U256) -> I256 { unimplemented!() } }
    impl core::ops::Shr<u32> for U256 { type Output = U256; fn shr(self, _r: u32) -> U256 { unimplemented!() } }
    impl core::ops::ShrAssign<u32> for U256 { fn shr_assign(&mut self, _r: u32) { unimplemented!() } }
    impl core::ops::BitAnd<U256> for U256 { type Output = U256; fn bitand(self, _r: U256) -> U256 { unimplemented!() } }
    impl core::ops::BitOr<U256> for U256 { type Output = U256; fn bitor(self, _r: U256) -> U256 { unimplemented!() } }
    impl core::ops::BitXor<U256> for U256 { type Output = U256; fn bitxor(self, _r: U256) -> U256 { unimplemented!() } }
    impl core::ops::Not for U256 { type Output = U256; fn not(self) -> U256 { unimplemented!() } }
    impl core::ops::Add<U256> for U256 { type Output = U256; fn add(self, _r: U256) -> U256 { unimplemented!() } }
    impl core::ops::Sub<U256> for U256 { type Output = U256; fn sub(self, _r: U256) -> U256 { unimplemented!() } }
    impl core::ops::Mul<U256> for U256 { type Output = U256; fn mul(self, _r: U256) -> U256 { unimplemented!() } }
    impl core::ops::Div<U256> for U256 { type Output = U256; fn div(self, _r: U256) -> U256 { unimplemented!() } }
    impl core::ops::Rem<U256> for U256 { type Output = U256; fn rem(self, _r: U256) -> U256 { unimplemented!() } }
    impl core::ops::Shl<u32> for U256 { type Output = U256; fn shl(self, _r: u32) -> U256 { unimplemented!() } }
    impl core::ops::Shr<u32> for I256 { type Output = I256; fn shr(self, _r: u32) -> I256 { unimplemented!() } }
    impl core::ops::Div<I256> for I256 { type Output = I256; fn div(self, _r: I256) -> I256 { unimplemented!() } }
    impl core::ops::Rem<I256> for I256 { type Output = I256; fn rem(self, _r: I256) -> I256 { unimplemented!() } }
    impl core::ops::Neg for I256 { type Output = I256; fn neg(self) -> I256 { unimplemented!() } }
    impl core::ops::AddAssign<U256> for U256 { fn add_assign(&mut self, _r: U256) { unimplemented!() } }
    impl core::ops::SubAssign<U256> for U256 { fn sub_assign(&mut self, _r: U256) { unimplemented!() } }
    impl core::ops::MulAssign<U256> for U256 { fn mul_assign(&mut self, _r: U256) { unimplemented!() } }
    impl core::ops::ShlAssign<u32> for U256 { fn shl_assign(&mut self, _r: u32) { unimplemented!() } }
    impl U256 {
        pub fn into_words(self) -> (u128, u128) { unimplemented!() }
        pub fn from_words(_hi: u128, _lo: u128) -> U256 { unimplemented!() }
        pub fn high(&self) -> &u128 { unimplemented!() }
        pub fn low(&self) -> &u128 { unimplemented!() }
    }
    impl From<u16> for U256 { fn from(_v: u16) -> U256 { unimplemented!() } }
    impl From<u64> for U256 { fn from(_v: u64) -> U256 { unimplemented!() } }
    impl From<i128> for I256 { fn from(_v: i128) -> I256 { unimplemented!() } }
    impl TryFrom<U256> for u32 { type Error = core::num::TryFromIntError; fn try_from(_v: U256) -> Result<u32, Self::Error> { unimplemented!() } }
    impl TryFrom<U256> for usize { type Error = core::num::TryFromIntError; fn try_from(_v: U256) -> Result<usize, Self::Error> { unimplemented!() } }
    impl TryFrom<U256> for u64 { type Error = core::num::TryFromIntError; fn try_from(_v: U256) -> Result<u64, Self::Error> { unimplemented!() } }
    impl From<u8> for U256 { fn from(_v: u8) -> U256 { unimplemented!() } }
    impl From<u32> for U256 { fn from(_v: u32) -> U256 { unimplemented!() } }
    impl From<u128> for U256 { fn from(_v: u128) -> U256 { unimplemented!() } }
}
use ethnum::{I256, U256};

verus! {

#[verifier::external_type_specification]
#[verifier::external_body]
pub struct ExU256(U256);
#[verifier::external_type_specification]
#[verifier::external_body]
pub struct ExI256(I256);

/// 2^256
pub open spec fn M() -> nat { 0x1_0000000000000000_0000000000000000_0000000000000000_0000000000000000nat }
/// 2^128
pub open spec fn H() -> nat { 0x1_0000000000000000_0000000000000000nat }

pub uninterp spec fn u(x: U256) -> nat;
/// the U256 whose value is n (n < 2^256)
pub open spec fn choose_u(n: nat) -> U256 { choose|x: U256| u(x) == n }
/// the I256 whose value is n
pub open spec fn choose_s(n: int) -> I256 { choose|x: I256| s(x) == n }
pub uninterp spec fn s(x: I256) -> int;
/// value of a native-endian (= little-endian, the crate refuses to build otherwise) 32-byte array
pub uninterp spec fn le_val(b: [u8; 32]) -> nat;
/// value of a big-endian 32-byte array
pub uninterp spec fn be_val(b: [u8; 32]) -> nat;
/// byte-swap of a 256-bit value
pub uninterp spec fn bswap(x: nat) -> nat;

pub open spec fn to_signed(x: nat) -> int { if x < M() / 2 { x as int } else { x as int - M() as int } }
pub open spec fn to_unsigned(x: int) -> nat { (x % (M() as int)) as nat }

pub broadcast axiom fn u_range(x: U256) ensures #[trigger] u(x) < M();
pub broadcast axiom fn s_range(x: I256) ensures -(M() as int) / 2 <= #[trigger] s(x) < (M() as int) / 2;
pub broadcast axiom fn u_inj(x: U256, y: U256) ensures (#[trigger] u(x) == #[trigger] u(y)) == (x == y);
pub broadcast axiom fn le_val_range(b: [u8; 32]) ensures #[trigger] le_val(b) < M();
pub broadcast axiom fn be_val_range(b: [u8; 32]) ensures #[trigger] be_val(b) < M();
pub broadcast axiom fn bswap_involutive(x: nat) requires x < M() ensures bswap(#[trigger] bswap(x)) == x, bswap(x) < M();
pub broadcast axiom fn be_is_swapped_le(b: [u8; 32]) ensures #[trigger] be_val(b) == bswap(le_val(b));

// ---- bitwise operations defined on 128-bit limbs (a real definition, not an uninterpreted name) ----
pub open spec fn bit_and(a: nat, b: nat) -> nat {
    (((a / H()) as u128 & (b / H()) as u128) as nat) * H() + (((a % H()) as u128 & (b % H()) as u128) as nat)
}
pub open spec fn bit_or(a: nat, b: nat) -> nat {
    (((a / H()) as u128 | (b / H()) as u128) as nat) * H() + (((a % H()) as u128 | (b % H()) as u128) as nat)
}
pub open spec fn bit_xor(a: nat, b: nat) -> nat {
    (((a / H()) as u128 ^ (b / H()) as u128) as nat) * H() + (((a % H()) as u128 ^ (b % H()) as u128) as nat)
}
pub open spec fn bit_not(a: nat) -> nat { (M() - 1 - a) as nat }

pub open spec fn abs(a: int) -> int { if a < 0 { -a } else { a } }
/// truncating (round toward zero) division / remainder, the semantics of Rust's and the EVM's signed ops
pub open spec fn tdiv(a: int, b: int) -> int {
    if b == 0 { 0 } else if (a >= 0) == (b > 0) || a == 0 { abs(a) / abs(b) } else { -(abs(a) / abs(b)) }
}
pub open spec fn trem(a: int, b: int) -> int {
    if b == 0 { 0 } else if a >= 0 { abs(a) % abs(b) } else { -(abs(a) % abs(b)) }
}

pub assume_specification[ U256::wrapping_add ](a: U256, b: U256) -> (r: U256)
    ensures u(r) == (u(a) + u(b)) % M();
pub assume_specification[ U256::wrapping_sub ](a: U256, b: U256) -> (r: U256)
    ensures u(r) == ((u(a) as int - u(b) as int) % (M() as int)) as nat;
pub assume_specification[ U256::wrapping_mul ](a: U256, b: U256) -> (r: U256)
    ensures u(r) == (u(a) * u(b)) % M();
pub assume_specification[ U256::wrapping_div ](a: U256, b: U256) -> (r: U256)
    requires u(b) != 0,      // ethnum panics on a zero divisor
    ensures u(r) == u(a) / u(b);
pub assume_specification[ U256::wrapping_rem ](a: U256, b: U256) -> (r: U256)
    requires u(b) != 0,
    ensures u(r) == u(a) % u(b);
pub assume_specification[ U256::wrapping_pow ](a: U256, e: u32) -> (r: U256)
    ensures u(r) == (vstd::arithmetic::power::pow(u(a) as int, e as nat) % (M() as int)) as nat;
pub assume_specification[ U256::as_u32 ](a: U256) -> (r: u32)
    ensures r as nat == u(a) % 0x1_0000_0000;       // truncation to the low 32 bits
pub assume_specification[ U256::as_u64 ](a: U256) -> (r: u64)
    ensures r as nat == u(a) % 0x1_0000_0000_0000_0000;
pub assume_specification[ U256::as_usize ](a: U256) -> (r: usize)
    ensures r as nat == u(a) % 0x1_0000_0000_0000_0000;   // 64-bit target
// the plain operators panic on overflow in builds with overflow checks (this crate enables them in every profile)
impl vstd::std_specs::ops::AddSpecImpl<U256> for U256 {
    open spec fn obeys_add_spec() -> bool { true }
    open spec fn add_req(self, rhs: U256) -> bool { u(self) + u(rhs) < M() }
    open spec fn add_spec(self, rhs: U256) -> U256 { choose_u(u(self) + u(rhs)) }
}
pub assume_specification[ <U256 as core::ops::Add<U256>>::add ](a: U256, b: U256) -> (r: U256);
impl vstd::std_specs::ops::SubSpecImpl<U256> for U256 {
    open spec fn obeys_sub_spec() -> bool { true }
    open spec fn sub_req(self, rhs: U256) -> bool { u(self) >= u(rhs) }
    open spec fn sub_spec(self, rhs: U256) -> U256 { choose_u((u(self) - u(rhs)) as nat) }
}
pub assume_specification[ <U256 as core::ops::Sub<U256>>::sub ](a: U256, b: U256) -> (r: U256);
impl vstd::std_specs::ops::MulSpecImpl<U256> for U256 {
    open spec fn obeys_mul_spec() -> bool { true }
    open spec fn mul_req(self, rhs: U256) -> bool { u(self) * u(rhs) < M() }
    open spec fn mul_spec(self, rhs: U256) -> U256 { choose_u(u(self) * u(rhs)) }
}
pub assume_specification[ <U256 as core::ops::Mul<U256>>::mul ](a: U256, b: U256) -> (r: U256);
impl vstd::std_specs::ops::MulAssignSpecImpl<U256> for U256 {
    open spec fn obeys_mul_assign_spec() -> bool { true }
    open spec fn mul_assign_req(self, rhs: U256) -> bool { u(self) * u(rhs) < M() }
    open spec fn mul_assign_spec(self, rhs: U256) -> U256 { choose_u(u(self) * u(rhs)) }
}
pub assume_specification[ <U256 as core::ops::MulAssign<U256>>::mul_assign ](a: &mut U256, b: U256);
pub assume_specification[ U256::into_words ](a: U256) -> (r: (u128, u128))
    ensures r.0 as nat == u(a) / H(), r.1 as nat == u(a) % H();     // (high, low)
pub assume_specification[ U256::from_words ](hi: u128, lo: u128) -> (r: U256)
    ensures u(r) == hi as nat * H() + lo as nat;
pub assume_specification[ U256::new ](v: u128) -> (r: U256)
    ensures u(r) == v as nat;
pub assume_specification[ U256::as_u8 ](a: U256) -> (r: u8)
    ensures r as nat == u(a) % 0x100;
pub assume_specification[ U256::as_u16 ](a: U256) -> (r: u16)
    ensures r as nat == u(a) % 0x1_0000;
pub assume_specification[ U256::as_u128 ](a: U256) -> (r: u128)
    ensures r as nat == u(a) % H();
pub assume_specification[ U256::checked_add ](a: U256, b: U256) -> (r: Option<U256>)
    ensures (r is Some) == (u(a) + u(b) < M()), r matches Some(q) ==> u(q) == u(a) + u(b);
pub assume_specification[ U256::saturating_add ](a: U256, b: U256) -> (r: U256)
    ensures u(r) == (if u(a) + u(b) < M() { u(a) + u(b) } else { (M() - 1) as nat });
pub assume_specification[ <u32 as core::convert::TryFrom<U256>>::try_from ](a: U256) -> (r: Result<u32, <u32 as core::convert::TryFrom<U256>>::Error>)
    ensures (r is Ok) == (u(a) <= u32::MAX as nat), r is Ok ==> r->Ok_0 as nat == u(a);
pub assume_specification[ <usize as core::convert::TryFrom<U256>>::try_from ](a: U256) -> (r: Result<usize, <usize as core::convert::TryFrom<U256>>::Error>)
    ensures (r is Ok) == (u(a) <= usize::MAX as nat), r is Ok ==> r->Ok_0 as nat == u(a);
pub assume_specification[ <u64 as core::convert::TryFrom<U256>>::try_from ](a: U256) -> (r: Result<u64, <u64 as core::convert::TryFrom<U256>>::Error>)
    ensures (r is Ok) == (u(a) <= u64::MAX as nat), r is Ok ==> r->Ok_0 as nat == u(a);
pub assume_specification[ U256::swap_bytes ](a: U256) -> (r: U256)
    ensures u(r) == bswap(u(a));
pub assume_specification[ U256::to_be ](a: U256) -> (r: U256)
    ensures u(r) == bswap(u(a));                   // little-endian target: to_be swaps
pub assume_specification[ U256::to_le ](a: U256) -> (r: U256)
    ensures r == a;
pub assume_specification[ U256::to_ne_bytes ](a: U256) -> (r: [u8; 32])
    ensures le_val(r) == u(a);
pub assume_specification[ U256::to_le_bytes ](a: U256) -> (r: [u8; 32])
    ensures le_val(r) == u(a);
pub assume_specification[ U256::to_be_bytes ](a: U256) -> (r: [u8; 32])
    ensures be_val(r) == u(a);
pub assume_specification[ U256::from_ne_bytes ](b: [u8; 32]) -> (r: U256)
    ensures u(r) == le_val(b);
pub assume_specification[ U256::from_le_bytes ](b: [u8; 32]) -> (r: U256)
    ensures u(r) == le_val(b);
pub assume_specification[ U256::from_be_bytes ](b: [u8; 32]) -> (r: U256)
    ensures u(r) == be_val(b);
pub assume_specification[ I256::new ](v: i128) -> (r: I256)
    ensures s(r) == v as int;
pub assume_specification[ I256::to_ne_bytes ](a: I256) -> (r: [u8; 32])
    ensures le_val(r) == to_unsigned(s(a));
pub assume_specification[ I256::to_be_bytes ](a: I256) -> (r: [u8; 32])
    ensures be_val(r) == to_unsigned(s(a));
pub assume_specification[ I256::from_ne_bytes ](b: [u8; 32]) -> (r: I256)
    ensures s(r) == to_signed(le_val(b));
pub assume_specification[ I256::wrapping_div ](a: I256, b: I256) -> (r: I256)
    requires s(b) != 0,
    ensures s(r) == to_signed(to_unsigned(tdiv(s(a), s(b))));    // MIN / -1 wraps to MIN
pub assume_specification[ I256::checked_div ](a: I256, b: I256) -> (r: Option<I256>)
    ensures (r is None) == (s(b) == 0 || (s(a) == -(M() as int) / 2 && s(b) == -1)), r matches Some(q) ==> s(q) == tdiv(s(a), s(b));   // None on zero divisor AND on MIN / -1
pub assume_specification[ I256::checked_rem ](a: I256, b: I256) -> (r: Option<I256>)
    ensures (r is None) == (s(b) == 0 || (s(a) == -(M() as int) / 2 && s(b) == -1)), r matches Some(q) ==> s(q) == trem(s(a), s(b));
pub assume_specification[ U256::checked_div ](a: U256, b: U256) -> (r: Option<U256>)
    ensures (r is None) == (u(b) == 0), r matches Some(q) ==> u(q) == u(a) / u(b);
pub assume_specification[ U256::checked_rem ](a: U256, b: U256) -> (r: Option<U256>)
    ensures (r is None) == (u(b) == 0), r matches Some(q) ==> u(q) == u(a) % u(b);
pub assume_specification[ I256::wrapping_rem ](a: I256, b: I256) -> (r: I256)
    requires s(b) != 0,
    ensures s(r) == trem(s(a), s(b));

// ---- operators ----
pub uninterp spec fn shl_val(a: U256, b: U256) -> U256;
pub uninterp spec fn shr_val(a: U256, b: U256) -> U256;
pub uninterp spec fn sar_val(a: I256, b: U256) -> I256;
pub uninterp spec fn and_val(a: U256, b: U256) -> U256;
pub uninterp spec fn or_val(a: U256, b: U256) -> U256;
pub uninterp spec fn xor_val(a: U256, b: U256) -> U256;
pub uninterp spec fn not_val(a: U256) -> U256;
pub broadcast axiom fn shl_val_def(a: U256, b: U256) requires u(b) < 256
    ensures u(#[trigger] shl_val(a, b)) == (u(a) * vstd::arithmetic::power2::pow2(u(b))) % M();
pub broadcast axiom fn shr_val_def(a: U256, b: U256) requires u(b) < 256
    ensures u(#[trigger] shr_val(a, b)) == u(a) / vstd::arithmetic::power2::pow2(u(b));
pub broadcast axiom fn sar_val_def(a: I256, b: U256) requires u(b) < 256
    ensures s(#[trigger] sar_val(a, b)) == s(a) / (vstd::arithmetic::power2::pow2(u(b)) as int);   // Euclidean = floor for a positive divisor
pub broadcast axiom fn and_val_def(a: U256, b: U256) ensures u(#[trigger] and_val(a, b)) == bit_and(u(a), u(b));
pub broadcast axiom fn or_val_def(a: U256, b: U256) ensures u(#[trigger] or_val(a, b)) == bit_or(u(a), u(b));
pub broadcast axiom fn xor_val_def(a: U256, b: U256) ensures u(#[trigger] xor_val(a, b)) == bit_xor(u(a), u(b));
pub broadcast axiom fn not_val_def(a: U256) ensures u(#[trigger] not_val(a)) == bit_not(u(a));

impl vstd::std_specs::ops::ShlSpecImpl<U256> for U256 {
    open spec fn obeys_shl_spec() -> bool { true }
    open spec fn shl_req(self, rhs: U256) -> bool { u(rhs) < 256 }     // debug/test builds panic otherwise, release wraps
    open spec fn shl_spec(self, rhs: U256) -> U256 { shl_val(self, rhs) }
}
pub assume_specification[ <U256 as core::ops::Shl<U256>>::shl ](a: U256, b: U256) -> (r: U256);
impl vstd::std_specs::ops::ShrSpecImpl<U256> for U256 {
    open spec fn obeys_shr_spec() -> bool { true }
    open spec fn shr_req(self, rhs: U256) -> bool { u(rhs) < 256 }
    open spec fn shr_spec(self, rhs: U256) -> U256 { shr_val(self, rhs) }
}
pub assume_specification[ <U256 as core::ops::Shr<U256>>::shr ](a: U256, b: U256) -> (r: U256);
impl vstd::std_specs::ops::ShrSpecImpl<U256> for I256 {
    open spec fn obeys_shr_spec() -> bool { true }
    open spec fn shr_req(self, rhs: U256) -> bool { u(rhs) < 256 }
    open spec fn shr_spec(self, rhs: U256) -> I256 { sar_val(self, rhs) }
}
pub assume_specification[ <I256 as core::ops::Shr<U256>>::shr ](a: I256, b: U256) -> (r: I256);
impl vstd::std_specs::ops::BitAndSpecImpl<U256> for U256 {
    open spec fn obeys_bitand_spec() -> bool { true }
    open spec fn bitand_req(self, rhs: U256) -> bool { true }
    open spec fn bitand_spec(self, rhs: U256) -> U256 { and_val(self, rhs) }
}
pub assume_specification[ <U256 as core::ops::BitAnd<U256>>::bitand ](a: U256, b: U256) -> (r: U256);
impl vstd::std_specs::ops::BitOrSpecImpl<U256> for U256 {
    open spec fn obeys_bitor_spec() -> bool { true }
    open spec fn bitor_req(self, rhs: U256) -> bool { true }
    open spec fn bitor_spec(self, rhs: U256) -> U256 { or_val(self, rhs) }
}
pub assume_specification[ <U256 as core::ops::BitOr<U256>>::bitor ](a: U256, b: U256) -> (r: U256);
impl vstd::std_specs::ops::BitXorSpecImpl<U256> for U256 {
    open spec fn obeys_bitxor_spec() -> bool { true }
    open spec fn bitxor_req(self, rhs: U256) -> bool { true }
    open spec fn bitxor_spec(self, rhs: U256) -> U256 { xor_val(self, rhs) }
}
pub assume_specification[ <U256 as core::ops::BitXor<U256>>::bitxor ](a: U256, b: U256) -> (r: U256);
impl vstd::std_specs::ops::NotSpecImpl for U256 {
    open spec fn obeys_not_spec() -> bool { true }
    open spec fn not_req(self) -> bool { true }
    open spec fn not_spec(self) -> U256 { not_val(self) }
}
pub assume_specification[ <U256 as core::ops::Not>::not ](a: U256) -> (r: U256);

impl vstd::std_specs::cmp::PartialEqSpecImpl for U256 {
    open spec fn obeys_eq_spec() -> bool { true }
    open spec fn eq_spec(&self, other: &U256) -> bool { u(*self) == u(*other) }
}
pub assume_specification[ <U256 as core::cmp::PartialEq>::eq ](a: &U256, b: &U256) -> (r: bool);
impl vstd::std_specs::cmp::PartialEqSpecImpl for I256 {
    open spec fn obeys_eq_spec() -> bool { true }
    open spec fn eq_spec(&self, other: &I256) -> bool { s(*self) == s(*other) }
}
pub assume_specification[ <I256 as core::cmp::PartialEq>::eq ](a: &I256, b: &I256) -> (r: bool);
impl vstd::std_specs::cmp::PartialOrdSpecImpl for U256 {
    open spec fn obeys_partial_cmp_spec() -> bool { true }
    open spec fn partial_cmp_spec(&self, other: &U256) -> Option<core::cmp::Ordering> {
        if u(*self) < u(*other) { Some(core::cmp::Ordering::Less) } else if u(*self) == u(*other) { Some(core::cmp::Ordering::Equal) } else { Some(core::cmp::Ordering::Greater) }
    }
}
pub assume_specification[ <U256 as core::cmp::PartialOrd>::partial_cmp ](a: &U256, b: &U256) -> (r: Option<core::cmp::Ordering>);
impl vstd::std_specs::cmp::PartialOrdSpecImpl for I256 {
    open spec fn obeys_partial_cmp_spec() -> bool { true }
    open spec fn partial_cmp_spec(&self, other: &I256) -> Option<core::cmp::Ordering> {
        if s(*self) < s(*other) { Some(core::cmp::Ordering::Less) } else if s(*self) == s(*other) { Some(core::cmp::Ordering::Equal) } else { Some(core::cmp::Ordering::Greater) }
    }
}
impl vstd::std_specs::cmp::OrdSpecImpl for U256 {
    open spec fn obeys_cmp_spec() -> bool { true }
    open spec fn cmp_spec(&self, other: &U256) -> core::cmp::Ordering {
        if u(*self) < u(*other) { core::cmp::Ordering::Less } else if u(*self) == u(*other) { core::cmp::Ordering::Equal } else { core::cmp::Ordering::Greater }
    }
}
pub assume_specification[ <U256 as core::cmp::Ord>::cmp ](a: &U256, b: &U256) -> (r: core::cmp::Ordering);
pub assume_specification[ <I256 as core::cmp::PartialOrd>::partial_cmp ](a: &I256, b: &I256) -> (r: Option<core::cmp::Ordering>);
pub assume_specification[ <U256 as core::convert::From<u8>>::from ](v: u8) -> (r: U256)
    ensures u(r) == v as nat;
pub assume_specification[ <U256 as core::convert::From<u32>>::from ](v: u32) -> (r: U256)
    ensures u(r) == v as nat;
pub assume_specification[ <U256 as core::convert::From<u128>>::from ](v: u128) -> (r: U256)
    ensures u(r) == v as nat;
pub assume_specification[ <U256 as core::convert::From<u16>>::from ](v: u16) -> (r: U256)
    ensures u(r) == v as nat;
pub assume_specification[ <U256 as core::convert::From<u64>>::from ](v: u64) -> (r: U256)
    ensures u(r) == v as nat;
pub assume_specification[ <I256 as core::convert::From<i128>>::from ](v: i128) -> (r: I256)
    ensures s(r) == v as int;
pub uninterp spec fn shr32_val(a: U256, b: u32) -> U256;
pub broadcast axiom fn shr32_val_def(a: U256, b: u32) requires b < 256
    ensures u(#[trigger] shr32_val(a, b)) == u(a) / vstd::arithmetic::power2::pow2(b as nat);
impl vstd::std_specs::ops::ShrSpecImpl<u32> for U256 {
    open spec fn obeys_shr_spec() -> bool { true }
    open spec fn shr_req(self, rhs: u32) -> bool { rhs < 256 }
    open spec fn shr_spec(self, rhs: u32) -> U256 { shr32_val(self, rhs) }
}
pub assume_specification[ <U256 as core::ops::Shr<u32>>::shr ](a: U256, b: u32) -> (r: U256);
impl vstd::std_specs::ops::ShrAssignSpecImpl<u32> for U256 {
    open spec fn obeys_shr_assign_spec() -> bool { true }
    open spec fn shr_assign_req(self, rhs: u32) -> bool { rhs < 256 }
    open spec fn shr_assign_spec(self, rhs: u32) -> U256 { shr32_val(self, rhs) }
}
pub assume_specification[ <U256 as core::ops::ShrAssign<u32>>::shr_assign ](a: &mut U256, b: u32);
pub assume_specification[ <U256 as core::clone::Clone>::clone ](a: &U256) -> (r: U256)
    ensures r == *a;

} // verus!
