// ============================================================================================
// Shared items of the units over the symbolic value tree (fold_arms, value_size, guards):
// the 70-variant `SymbolicValueData`, `SymbolicValue`, `PackedSpan`, `Provenance`, the type
// aliases and the trivial accessors — all re-extracted from src/vm/value/mod.rs — plus the
// stand-ins for what lies outside this family's reach.  Include at top level (NOT inside
// `verus!{}`), after `use vstd::prelude::*; use std::sync::Arc;`.
//
// Everything marked A-… below is an ASSUMPTION, not a proof.
// ============================================================================================
#[allow(dead_code, unused)]
mod vt_ext {
    // A-EXT: `uuid::Uuid` — external crate; opaque identity token. `new_v4()` is random: no contract.
    #[derive(Clone, Copy, PartialEq, Eq)]
    pub struct Uuid(pub u128);
    impl Uuid { pub fn new_v4() -> Uuid { unimplemented!() } }
    // A-CALLEE: `KnownWord` is OPAQUE in these units. Each operation returns an uninterpreted
    // function of its operands (`kw_add(a, b)` …); what the operation computes is proved against the
    // EVM definition in unit known_word. Here only WHICH operation is applied to WHICH operands in
    // WHICH order is under contract.
    #[derive(Clone, Copy, PartialEq, Eq)]
    pub struct KnownWord(pub [u128; 2]);
    impl KnownWord {
        pub fn signed_div(self, _r: KnownWord) -> KnownWord { unimplemented!() }
        pub fn signed_rem(self, _r: KnownWord) -> KnownWord { unimplemented!() }
        pub fn exp(self, _r: KnownWord) -> KnownWord { unimplemented!() }
        pub fn lt(self, _r: KnownWord) -> KnownWord { unimplemented!() }
        pub fn gt(self, _r: KnownWord) -> KnownWord { unimplemented!() }
        pub fn signed_lt(self, _r: KnownWord) -> KnownWord { unimplemented!() }
        pub fn signed_gt(self, _r: KnownWord) -> KnownWord { unimplemented!() }
        pub fn is_zero(self) -> KnownWord { unimplemented!() }
        pub fn sar(self, _r: KnownWord) -> KnownWord { unimplemented!() }
    }
    impl core::ops::Add<KnownWord> for KnownWord { type Output = KnownWord; fn add(self, _r: KnownWord) -> KnownWord { unimplemented!() } }
    impl core::ops::Mul<KnownWord> for KnownWord { type Output = KnownWord; fn mul(self, _r: KnownWord) -> KnownWord { unimplemented!() } }
    impl core::ops::Sub<KnownWord> for KnownWord { type Output = KnownWord; fn sub(self, _r: KnownWord) -> KnownWord { unimplemented!() } }
    impl core::ops::Div<KnownWord> for KnownWord { type Output = KnownWord; fn div(self, _r: KnownWord) -> KnownWord { unimplemented!() } }
    impl core::ops::Rem<KnownWord> for KnownWord { type Output = KnownWord; fn rem(self, _r: KnownWord) -> KnownWord { unimplemented!() } }
    impl core::ops::BitAnd<KnownWord> for KnownWord { type Output = KnownWord; fn bitand(self, _r: KnownWord) -> KnownWord { unimplemented!() } }
    impl core::ops::BitOr<KnownWord> for KnownWord { type Output = KnownWord; fn bitor(self, _r: KnownWord) -> KnownWord { unimplemented!() } }
    impl core::ops::BitXor<KnownWord> for KnownWord { type Output = KnownWord; fn bitxor(self, _r: KnownWord) -> KnownWord { unimplemented!() } }
    impl core::ops::Shl<KnownWord> for KnownWord { type Output = KnownWord; fn shl(self, _r: KnownWord) -> KnownWord { unimplemented!() } }
    impl core::ops::Shr<KnownWord> for KnownWord { type Output = KnownWord; fn shr(self, _r: KnownWord) -> KnownWord { unimplemented!() } }
    impl core::ops::Not for KnownWord { type Output = KnownWord; fn not(self) -> KnownWord { unimplemented!() } }
    impl From<bool> for KnownWord { fn from(_b: bool) -> KnownWord { unimplemented!() } }
    // A-EXT: `TypeVariable` (src/tc/state/type_variable.rs) — the type checker's aux data; opaque here.
    #[derive(Clone, Copy, PartialEq, Eq)]
    pub struct TypeVariable(pub u128);
}
use vt_ext::{Uuid, KnownWord, TypeVariable};

verus! {

#[verifier::external_type_specification]
#[verifier::external_body]
pub struct ExUuid(Uuid);
#[verifier::external_type_specification]
#[verifier::external_body]
pub struct ExKnownWord(KnownWord);
#[verifier::external_type_specification]
#[verifier::external_body]
pub struct ExTypeVariable(TypeVariable);

// A-EXT: a fresh random identifier; nothing is assumed about it.
pub assume_specification[ Uuid::new_v4 ]() -> (r: Uuid);

// ---- A-CALLEE: the opaque word operations. `kw_op(self, rhs)` is "self op rhs" exactly as the
// Rust method / operator of src/vm/value/known.rs takes its operands; unit known_word proves
//   a + b = evm_add(a,b)   a - b = evm_sub(a,b)   a * b = evm_mul(a,b)   a / b = evm_div(a,b)   a % b = evm_mod(a,b)
//   a.signed_div(b) = evm_sdiv(a,b)   a.signed_rem(b) = evm_smod(a,b)   a.exp(b) = a^b
//   a.lt(b) a.gt(b) a.signed_lt(b) a.signed_gt(b) = the comparison "a ? b"   a.is_zero()
//   a & b, a | b, a ^ b, !a       v << s = evm_shl(shift = s, value = v)   v >> s = evm_shr(s, v)   v.sar(s) = evm_sar(s, v)
pub uninterp spec fn kw_signed_div(a: KnownWord, b: KnownWord) -> KnownWord;
pub assume_specification[ KnownWord::signed_div ](a: KnownWord, b: KnownWord) -> (r: KnownWord) ensures r == kw_signed_div(a, b);
pub uninterp spec fn kw_signed_rem(a: KnownWord, b: KnownWord) -> KnownWord;
pub assume_specification[ KnownWord::signed_rem ](a: KnownWord, b: KnownWord) -> (r: KnownWord) ensures r == kw_signed_rem(a, b);
pub uninterp spec fn kw_exp(a: KnownWord, b: KnownWord) -> KnownWord;
pub assume_specification[ KnownWord::exp ](a: KnownWord, b: KnownWord) -> (r: KnownWord) ensures r == kw_exp(a, b);
pub uninterp spec fn kw_lt(a: KnownWord, b: KnownWord) -> KnownWord;
pub assume_specification[ KnownWord::lt ](a: KnownWord, b: KnownWord) -> (r: KnownWord) ensures r == kw_lt(a, b);
pub uninterp spec fn kw_gt(a: KnownWord, b: KnownWord) -> KnownWord;
pub assume_specification[ KnownWord::gt ](a: KnownWord, b: KnownWord) -> (r: KnownWord) ensures r == kw_gt(a, b);
pub uninterp spec fn kw_signed_lt(a: KnownWord, b: KnownWord) -> KnownWord;
pub assume_specification[ KnownWord::signed_lt ](a: KnownWord, b: KnownWord) -> (r: KnownWord) ensures r == kw_signed_lt(a, b);
pub uninterp spec fn kw_signed_gt(a: KnownWord, b: KnownWord) -> KnownWord;
pub assume_specification[ KnownWord::signed_gt ](a: KnownWord, b: KnownWord) -> (r: KnownWord) ensures r == kw_signed_gt(a, b);
pub uninterp spec fn kw_sar(a: KnownWord, b: KnownWord) -> KnownWord;
pub assume_specification[ KnownWord::sar ](a: KnownWord, b: KnownWord) -> (r: KnownWord) ensures r == kw_sar(a, b);
pub uninterp spec fn kw_is_zero(a: KnownWord) -> KnownWord;
pub assume_specification[ KnownWord::is_zero ](a: KnownWord) -> (r: KnownWord) ensures r == kw_is_zero(a);

pub uninterp spec fn kw_add(a: KnownWord, b: KnownWord) -> KnownWord;
impl vstd::std_specs::ops::AddSpecImpl<KnownWord> for KnownWord {
    open spec fn obeys_add_spec() -> bool { true }
    open spec fn add_req(self, rhs: KnownWord) -> bool { true }
    open spec fn add_spec(self, rhs: KnownWord) -> KnownWord { kw_add(self, rhs) }
}
pub assume_specification[ <KnownWord as core::ops::Add<KnownWord>>::add ](a: KnownWord, b: KnownWord) -> (r: KnownWord);
pub uninterp spec fn kw_mul(a: KnownWord, b: KnownWord) -> KnownWord;
impl vstd::std_specs::ops::MulSpecImpl<KnownWord> for KnownWord {
    open spec fn obeys_mul_spec() -> bool { true }
    open spec fn mul_req(self, rhs: KnownWord) -> bool { true }
    open spec fn mul_spec(self, rhs: KnownWord) -> KnownWord { kw_mul(self, rhs) }
}
pub assume_specification[ <KnownWord as core::ops::Mul<KnownWord>>::mul ](a: KnownWord, b: KnownWord) -> (r: KnownWord);
pub uninterp spec fn kw_sub(a: KnownWord, b: KnownWord) -> KnownWord;
impl vstd::std_specs::ops::SubSpecImpl<KnownWord> for KnownWord {
    open spec fn obeys_sub_spec() -> bool { true }
    open spec fn sub_req(self, rhs: KnownWord) -> bool { true }
    open spec fn sub_spec(self, rhs: KnownWord) -> KnownWord { kw_sub(self, rhs) }
}
pub assume_specification[ <KnownWord as core::ops::Sub<KnownWord>>::sub ](a: KnownWord, b: KnownWord) -> (r: KnownWord);
pub uninterp spec fn kw_div(a: KnownWord, b: KnownWord) -> KnownWord;
impl vstd::std_specs::ops::DivSpecImpl<KnownWord> for KnownWord {
    open spec fn obeys_div_spec() -> bool { true }
    open spec fn div_req(self, rhs: KnownWord) -> bool { true }
    open spec fn div_spec(self, rhs: KnownWord) -> KnownWord { kw_div(self, rhs) }
}
pub assume_specification[ <KnownWord as core::ops::Div<KnownWord>>::div ](a: KnownWord, b: KnownWord) -> (r: KnownWord);
pub uninterp spec fn kw_rem(a: KnownWord, b: KnownWord) -> KnownWord;
impl vstd::std_specs::ops::RemSpecImpl<KnownWord> for KnownWord {
    open spec fn obeys_rem_spec() -> bool { true }
    open spec fn rem_req(self, rhs: KnownWord) -> bool { true }
    open spec fn rem_spec(self, rhs: KnownWord) -> KnownWord { kw_rem(self, rhs) }
}
pub assume_specification[ <KnownWord as core::ops::Rem<KnownWord>>::rem ](a: KnownWord, b: KnownWord) -> (r: KnownWord);
pub uninterp spec fn kw_bitand(a: KnownWord, b: KnownWord) -> KnownWord;
impl vstd::std_specs::ops::BitAndSpecImpl<KnownWord> for KnownWord {
    open spec fn obeys_bitand_spec() -> bool { true }
    open spec fn bitand_req(self, rhs: KnownWord) -> bool { true }
    open spec fn bitand_spec(self, rhs: KnownWord) -> KnownWord { kw_bitand(self, rhs) }
}
pub assume_specification[ <KnownWord as core::ops::BitAnd<KnownWord>>::bitand ](a: KnownWord, b: KnownWord) -> (r: KnownWord);
pub uninterp spec fn kw_bitor(a: KnownWord, b: KnownWord) -> KnownWord;
impl vstd::std_specs::ops::BitOrSpecImpl<KnownWord> for KnownWord {
    open spec fn obeys_bitor_spec() -> bool { true }
    open spec fn bitor_req(self, rhs: KnownWord) -> bool { true }
    open spec fn bitor_spec(self, rhs: KnownWord) -> KnownWord { kw_bitor(self, rhs) }
}
pub assume_specification[ <KnownWord as core::ops::BitOr<KnownWord>>::bitor ](a: KnownWord, b: KnownWord) -> (r: KnownWord);
pub uninterp spec fn kw_bitxor(a: KnownWord, b: KnownWord) -> KnownWord;
impl vstd::std_specs::ops::BitXorSpecImpl<KnownWord> for KnownWord {
    open spec fn obeys_bitxor_spec() -> bool { true }
    open spec fn bitxor_req(self, rhs: KnownWord) -> bool { true }
    open spec fn bitxor_spec(self, rhs: KnownWord) -> KnownWord { kw_bitxor(self, rhs) }
}
pub assume_specification[ <KnownWord as core::ops::BitXor<KnownWord>>::bitxor ](a: KnownWord, b: KnownWord) -> (r: KnownWord);
pub uninterp spec fn kw_shl(a: KnownWord, b: KnownWord) -> KnownWord;
impl vstd::std_specs::ops::ShlSpecImpl<KnownWord> for KnownWord {
    open spec fn obeys_shl_spec() -> bool { true }
    open spec fn shl_req(self, rhs: KnownWord) -> bool { true }
    open spec fn shl_spec(self, rhs: KnownWord) -> KnownWord { kw_shl(self, rhs) }
}
pub assume_specification[ <KnownWord as core::ops::Shl<KnownWord>>::shl ](a: KnownWord, b: KnownWord) -> (r: KnownWord);
pub uninterp spec fn kw_shr(a: KnownWord, b: KnownWord) -> KnownWord;
impl vstd::std_specs::ops::ShrSpecImpl<KnownWord> for KnownWord {
    open spec fn obeys_shr_spec() -> bool { true }
    open spec fn shr_req(self, rhs: KnownWord) -> bool { true }
    open spec fn shr_spec(self, rhs: KnownWord) -> KnownWord { kw_shr(self, rhs) }
}
pub assume_specification[ <KnownWord as core::ops::Shr<KnownWord>>::shr ](a: KnownWord, b: KnownWord) -> (r: KnownWord);
pub uninterp spec fn kw_not(a: KnownWord) -> KnownWord;
impl vstd::std_specs::ops::NotSpecImpl for KnownWord {
    open spec fn obeys_not_spec() -> bool { true }
    open spec fn not_req(self) -> bool { true }
    open spec fn not_spec(self) -> KnownWord { kw_not(self) }
}
pub assume_specification[ <KnownWord as core::ops::Not>::not ](a: KnownWord) -> (r: KnownWord);
pub uninterp spec fn kw_from_bool(b: bool) -> KnownWord;
impl vstd::std_specs::convert::FromSpecImpl<bool> for KnownWord {
    open spec fn obeys_from_spec() -> bool { true }
    open spec fn from_spec(v: bool) -> KnownWord { kw_from_bool(v) }
}
pub assume_specification[ <KnownWord as core::convert::From<bool>>::from ](b: bool) -> (r: KnownWord);
// A-DERIVE: `#[derive(PartialEq)]` on KnownWord (one field) is equality of the word.
impl vstd::std_specs::cmp::PartialEqSpecImpl for KnownWord {
    open spec fn obeys_eq_spec() -> bool { true }
    open spec fn eq_spec(&self, other: &KnownWord) -> bool { *self == *other }
}
pub assume_specification[ <KnownWord as core::cmp::PartialEq>::eq ](a: &KnownWord, b: &KnownWord) -> (r: bool);

// ---------------- the value tree, re-extracted ----------------
#[derive(Clone, Copy)]
//@extract file=src/vm/value/mod.rs path="enum Provenance" kind=type
//@end

//@extract file=src/vm/value/mod.rs path="type RuntimeAuxData" kind=type
//@end
//@extract file=src/vm/value/mod.rs path="type TCAuxData" kind=type
//@end
//@extract file=src/vm/value/mod.rs path="type BoxedVal" kind=type
//@end
//@extract file=src/vm/value/mod.rs path="type RuntimeBoxedVal" kind=type
//@end
//@extract file=src/vm/value/mod.rs path="type TCBoxedVal" kind=type
//@end
//@extract file=src/vm/value/mod.rs path="type SV" kind=type
//@end
//@extract file=src/vm/value/mod.rs path="type RSV" kind=type
//@end
//@extract file=src/vm/value/mod.rs path="type TCSV" kind=type
//@end
//@extract file=src/vm/value/mod.rs path="type SVD" kind=type
//@end
//@extract file=src/vm/value/mod.rs path="type RSVD" kind=type
//@end
//@extract file=src/vm/value/mod.rs path="type TCSVD" kind=type
//@end

//@extract file=src/vm/value/mod.rs path="struct SymbolicValue" kind=type
//@end

//@extract file=src/vm/value/mod.rs path="struct PackedSpan" kind=type
//@end

//@extract file=src/vm/value/mod.rs path="enum SymbolicValueData" kind=type
//@end

// A-DERIVE: `#[derive(Clone)]` on the payload enum returns an equal value (children are `Arc`s: the clone
// shares them; `Uuid`, `KnownWord`, `usize` fields are `Copy`).
impl<AuxData: Clone> Clone for SymbolicValueData<AuxData> {
    #[verifier::external_body]
    fn clone(&self) -> (r: Self) ensures r == *self { unimplemented!() }
}

// spec views of the (private) fields
impl<AuxData> SymbolicValue<AuxData> {
    pub closed spec fn ip(&self) -> u32 { self.instruction_pointer }
    pub closed spec fn prov(&self) -> Provenance { self.provenance }
    pub closed spec fn dt(&self) -> SymbolicValueData<AuxData> { self.data }
    pub closed spec fn aux(&self) -> AuxData { self.aux_data }
    pub closed spec fn sz(&self) -> usize { self.size }
}

/// "this node is a constant": the word of a `KnownData` leaf
pub open spec fn aw<A>(v: SymbolicValue<A>) -> Option<KnownWord> {
    match v.dt() { SymbolicValueData::KnownData { value } => Some(value), _ => None }
}

//@extract file=src/vm/value/mod.rs path="impl<AuxData> SymbolicValue<AuxData>" kind=header
//@end
//@extract file=src/vm/value/mod.rs path="impl<AuxData> SymbolicValue<AuxData>|fn instruction_pointer"
//@ret r
//@spec
        ensures r == self.ip(),
//@end
//@extract file=src/vm/value/mod.rs path="impl<AuxData> SymbolicValue<AuxData>|fn provenance"
//@ret r
//@spec
        ensures r == self.prov(),
//@end
//@extract file=src/vm/value/mod.rs path="impl<AuxData> SymbolicValue<AuxData>|fn data"
//@ret r
//@spec
        ensures *r == self.dt(),
//@end
//@extract file=src/vm/value/mod.rs path="impl<AuxData> SymbolicValue<AuxData>|fn aux_data"
//@ret r
//@spec
        ensures *r == self.aux(),
//@end
//@extract file=src/vm/value/mod.rs path="impl<AuxData> SymbolicValue<AuxData>|fn size"
//@ret r
//@spec
        ensures r == self.sz(),
//@end
//@extract file=src/vm/value/mod.rs path="impl<AuxData> SymbolicValue<AuxData>|fn as_word"
//@ret r
//@spec
        ensures r == aw(*self),
//@end
}

//@extract file=src/vm/value/mod.rs path="impl<AuxData> SymbolicValueData<AuxData>#1" kind=header
//@end
//@extract file=src/vm/value/mod.rs path="impl<AuxData> SymbolicValueData<AuxData>#1|fn new_known"
//@ret r
//@spec
        ensures r == (SymbolicValueData::<AuxData>::KnownData { value }),
//@end
//@extract file=src/vm/value/mod.rs path="impl<AuxData> SymbolicValueData<AuxData>#1|fn new_value"
//@ret r
//@spec
        ensures r is Value,
//@end
}

} // verus!
