// VectorMap under contract (shared by units vector_map and disjoint_set): items extracted from
// src/data/vector_map.rs with the C19 map-model contracts. Must be included inside verus!{}.


// A-KEY: `index()` is a pure function of the key (ToUniqueIndex's documented contract).
//@extract file=src/data/vector_map.rs path="trait ToUniqueIndex" kind=type
//@rw R-SIG
//@old
fn index(&self) -> usize;
//@new
spec fn index_spec(&self) -> usize;
fn index(&self) -> (r: usize)
    ensures r == self.index_spec();
//@end

//@extract file=src/data/vector_map.rs path="impl ToUniqueIndex for usize" kind=type id=usize::ToUniqueIndex
//@rw R-SIG
//@old
fn index(&self) -> usize {
//@new
open spec fn index_spec(&self) -> usize { *self }
fn index(&self) -> (r: usize) {
//@end

//@extract file=src/data/vector_map.rs path="struct VectorMap" kind=type
//@end

pub open spec fn count_some<V>(s: Seq<Option<V>>) -> nat
    decreases s.len()
{
    if s.len() == 0 { 0 } else { count_some(s.drop_last()) + if s.last().is_some() { 1nat } else { 0nat } }
}

proof fn lemma_count_push<V>(s: Seq<Option<V>>, x: Option<V>)
    ensures count_some(s.push(x)) == count_some(s) + if x.is_some() { 1nat } else { 0nat }
{
    assert(s.push(x).drop_last() =~= s);
}

proof fn lemma_count_update<V>(s: Seq<Option<V>>, i: int, x: Option<V>)
    requires 0 <= i < s.len()
    ensures count_some(s.update(i, x)) + (if s[i].is_some() { 1nat } else { 0nat }) == count_some(s) + (if x.is_some() { 1nat } else { 0nat })
    decreases s.len()
{
    if i == s.len() - 1 {
        assert(s.update(i, x).drop_last() =~= s.drop_last());
    } else {
        lemma_count_update(s.drop_last(), i, x);
        assert(s.update(i, x).drop_last() =~= s.drop_last().update(i, x));
    }
}

proof fn lemma_count_le_len<V>(s: Seq<Option<V>>)
    ensures count_some(s) <= s.len()
    decreases s.len()
{
    if s.len() > 0 { lemma_count_le_len(s.drop_last()); }
}

proof fn lemma_count_zero_all_none<V>(s: Seq<Option<V>>)
    requires count_some(s) == 0
    ensures forall|i: int| 0 <= i < s.len() ==> s[i].is_none()
    decreases s.len()
{
    if s.len() > 0 {
        lemma_count_zero_all_none(s.drop_last());
        assert forall|i: int| 0 <= i < s.len() implies s[i].is_none() by {
            if i < s.len() - 1 { assert(s.drop_last()[i] == s[i]); }
        }
    }
}

proof fn lemma_count_pos_nonempty<V>(s: Seq<Option<V>>)
    requires count_some(s) > 0
    ensures s.len() > 0
{
}

// ---- abstract model: a total function from indices to Option<V>, plus the reported length ----
impl<K: ToUniqueIndex, V> VectorMap<K, V> {
    /// model lookup
    pub closed spec fn sget(&self, i: int) -> Option<V> {
        if 0 <= i < self.data@.len() { self.data@[i] } else { None }
    }
    /// representation invariant: the reported size is the number of present entries
    pub closed spec fn wf(&self) -> bool {
        self.size as nat == count_some(self.data@)
    }
    pub closed spec fn slen(&self) -> nat { self.size as nat }
    /// number of present entries of the model
    pub closed spec fn card(&self) -> nat { count_some(self.data@) }
    pub closed spec fn backing_len(&self) -> nat { self.data@.len() }
}

//@extract file=src/data/vector_map.rs path="impl<K, V> VectorMap<K, V>" kind=header
//@end

//@extract file=src/data/vector_map.rs path="impl<K, V> VectorMap<K, V>|fn new"
//@ret r
//@spec
        ensures
            r.wf(),                                        //@ob C19.vm.new.wf
            r.slen() == 0,                                 //@ob C19.vm.new.len0
            forall|i: int| r.sget(i).is_none(),            //@ob C19.vm.new.empty
//@end

//@extract file=src/data/vector_map.rs path="impl<K, V> VectorMap<K, V>|fn with_capacity"
//@ret r
//@spec
        ensures
            r.wf(),                                        //@ob C19.vm.with_capacity.wf
            r.slen() == 0,                                 //@ob C19.vm.with_capacity.len0
            forall|i: int| r.sget(i).is_none(),            //@ob C19.vm.with_capacity.empty
//@end

//@extract file=src/data/vector_map.rs path="impl<K, V> VectorMap<K, V>|fn new_with_vec"
//@ret r
//@spec
        requires data@.len() == 0,
        ensures
            r.wf(), r.slen() == 0,                         //@ob C19.vm.new_with_vec.wf
            forall|i: int| r.sget(i).is_none(),            //@ob C19.vm.new_with_vec.empty
//@proof entry
        proof { assert(count_some(data@) == 0); }
//@end

//@extract file=src/data/vector_map.rs path="impl<K, V> VectorMap<K, V>|fn insert"
//@spec
        requires old(self).wf(),
        ensures
            final(self).wf(),                                                                                               //@ob C19.vm.insert.wf
            forall|i: int| final(self).sget(i) == if i == key.index_spec() { Some(value) } else { old(self).sget(i) },     //@ob C19.vm.insert.contents_and_frame
            final(self).slen() == old(self).slen() + if old(self).sget(key.index_spec() as int).is_none() { 1nat } else { 0nat },  //@ob C19.vm.insert.len
//@loop 1 kind=while
            invariant self.size == old(self).size, count_some(self.data@) == count_some(old(self).data@),
                self.data@.len() >= old(self).data@.len(),
                forall|i: int| 0 <= i < old(self).data@.len() ==> self.data@[i] == old(self).data@[i],
                forall|i: int| old(self).data@.len() <= i < self.data@.len() ==> self.data@[i].is_none(),
            decreases index + 1 - self.data.len(),
//@proof loopstart #1
            proof { lemma_count_push(self.data@, None); }
//@proof afterloop #1
        proof { lemma_count_update(self.data@, index as int, Some(value)); lemma_count_le_len(self.data@.update(index as int, Some(value))); }
//@end

//@extract file=src/data/vector_map.rs path="impl<K, V> VectorMap<K, V>|fn get"
//@ret r
//@spec
        ensures
            match r { Some(x) => self.sget(key.index_spec() as int) == Some(*x), None => self.sget(key.index_spec() as int).is_none() },   //@ob C19.vm.get.model
//@end

//@extract file=src/data/vector_map.rs path="impl<K, V> VectorMap<K, V>|fn remove"
//@ret r
//@spec
        requires old(self).wf(),
        ensures
            final(self).wf(),                                                                                     //@ob C19.vm.remove.wf
            r == old(self).sget(key.index_spec() as int),                                                         //@ob C19.vm.remove.returns_old
            forall|i: int| final(self).sget(i) == if i == key.index_spec() { None } else { old(self).sget(i) },   //@ob C19.vm.remove.contents_and_frame
            final(self).slen() == old(self).slen() - if r.is_some() { 1nat } else { 0nat },                      //@ob C19.vm.remove.len
//@proof entry
        proof { if key.index_spec() < self.data@.len() { lemma_count_update(self.data@, key.index_spec() as int, None); } }
//@end

//@extract file=src/data/vector_map.rs path="impl<K, V> VectorMap<K, V>|fn len"
//@ret r
//@spec
        requires self.wf(),
        ensures r as nat == self.card(), r as nat == self.slen(),     //@ob C19.vm.len.is_cardinality
//@end

//@extract file=src/data/vector_map.rs path="impl<K, V> VectorMap<K, V>|fn is_empty"
//@ret r
//@spec
        requires self.wf(),
        ensures r == (self.card() == 0),                              //@ob C19.vm.is_empty.iff_no_entries
            r ==> forall|i: int| self.sget(i).is_none(),              //@ob C19.vm.is_empty.model_empty
//@proof entry
        proof { if self.size == 0 { lemma_count_zero_all_none(self.data@); } }
//@end

//@extract file=src/data/vector_map.rs path="impl<K, V> VectorMap<K, V>|fn max_key_index"
//@ret r
//@spec
        requires self.wf(),
        ensures r.is_some() == (self.card() > 0),                     //@ob C19.vm.max_key_index.some_iff_nonempty
            r.is_some() ==> r.unwrap() + 1 == self.backing_len(),
//@proof entry
        proof { if self.size > 0 { lemma_count_pos_nonempty(self.data@); } }
//@end
}
