//@unit props=C12,C14,C17,C01
// Unit abi_type — `TypeChecker::abi_type_for_impl` / `abi_type_for` (src/tc/mod.rs): the conversion of the ONE resolved type
// expression of a variable (C14, callee `type_of`, proved in unit type_of) into the reported ABI type(s), with the helpers
// `AbiValue::expect_type`, `From<AbiType> / From<&AbiType> for AbiValue`, `StructElement::new`, `Error::locate`,
// `From<E> for Errors<E>`, `TypeExpression::is_type_constructor`, `WordUse::size` (contract of unit word_use, re-proved here by include).
//
//   C12 ("every entry starts inside its slot and, when its type has a known width, also ends inside it"): the width the layout
//        reports must be the width that was inferred, and the offsets it reports must be the span offsets.
//          * Word arm: on Ok(Type(t)), abi_width(t) == the inferred width (a bytes word whose width is not a multiple of 8 becomes
//            Bits{w}, never a rounded Bytes) and the usage selects the constructor one-to-one;
//          * Packed arm: the pairs are, in span order, the child's Type at the span offset or the child's Packed pairs each shifted
//            by + span offset (checked per iteration against the ACTUAL child results, loop invariant
//            `C12.abi.packed.offsets_are_span_offsets`); the parent==Packed / empty / single-at-0 / single-at-nonzero (synthetic
//            whole-byte padding that ends at or before the element) / struct / plain cases select as the code documents.
//   C14: `Equal` is rejected (Err InvalidInference); `Conflict` becomes ConflictedType with the reasons; a type constructor
//        already seen on the way down becomes InfiniteType (cycle cut); the result is built from `type_of(var)` and recursion only.
//   C17: every InvalidInference is one error located at the instruction pointer of the value of `var`.
//   C01: panic freedom of the bodies under the stated preconditions (registry lookups `unwrap`, `ofs + offset`).
//
// TERMINATION (C03 "unification then finishes", C14 "cuts cycles") IS PROVED, relative to one hypothesis: the recursion is not
// structural (type variables may form cycles); the measure is the number of expressions of a FINITE universe of expressions
// (`te_universe()`, a free finite set that contains every expression left in any class — hypothesis (c) of `classes_ok`) that
// are not yet in `seen_exprs`.  Every recursive call is made after `seen_exprs.insert` of an expression that was not in the set,
// and `seen_exprs` only grows (`C14.abi.impl.seen_only_grows`).  That such a finite universe exists (the forest is a finite map
// of finite sets) is NOT established by a contract within this unit.
use vstd::prelude::*;
//@dropped TERMINATION of abi_type_for_impl is proved only RELATIVE to hypothesis (c) of classes_ok: a finite set `te_universe()` contains every expression left in any class (true of a finite forest; not established by a contract here); native stack depth of the recursion is outside every contract
//@dropped preconditions NOT discharged anywhere in this harness: registered(var); classes_ok = (a) every variable mentioned by an expression left in a class is registered, (b) packed span offsets are ranked (rank(child) + span.offset <= rank(parent) <= usize::MAX) which is what keeps `ofs + offset` from overflowing, (c) finite universe
//@dropped function-level statement of the Packed arm is existential over the child results (a child result cannot be named in a postcondition); the exact per-iteration equality against the ACTUAL child results is the labelled loop invariant C12.abi.packed.offsets_are_span_offsets
//@dropped FixedArray / Mapping / DynamicArray arms: only the outer constructor (and the 256-bit length) of the result is specified, not how the component types were obtained (they are `expect_type` of the recursive results asked with parent Other); a mutant that asks the element with ParentType::Packed is NOT detected (expect_type itself is under contract)
//@dropped `conflicts.into_iter().map(|c| format!("{c:?}")).collect()` is R-OPAQUE (`vx_debug_strings`): one uninterpreted string per conflict, in order; Debug formatting is outside Verus
//@dropped tc/mod.rs: run / lift / assign_vars / infer / unify / the layout loop that feeds `StorageLayout::add` with the pairs (closure `for_each`); `type_of` is a stand-in carrying the contract proved in unit type_of
//@dropped in-slot bounds of the reported offsets (offset < 256, offset + width <= 256) are NOT decided: they would need "spans lie inside the word and children are as wide as their span" of every Packed expression, which no contract in this harness establishes (merge's Packed arms are R-OPAQUE in unit merge)

// A-ETHNUM: stand-in for ethnum::U256 (payload of TypeExpression::FixedArray / AbiType::Array; only moved, never computed with)
mod ext {
    #[derive(Clone, Copy, PartialEq, Eq)]
    pub struct U256(pub [u128; 2]);
}
use ext::U256;

pub mod container {
use vstd::prelude::*;
verus! {
//@include stack/container_items.rs
// A-STD: see unit type_of — the conversion performed by `.into()` / `?` is the `From` impl below (proved: log == [value])
impl<E> vstd::std_specs::convert::FromSpecImpl<E> for Errors<E> {
    open spec fn obeys_from_spec() -> bool { false }
    open spec fn from_spec(v: E) -> Errors<E> { arbitrary() }
}
//@extract file=src/error/container.rs path="impl<E> Default for Errors<E>" kind=header
//@end
//@extract file=src/error/container.rs path="impl<E> Default for Errors<E>|fn default" id=container::Errors::default
//@ret r
//@spec
        ensures r.log() == Seq::<E>::empty(),        //@ob C17.abi.errors.default.empty
//@end
}
//@extract file=src/error/container.rs path="impl<E> From<E> for Errors<E>" kind=header
//@rw R-SIG
//@old
E: std::error::Error,
//@new
E: Sized,
//@end
//@extract file=src/error/container.rs path="impl<E> From<E> for Errors<E>|fn from" id=container::Errors::from_one
//@ret r
//@spec
        ensures r.log() == seq![value],              //@ob C17.abi.errors.from_one.lists_it
//@end
}
} // verus!
}

verus! {
#[verifier::external_type_specification]
#[verifier::external_body]
pub struct ExU256(U256);

// WordUse, the width constants and `WordUse::size` (r == use_width(*self), label C15.wu.size.fixed_width) — shared with unit word_use
//@include word_use/items.rs

// ---- data types (extracted verbatim) --------------------------------------------------------------------
// A-DERIVE: #[derive(Copy, Clone, Eq, PartialEq)] on structs of scalars / field-less enums is structural
#[derive(Copy, Clone, Eq, PartialEq, Structural)]
//@extract file=src/tc/state/type_variable.rs path="struct TypeVariable" kind=type
//@end
#[derive(Copy, Clone, Eq, PartialEq, Structural)]
//@extract file=src/tc/expression.rs path="struct Span" kind=type
//@end
//@extract file=src/tc/expression.rs path="type TE" kind=type
//@end
//@extract file=src/tc/expression.rs path="enum TypeExpression" kind=type
//@end
// A-DERIVE: #[derive(Clone)] on TypeExpression returns an equal value
impl Clone for TypeExpression {
    #[verifier::external_body]
    fn clone(&self) -> (r: Self) ensures r == *self { unimplemented!() }
}
//@extract file=src/tc/expression.rs path="impl TypeExpression" kind=header
//@end
//@extract file=src/tc/expression.rs path="impl TypeExpression|fn is_type_constructor" props=C01,C03,C14
//@ret r
//@spec
        ensures
            // every expression that carries a type variable (and could close a cycle) answers true (same clause as unit merge)
            r == is_ctor(*self),     //@ob C14.abi.te.is_type_constructor.every_variable_carrying_constructor
//@end
}
pub open spec fn is_ctor(e: TypeExpression) -> bool {
    e is FixedArray || e is Mapping || e is DynamicArray || e is Equal || e is Packed
}

// A-DERIVE: derived Clone/Copy on U256Wrapper
#[derive(Clone, Copy, PartialEq, Eq)]
//@extract file=src/utility.rs path="struct U256Wrapper" kind=type
//@end

//@extract file=src/tc/abi.rs path="enum AbiType" kind=type
//@end
// A-DERIVE: #[derive(Clone)] on AbiType returns an equal value
impl Clone for AbiType {
    #[verifier::external_body]
    fn clone(&self) -> (r: Self) ensures r == *self { unimplemented!() }
}
//@extract file=src/tc/abi.rs path="struct StructElement" kind=type
//@end
//@extract file=src/tc/abi.rs path="impl StructElement" kind=header
//@end
//@extract file=src/tc/abi.rs path="impl StructElement|fn new" props=C12,C01
//@ret r
//@spec
        ensures r.offset == offset, *r.typ == typ,        //@ob C12.abi.struct_element.new.fields
//@end
}

//@extract file=src/tc/mod.rs path="enum AbiValue" kind=type
//@end
#[derive(Copy, Clone, Eq, PartialEq, Structural)]
//@extract file=src/tc/mod.rs path="enum ParentType" kind=type
//@end

// =============================================================================================================
// Specification vocabulary
// =============================================================================================================
pub open spec fn opt_nat(o: Option<usize>) -> Option<nat> {
    match o { Some(x) => Some(x as nat), None => None }
}
/// the bit width a reported type occupies in its slot, when it has one (C12: "when its type has a known width")
pub open spec fn abi_width(t: AbiType) -> Option<nat> {
    match t {
        AbiType::Number { size } => opt_nat(size),
        AbiType::UInt { size } => opt_nat(size),
        AbiType::Int { size } => opt_nat(size),
        AbiType::Bytes { length } => match length { Some(l) => Some((l * 8) as nat), None => None },
        AbiType::Bits { length } => opt_nat(length),
        AbiType::Address => Some(160nat),
        AbiType::Selector => Some(32nat),
        AbiType::Function => Some(192nat),
        AbiType::Bool => Some(8nat),
        _ => None,
    }
}
/// the usage of a word selects the reported constructor one-to-one (raw bit data: whole bytes or bits)
pub open spec fn usage_ctor(u: WordUse, t: AbiType) -> bool {
    match u {
        WordUse::Bytes => t is Bytes || t is Bits,
        WordUse::Numeric => t is Number,
        WordUse::UnsignedNumeric => t is UInt,
        WordUse::SignedNumeric => t is Int,
        WordUse::Bool => t is Bool,
        WordUse::Address => t is Address,
        WordUse::Selector => t is Selector,
        WordUse::Function => t is Function,
    }
}
/// AbiType::Bits' documented invariant: "a length in bits that is not divisible by BYTE_SIZE_BITS"
pub open spec fn bits_invariant(t: AbiType) -> bool {
    t is Bits ==> t->Bits_length is Some && t->Bits_length->0 % 8 != 0
}
/// usages with a width of their own (bool / address / selector / function): the inferred width must be that width
pub open spec fn width_admissible(width: Option<usize>, u: WordUse) -> bool {
    use_width(u) is Some ==> width == use_width(u)
}
/// the error value is exactly one located error
pub open spec fn one_error(e: Errors, at: u32) -> bool { e.log().len() == 1 && e.log()[0].location == at }
/// ... and it is an InvalidInference about `value`
pub open spec fn invalid_at(e: Errors, at: u32, value: TypeExpression) -> bool {
    one_error(e, at) && e.log()[0].payload is InvalidInference && e.log()[0].payload->InvalidInference_value == value
}

/// what one child result contributes to the pairs of its packed parent: a single type sits at the span's offset, a nested
/// packed encoding has every offset shifted by the span's offset (C12: "span offsets accumulate through nested packed types")
pub open spec fn shift(p: (AbiType, usize), off: usize) -> (AbiType, usize) { (p.0, (p.1 + off) as usize) }
pub open spec fn contrib(cr: AbiValue, off: usize) -> Seq<(AbiType, usize)> {
    match cr {
        AbiValue::Type(t) => seq![(t, off)],
        AbiValue::Packed(xs) => xs@.map_values(|p: (AbiType, usize)| shift(p, off)),
    }
}
pub open spec fn flat(crs: Seq<AbiValue>, spans: Seq<Span>) -> Seq<(AbiType, usize)>
    decreases crs.len()
{
    if crs.len() == 0 || spans.len() != crs.len() { Seq::empty() }
    else { flat(crs.drop_last(), spans.drop_last()) + contrib(crs.last(), spans.last().offset) }
}
/// the synthetic element in front of a lone element at a non-zero offset: raw bytes from bit 0, as many WHOLE bytes as fit
/// before the element — it never overlaps the element (8*len <= o) and leaves less than a byte uncovered
pub open spec fn is_padding_for(pad: (AbiType, usize), o: usize) -> bool {
    pad.1 == 0 && pad.0 is Bytes && pad.0->Bytes_length is Some
        && 8 * pad.0->Bytes_length->0 <= o < 8 * pad.0->Bytes_length->0 + 8
}
/// struct elements carry exactly the pairs (offset, type), in order
pub open spec fn elements_are(es: Seq<StructElement>, ps: Seq<(AbiType, usize)>) -> bool {
    es.len() == ps.len() && forall|i: int| 0 <= i < ps.len() ==> (#[trigger] es[i]).offset == ps[i].1 && *es[i].typ == ps[i].0
}
/// how the collected pairs of a packed expression are reported (tc/mod.rs, comments of the Packed arm)
spec fn selected(parent: ParentType, is_struct: bool, pairs: Seq<(AbiType, usize)>, out: AbiValue) -> bool {
    if parent == ParentType::Packed {
        // "If it has packed as a parent, we want to return them no matter what."
        out is Packed && out->Packed_0@ =~= pairs
    } else if pairs.len() == 0 {
        // "If it is empty, we know nothing"
        out == AbiValue::Type(AbiType::Any)
    } else if pairs.len() == 1 {
        if pairs[0].1 == 0 {
            // "If the offset is zero the slot is the contained type"
            out == AbiValue::Type(pairs[0].0)
        } else {
            // "it's actually a packed where we don't know its elements so we have to insert a synthetic element to make the spacing work"
            out is Packed && out->Packed_0@.len() == 2 && is_padding_for(out->Packed_0@[0], pairs[0].1) && out->Packed_0@[1] == pairs[0]
        }
    } else if is_struct {
        // "If it is a struct it is a single element, so we turn it into one"
        out is Type && out->Type_0 is Struct && elements_are(out->Type_0->Struct_elements@, pairs)
    } else {
        // "Otherwise it is a standard packed encoding, so we return a set of sub-slot types"
        out is Packed && out->Packed_0@ =~= pairs
    }
}
/// every reported offset is at most `bound`
pub open spec fn offs_le(v: AbiValue, bound: nat) -> bool {
    v is Packed ==> forall|k: int| 0 <= k < v->Packed_0@.len() ==> (#[trigger] v->Packed_0@[k]).1 <= bound
}
/// `expect_type` on a packed value: a struct of the pairs, with whole-byte padding in front when the first pair does not start at 0
pub open spec fn expected_elements(ps: Seq<(AbiType, usize)>, es: Seq<StructElement>) -> bool {
    if ps.len() > 0 && ps[0].1 != 0 {
        es.len() == ps.len() + 1 && is_padding_for((*es[0].typ, es[0].offset), ps[0].1) && elements_are(es.subrange(1, es.len() as int), ps)
    } else {
        elements_are(es, ps)
    }
}


// ---- the clauses of the contract (shared by abi_type_for_impl and abi_type_for) ---------------------------------------
/// the conversion stops at a type constructor it has already seen on the way down (cycle cut)
pub open spec fn cut(tc0: TypeChecker, var: TypeVariable, seen0: Set<TypeExpression>) -> bool {
    seen0.contains(tc0.te_of(var)) && is_ctor(tc0.te_of(var))
}
/// there is exactly one resolved expression and it is converted (not cut)
pub open spec fn live(tc0: TypeChecker, var: TypeVariable, seen0: Set<TypeExpression>) -> bool {
    tc0.resolved(var) && !cut(tc0, var, seen0)
}
/// C14/C17: without exactly one resolved expression there is no type: `type_of`'s located error is handed on unchanged
pub open spec fn c_unresolved(tc0: TypeChecker, var: TypeVariable, r: Result<AbiValue>) -> bool {
    &&& !tc0.resolved(var) ==> r is Err && one_error(r->Err_0, tc0.ip_of(var))
    &&& tc0.class(var) is None ==> r is Err && r->Err_0.log()[0].payload == (Error::UnificationFailure { var })
    &&& tc0.class(var) is Some && tc0.class(var)->Some_0@.len() > 1 ==> r is Err && r->Err_0.log()[0].payload is UnificationIncomplete
}
pub open spec fn c_cut(r: Result<AbiValue>) -> bool { r is Ok && r->Ok_0 == AbiValue::Type(AbiType::InfiniteType) }
pub open spec fn c_simple(te: TypeExpression, r: Result<AbiValue>) -> bool {
    &&& te is Any ==> r is Ok && r->Ok_0 == AbiValue::Type(AbiType::Any)
    &&& te is Bytes ==> r is Ok && r->Ok_0 == AbiValue::Type(AbiType::DynBytes)
}
/// C12: the width that is reported is the width that was inferred
pub open spec fn c_word_width(te: TypeExpression, r: Result<AbiValue>) -> bool {
    te is Word && r is Ok ==> r->Ok_0 is Type && abi_width(r->Ok_0->Type_0) == opt_nat(te->width)
}
/// C15/C12: the usage selects the constructor one-to-one; Bits only for widths that are not whole bytes
pub open spec fn c_word_usage(te: TypeExpression, r: Result<AbiValue>) -> bool {
    te is Word && r is Ok ==> r->Ok_0 is Type && usage_ctor(te->usage, r->Ok_0->Type_0) && bits_invariant(r->Ok_0->Type_0)
}
/// C17: a fixed-width usage with another width is an InvalidInference located at the value, and nothing else fails
pub open spec fn c_word_checked(te: TypeExpression, ip: u32, r: Result<AbiValue>) -> bool {
    te is Word ==> (r is Ok <==> width_admissible(te->width, te->usage)) && (r is Err ==> invalid_at(r->Err_0, ip, te))
}
/// C14: a conflict is reported as a conflicted type carrying the reasons (and one rendering per conflicting expression)
pub open spec fn c_conflict(te: TypeExpression, r: Result<AbiValue>) -> bool {
    te is Conflict ==> r is Ok && r->Ok_0 is Type && r->Ok_0->Type_0 is ConflictedType
        && r->Ok_0->Type_0->ConflictedType_reasons == te->Conflict_reasons
        && r->Ok_0->Type_0->ConflictedType_conflicts@.len() == te->Conflict_conflicts@.len()
        && forall|i: int| 0 <= i < te->Conflict_conflicts@.len() ==> #[trigger] r->Ok_0->Type_0->ConflictedType_conflicts@[i] == debug_string(*te->Conflict_conflicts@[i])
}
/// C14: an unresolved equality is never converted
pub open spec fn c_equal(te: TypeExpression, ip: u32, r: Result<AbiValue>) -> bool {
    te is Equal ==> r is Err && invalid_at(r->Err_0, ip, te)
}
/// C14/C06: constructed types keep their constructor (and a fixed array its full 256-bit length)
pub open spec fn c_constructed(te: TypeExpression, r: Result<AbiValue>) -> bool {
    &&& te is FixedArray && r is Ok ==> r->Ok_0 is Type && r->Ok_0->Type_0 is Array && r->Ok_0->Type_0->Array_size.0 == te->FixedArray_length
    &&& te is Mapping && r is Ok ==> r->Ok_0 is Type && r->Ok_0->Type_0 is Mapping
    &&& te is DynamicArray && r is Ok ==> r->Ok_0 is Type && r->Ok_0->Type_0 is DynArray
}
/// the children of a packed expression are asked with parent == Packed ("If it has packed as a parent, we want to return them no
/// matter what"): a child that itself resolves to a packed expression contributes its raw pairs — never a collapsed single type,
/// struct or padded pair — unless it is cut as an infinite type
pub open spec fn child_raw(tc0: TypeChecker, typ: TypeVariable, cr: AbiValue) -> bool {
    tc0.resolved(typ) && tc0.te_of(typ) is Packed ==> cr is Packed || cr == AbiValue::Type(AbiType::InfiniteType)
}
/// C12: a packed expression reports the selection of the flattened child results (for SOME child results: see //@dropped)
spec fn c_packed(tc0: TypeChecker, te: TypeExpression, parent: ParentType, r: Result<AbiValue>) -> bool {
    te is Packed && r is Ok ==> exists|crs: Seq<AbiValue>| crs.len() == te->types@.len()
        && (forall|k: int| 0 <= k < crs.len() ==> child_raw(tc0, te->types@[k].typ, #[trigger] crs[k]))
        && selected(parent, te->is_struct, #[trigger] flat(crs, te->types@), r->Ok_0)
}
/// C12/C01: every reported offset is bounded by the rank of the variable
pub open spec fn c_ranked(var: TypeVariable, r: Result<AbiValue>) -> bool {
    r is Ok ==> offs_le(r->Ok_0, ofs_rank(var))
}

// ---- conversions into AbiValue ---------------------------------------------------------------------------------
impl vstd::std_specs::convert::FromSpecImpl<AbiType> for AbiValue {
    open spec fn obeys_from_spec() -> bool { false }
    open spec fn from_spec(v: AbiType) -> AbiValue { arbitrary() }
}
impl<'a> vstd::std_specs::convert::FromSpecImpl<&'a AbiType> for AbiValue {
    open spec fn obeys_from_spec() -> bool { false }
    open spec fn from_spec(v: &'a AbiType) -> AbiValue { arbitrary() }
}
//@extract file=src/tc/mod.rs path="impl From<AbiType> for AbiValue" kind=header
//@end
//@extract file=src/tc/mod.rs path="impl From<AbiType> for AbiValue|fn from" props=C12,C01
//@ret r
//@spec
        ensures r == AbiValue::Type(value),          //@ob C12.abi.value_from_type.single_type
//@end
}
//@extract file=src/tc/mod.rs path="impl From<&AbiType> for AbiValue" kind=header
//@end
//@extract file=src/tc/mod.rs path="impl From<&AbiType> for AbiValue|fn from" props=C12,C01
//@ret r
//@spec
        ensures r == AbiValue::Type(*value),         //@ob C12.abi.value_from_type_ref.single_type
//@end
}

//@extract file=src/tc/mod.rs path="impl AbiValue" kind=header
//@end
//@extract file=src/tc/mod.rs path="impl AbiValue|fn expect_type" props=C12,C01
//@ret r
// R-SIG: Verus wants a named parameter.
// R-FOREACH: `.iter().map(closure).collect_vec()` (itertools) -> index loop pushing the closure's body, carried over verbatim (wildcard).
//@rw R-SIG
//@old
_: &'static str
//@new
_msg: &'static str
//@rw R-FOREACH
//@old
let mut elements = tps
                    .iter()
                    .map(|(tp, off)| $1)
                    .collect_vec();
//@new
let mut elements: Vec<StructElement> = Vec::new();
                let mut vx_k: usize = 0;
                while vx_k < tps.len()
                    invariant
                        vx_k <= tps.len(),
                        elements_are(elements@, tps@.take(vx_k as int)),       //@ob C12.abi.expect_type.offsets_kept_padding_fits
                    decreases tps.len() - vx_k,
                { let (tp, off) = &tps[vx_k]; vx_k += 1; elements.push($1); }
                assert(tps@.take(vx_k as int) =~= tps@);
                let ghost vx_es0 = elements@;
//@proof before "AbiType::Struct { elements }"
                proof {
                    if tps@.len() > 0 && tps@[0].1 != 0 {
                        assert(elements@.subrange(1, elements@.len() as int) =~= vx_es0);
                    }
                }
//@spec
        ensures
            self is Type ==> r == self->Type_0,                                                                   //@ob C12.abi.expect_type.single_type_unchanged
            self is Packed ==> r is Struct && expected_elements(self->Packed_0@, r->Struct_elements@),          //@ob C12.abi.expect_type.offsets_kept_padding_fits
//@end
}

// ---- stand-ins ---------------------------------------------------------------------------------------------
// A-STD (robustness shim, not used by the pinned text): `usize::div_ceil` — so that an edit that rounds a width reaches the contracts
pub assume_specification[ usize::div_ceil ](a: usize, b: usize) -> (r: usize)
    requires b != 0,
    ensures r as int == (if a % b == 0 { (a / b) as int } else { a / b + 1 });
// A-STD (type stand-in): `InferenceSet = HashSet<TypeExpression>` as the data of a class; its view is the finite set of its elements.
#[verifier::external_body]
pub struct InferenceSet { _s: std::collections::HashSet<u8> }
impl InferenceSet {
    pub uninterp spec fn view(&self) -> Set<TypeExpression>;
}

// A-STD (type stand-in): `std::collections::HashSet<T>` as a ghost finite set with the three operations used here.
// A-DERIVE: Hash/Eq of TypeExpression are structural, so membership is membership of the value.
#[verifier::external_body]
#[verifier::reject_recursive_types(T)]
pub struct HashSet<T> { _s: std::collections::HashSet<u8>, _p: core::marker::PhantomData<T> }
impl<T> HashSet<T> {
    pub uninterp spec fn view(&self) -> Set<T>;
    // A-STD: HashSet::new is empty
    #[verifier::external_body]
    pub fn new() -> (r: Self) ensures r@ == Set::<T>::empty() { unimplemented!() }
    // A-STD: HashSet::contains
    #[verifier::external_body]
    pub fn contains(&self, value: &T) -> (r: bool) ensures r == self@.contains(*value) { unimplemented!() }
    // A-STD: HashSet::insert
    #[verifier::external_body]
    pub fn insert(&mut self, value: T) -> (r: bool) ensures final(self)@ == old(self)@.insert(value), r == !old(self)@.contains(value) { unimplemented!() }
}

// A-CALLEE (type stand-in): a boxed value of the type checker; only its instruction pointer is read.
#[verifier::external_body]
pub struct TCBoxedVal { _p: u8 }
impl TCBoxedVal {
    pub uninterp spec fn ip(&self) -> u32;
    #[verifier::external_body]
    pub fn instruction_pointer(&self) -> (r: u32) ensures r == self.ip() { unimplemented!() }
}
// A-CALLEE (type stand-in): `TypeCheckerState` reduced to the unification result (per-class data) and the value registry.
#[verifier::external_body]
pub struct TypeCheckerState { _p: u8 }
impl TypeCheckerState {
    pub uninterp spec fn class(&self, v: TypeVariable) -> Option<InferenceSet>;
    /// the variable is registered with a value
    pub uninterp spec fn has_value(&self, v: TypeVariable) -> bool;
    pub uninterp spec fn value_of(&self, v: TypeVariable) -> TCBoxedVal;
    // A-CALLEE: `value(v)` = `self.expressions.get(&v)`: None for an unregistered variable — `abi_type_for_impl` UNWRAPS it,
    // hence its precondition `registered(var)` (C01).  (`impl Into<TypeVariable>` monomorphised, R-IMPL-INTO in the stand-in.)
    #[verifier::external_body]
    pub fn value(&self, variable: TypeVariable) -> (r: Option<&TCBoxedVal>)
        ensures r is Some == self.has_value(variable), r is Some ==> *r->Some_0 == self.value_of(variable),
    { unimplemented!() }
}
// A-CALLEE (type stand-ins): configuration and watchdog are untouched here
#[verifier::external_body]
pub struct Config { _p: u8 }
#[verifier::external_body]
pub struct DynWatchdog { _p: u8 }

// ---- errors (extracted) ------------------------------------------------------------------------------------
//@extract file=src/error/unification.rs path="enum Error" kind=type id=unification::Error
//@end
// A-DERIVE: #[derive(Clone)] on Error returns an equal value (needed by `Located<E: Clone>`)
impl Clone for Error {
    #[verifier::external_body]
    fn clone(&self) -> (r: Self) ensures r == *self { unimplemented!() }
}
//@extract file=src/error/unification.rs path="type LocatedError" kind=type
//@end
//@extract file=src/error/unification.rs path="type Errors" kind=type
//@end
//@extract file=src/error/unification.rs path="type Result" kind=type
//@end
use container::Locatable;
//@extract file=src/error/unification.rs path="impl container::Locatable for Error" kind=header
//@end
    type Located = LocatedError;
//@extract file=src/error/unification.rs path="impl container::Locatable for Error|fn locate" id=unification::Error::locate props=C17,C01
//@ret r
//@spec
        ensures r.location == instruction_pointer,     //@ob C17.abi.locate.location
                r.payload == self,                     //@ob C17.abi.locate.payload
//@end
}

// R-OPAQUE stand-in for `conflicts.into_iter().map(|c| format!("{c:?}")).collect()`: one string per conflict, in order, each an
// uninterpreted function of the conflicting expression (Debug formatting is outside Verus).
pub uninterp spec fn debug_string(t: TypeExpression) -> String;
#[verifier::external_body]
fn vx_debug_strings(conflicts: Vec<Box<TypeExpression>>) -> (r: Vec<String>)
    ensures r@.len() == conflicts@.len(), forall|i: int| 0 <= i < r@.len() ==> #[trigger] r@[i] == debug_string(*conflicts@[i]),
{ unimplemented!() }
// A-DERIVE (R-CALL stand-in): `pair.clone()` on `&(AbiType, usize)` — the tuple Clone instance is built in (Verus: "built-in
// instance"); it clones component-wise, AbiType::clone returns an equal value.
#[verifier::external_body]
fn vx_clone_pair(p: &(AbiType, usize)) -> (r: (AbiType, usize)) ensures r == *p { unimplemented!() }

// ---- the type checker ----------------------------------------------------------------------------------------
//@extract file=src/tc/mod.rs path="struct TypeChecker" kind=type
//@end
impl TypeChecker {
    /// the expressions the unifier left for the class of `v` (None: the class carries no data at all)
    pub closed spec fn class(&self, v: TypeVariable) -> Option<InferenceSet> { self.state.class(v) }
    pub closed spec fn registered(&self, v: TypeVariable) -> bool { self.state.has_value(v) }
    pub closed spec fn ip_of(&self, v: TypeVariable) -> u32 { self.state.value_of(v).ip() }
    /// `type_of(v)` succeeds: the class holds at most one expression (C14; established by `unify`, unit unify)
    pub open spec fn resolved(&self, v: TypeVariable) -> bool { self.class(v) is Some && self.class(v)->Some_0@.len() <= 1 }
    /// the one resolved expression of `v` (`Any` for an empty class) — what `type_of(v)` returns
    pub open spec fn te_of(&self, v: TypeVariable) -> TypeExpression {
        if self.class(v)->Some_0@.len() == 0 { TE::Any } else { self.class(v)->Some_0@.choose() }
    }
}
/// the query changes neither the classes nor the registry (path compression only)
pub open spec fn same_frame(a: TypeChecker, b: TypeChecker) -> bool {
    &&& forall|v: TypeVariable| #[trigger] b.class(v) == a.class(v)
    &&& forall|v: TypeVariable| #[trigger] b.registered(v) == a.registered(v)
    &&& forall|v: TypeVariable| #[trigger] b.ip_of(v) == a.ip_of(v)
}

// ---- what the conversion NEEDS of the unification result (C01) and where it would come from ----------------------
/// A FREE ranking of the variables: the contract holds for EVERY interpretation of this function (it is universally
/// quantified), so a caller may pick the one that fits its state.
pub uninterp spec fn ofs_rank(v: TypeVariable) -> nat;
/// For an expression `e` left in the class of `v`:
///  (a) every variable it mentions is registered with a value — the recursion unwraps `state.value(child)`.
///      Source: every variable is issued by `TypeCheckerState::register / allocate_ty_var`, both of which enter it into
///      `expressions`; NOT established by a contract within this harness.
///  (b) for a packed expression, `rank(child) + span.offset <= rank(v) <= usize::MAX` — this is what keeps `ofs + offset` from
///      overflowing through nested packed encodings.  It holds e.g. with rank = "bits available to the variable" when every span
///      lies inside the 256-bit word and a nested packed encoding stays inside its span; it cannot hold for a packed expression
///      that (transitively) contains itself at a non-zero offset.  NOT established by a contract within this unit or harness
///      (span offsets come from tc/lift/packed_encoding.rs and merge's Packed arms, R-OPAQUE in unit merge).
pub open spec fn expr_ok(tc: TypeChecker, v: TypeVariable, e: TypeExpression) -> bool {
    match e {
        TypeExpression::FixedArray { element, .. } => tc.registered(element),
        TypeExpression::Mapping { key, value } => tc.registered(key) && tc.registered(value),
        TypeExpression::DynamicArray { element } => tc.registered(element),
        TypeExpression::Packed { types, .. } => ofs_rank(v) <= usize::MAX && forall|k: int| 0 <= k < types@.len() ==>
            tc.registered((#[trigger] types@[k]).typ) && ofs_rank(types@[k].typ) + types@[k].offset <= ofs_rank(v),
        _ => true,
    }
}
pub open spec fn classes_ok(tc: TypeChecker) -> bool {
    forall|v: TypeVariable, e: TypeExpression| tc.class(v) is Some && #[trigger] tc.class(v)->Some_0@.contains(e)
        ==> expr_ok(tc, v, e) && te_universe().contains(e)
}
/// (c) TERMINATION: a FREE finite set (vstd's `Set` is finite) that contains every expression left in any class.  Such a set
///     exists because the forest is a finite map of finite sets; NOT established by a contract within this unit.
pub uninterp spec fn te_universe() -> Set<TypeExpression>;
/// the termination measure: expressions of the universe that have not been seen yet
pub open spec fn unseen(seen: Set<TypeExpression>) -> nat { te_universe().difference(seen).len() }
/// recording a new expression of the universe (and anything else on top) strictly lowers the measure
pub broadcast proof fn lemma_measure<A>(u: Set<A>, a: Set<A>, t: A, b: Set<A>)
    requires a.insert(t).subset_of(b), u.contains(t), !a.contains(t),
    ensures #![trigger u.difference(b).len(), a.insert(t)] u.difference(b).len() < u.difference(a).len(),
{
    let da = u.difference(a);
    let db = u.difference(b);
    assert(db.subset_of(da.remove(t)));
    vstd::set_lib::lemma_len_subset(db, da.remove(t));
    assert(da.contains(t));
}

/// a one-element set has one element
pub broadcast proof fn lemma_single<A>(s: Set<A>, a: A)
    requires s.len() == 1, s.contains(a),
    ensures #![trigger s.contains(a), s.choose()] s.choose() == a,
{
    let b = s.choose();
    if b != a {
        assert(s.remove(a).contains(b));
        assert(s.remove(a).len() == 0);
    }
}

//@extract file=src/tc/mod.rs path="impl TypeChecker" kind=header
//@end
    // A-CALLEE: `type_of` with exactly the contract PROVED in unit type_of (labels C14.type_of.type_of.*)
    #[verifier::external_body]
    pub fn type_of(&mut self, type_variable: TypeVariable) -> (r: Result<TypeExpression>)
        requires
            old(self).registered(type_variable),
        ensures
            r is Ok ==> old(self).class(type_variable) is Some && (
                   (old(self).class(type_variable)->Some_0@.len() == 0 && r->Ok_0 == TE::Any)
                || (old(self).class(type_variable)->Some_0@.len() == 1 && old(self).class(type_variable)->Some_0@.contains(r->Ok_0))),
            old(self).class(type_variable) is Some && old(self).class(type_variable)->Some_0@.len() <= 1 ==> r is Ok,
            old(self).class(type_variable) is Some && old(self).class(type_variable)->Some_0@.len() > 1 ==> r is Err
                && one_error(r->Err_0, old(self).ip_of(type_variable))
                && r->Err_0.log()[0].payload is UnificationIncomplete,
            old(self).class(type_variable) is None ==> r is Err && one_error(r->Err_0, old(self).ip_of(type_variable))
                && r->Err_0.log()[0].payload == (Error::UnificationFailure { var: type_variable }),
            forall|v: TypeVariable| #[trigger] final(self).class(v) == old(self).class(v),
            forall|v: TypeVariable| #![trigger final(self).registered(v)] #![trigger final(self).ip_of(v)] final(self).registered(v) == old(self).registered(v) && final(self).ip_of(v) == old(self).ip_of(v),
    { unimplemented!() }

// TERMINATION: `decreases unseen(old(seen_exprs)@)` — see the head of the file; `lemma_measure` is the one fact needed (recording an
// unseen expression of the universe, and anything on top of it, strictly lowers the number of unseen expressions).
#[verifier::loop_isolation(false)]
//@extract file=src/tc/mod.rs path="impl TypeChecker|fn abi_type_for_impl"
//@ret r
// ---- rewrites --------------------------------------------------------------------------------------------------------
// R-SIG (closure annotation, as in unit layout): Verus infers nothing about an unannotated closure handed to `Option::map`; the
// closure's BODY is carried over verbatim (the wildcard).  Its postcondition is C12's: the byte length, times 8, is the inferred width.
// R-FOREACH: `for <pattern> in types` -> the same loop with a named iterator (for the invariant) and the pattern bound in the body
// R-FOREACH: `pairs.extend(xs.into_iter().map(|(ty, ofs)| BODY))` -> a loop pushing BODY (carried over verbatim as the wildcard, so that
// `ofs + offset` stays in front of the verifier); the child's result is recorded in the ghost history first
// R-PROOF: the single-type arm is an expression; it gets a block so that the child's result can be recorded in the ghost history
// R-CALL: the built-in tuple Clone instance -> A-DERIVE stand-in
// R-FOREACH: `.into_iter().map(closure).collect()` -> a loop pushing the closure's body (carried over verbatim as the wildcard)
// R-OPAQUE: Debug formatting of the conflicting expressions
//@rw R-SIG optional
//@old
width.map(|w| $1)
//@new
width.map(|w: usize| -> (vx_q: usize)
                            ensures w % 8 == 0 ==> vx_q * 8 == w        //@ob C12.abi.word.width_faithful
                            { $1 })
//@rw R-FOREACH
//@old
; for $1 in types {
//@new
;
                let ghost vx_spans = types@;
                let ghost vx_seen1 = seen_exprs@;
                for vx_span in vx_it: types
                    invariant
                        vx_it.seq() == vx_spans,
                        vx_crs.len() == vx_it.index@,
                        pairs@ =~= flat(vx_crs, vx_spans.take(vx_it.index@ as int)),           //@ob C12.abi.packed.offsets_are_span_offsets
                        forall|k: int| 0 <= k < vx_crs.len() ==> child_raw(vx_tc0, vx_spans[k].typ, #[trigger] vx_crs[k]),       //@ob C12.abi.packed.children_asked_as_packed
                        forall|k: int| 0 <= k < pairs@.len() ==> (#[trigger] pairs@[k]).1 <= ofs_rank(var),       //@ob C12.abi.packed.offsets_bounded_by_rank
                        same_frame(vx_tc0, *self),
                        classes_ok(*self),
                        vx_seen1.subset_of(seen_exprs@),
                {
                    let $1 = vx_span;
                    let ghost vx_i = vx_it.index@ as int;
                    let ghost vx_pairs0 = pairs@;
                    let ghost vx_crs0 = vx_crs;
                    proof {
                        assert(vx_spans[vx_i] == vx_span);
                        assert(vx_spans.take(vx_i + 1).drop_last() =~= vx_spans.take(vx_i));
                    }
//@rw R-FOREACH
//@old
pairs.extend(xs.into_iter().map(|(ty, ofs)| $1));
//@new
proof { vx_crs = vx_crs.push(AbiValue::Packed(xs)); }
                            let ghost vx_xs = xs@;
                            for vx_pair in vx_jt: xs
                                invariant
                                    vx_jt.seq() == vx_xs,
                                    pairs@ =~= vx_pairs0 + vx_xs.take(vx_jt.index@ as int).map_values(|p: (AbiType, usize)| shift(p, offset)),       //@ob C12.abi.packed.offsets_are_span_offsets
                                    forall|k: int| 0 <= k < pairs@.len() ==> (#[trigger] pairs@[k]).1 <= ofs_rank(var),       //@ob C12.abi.packed.offsets_bounded_by_rank
                            {
                                let (ty, ofs) = vx_pair;
                                proof { assert(vx_xs[vx_jt.index@ as int] == vx_pair); }
                                pairs.push($1);
                                proof {
                                    let j = vx_jt.index@ as int;
                                    assert(vx_xs.take(j + 1).map_values(|p: (AbiType, usize)| shift(p, offset))
                                        =~= vx_xs.take(j).map_values(|p: (AbiType, usize)| shift(p, offset)).push(shift(vx_xs[j], offset)));
                                }
                            }
                            proof { assert(vx_xs.take(vx_xs.len() as int) =~= vx_xs); }
//@rw R-PROOF
//@old
AbiValue::Type(ty) => $1,
                    }
//@new
AbiValue::Type(ty) => { proof { vx_crs = vx_crs.push(AbiValue::Type(ty)); } $1 },
                    }
                    proof {
                        assert(vx_crs.drop_last() =~= vx_crs0);
                        assert(vx_spans.take(vx_i + 1).last() == vx_span);
                        assert(flat(vx_crs, vx_spans.take(vx_i + 1)) == flat(vx_crs0, vx_spans.take(vx_i)) + contrib(vx_crs.last(), offset));
                    }
//@rw R-CALL
//@old
pair.clone()
//@new
vx_clone_pair(pair)
//@rw R-FOREACH
//@old
let elements = pairs
                        .into_iter()
                        .map(|(typ, offset)| $1)
                        .collect();
//@new
let ghost vx_ps = pairs@;
                    let mut elements: Vec<StructElement> = Vec::new();
                    for vx_pair in vx_kt: pairs
                        invariant
                            vx_kt.seq() == vx_ps,
                            elements_are(elements@, vx_ps.take(vx_kt.index@ as int)),       //@ob C12.abi.packed.selection
                    {
                        let (typ, offset) = vx_pair;
                        proof { assert(vx_ps[vx_kt.index@ as int] == vx_pair); }
                        elements.push($1);
                    }
                    proof { assert(vx_ps.take(vx_ps.len() as int) =~= vx_ps); }
//@rw R-OPAQUE
//@old
conflicts.into_iter().map(|c| format!("{c:?}")).collect()
//@new
vx_debug_strings(conflicts)
//@proof entry
        broadcast use lemma_measure, lemma_single;
        let ghost vx_tc0 = *self;
        let ghost vx_seen0 = seen_exprs@;
        let ghost vx_te = vx_tc0.te_of(var);
        let ghost mut vx_crs: Seq<AbiValue> = Seq::empty();
//@proof after "self.type_of(var)?;"
        proof {
            assert(same_frame(vx_tc0, *self));
            assert(self.registered(var) && self.ip_of(var) == vx_tc0.ip_of(var));
        }
//@proof afterloop #1
                let ghost vx_pairs = pairs@;
                proof {
                    assert(vx_spans.take(vx_spans.len() as int) =~= vx_spans);
                    assert(pairs@ =~= flat(vx_crs, vx_te->types@));
                }
//@spec
        requires
            old(self).registered(var),              // C01: `self.state.value(var).unwrap()` (and the same lookup inside type_of)
            classes_ok(*old(self)),                 // C01: children registered; packed offsets ranked (see expr_ok)
        ensures
            // the conversion only queries the unification result
            same_frame(*old(self), *final(self)),                                                                  //@ob C14.abi.impl.classes_unchanged
            old(seen_exprs)@.subset_of(final(seen_exprs)@),                                                        //@ob C14.abi.impl.seen_only_grows
            // built from type_of(var): no single resolved expression, no type
            c_unresolved(*old(self), var, r),                                                                      //@ob C14.abi.impl.unresolved_is_type_of_error
            // cycle cut: a type constructor that was already seen on the way down
            old(self).resolved(var) && cut(*old(self), var, old(seen_exprs)@) ==> c_cut(r),                                  //@ob C14.abi.impl.seen_constructor_is_infinite_type
            // the one resolved expression is converted arm by arm
            live(*old(self), var, old(seen_exprs)@) ==> c_simple(old(self).te_of(var), r),                              //@ob C14.abi.impl.any_and_dynamic_bytes
            live(*old(self), var, old(seen_exprs)@) ==> c_word_width(old(self).te_of(var), r),                          //@ob C12.abi.word.width_faithful
            live(*old(self), var, old(seen_exprs)@) ==> c_word_usage(old(self).te_of(var), r),                          //@ob C15.abi.word.usage_selects_constructor
            live(*old(self), var, old(seen_exprs)@) ==> c_word_checked(old(self).te_of(var), old(self).ip_of(var), r),  //@ob C17.abi.word.fixed_width_checked_and_located
            live(*old(self), var, old(seen_exprs)@) ==> c_conflict(old(self).te_of(var), r),                            //@ob C14.abi.conflict_carries_reasons
            live(*old(self), var, old(seen_exprs)@) ==> c_equal(old(self).te_of(var), old(self).ip_of(var), r),         //@ob C14.abi.equal_rejected C17.abi.equal_rejected_located
            live(*old(self), var, old(seen_exprs)@) ==> c_constructed(old(self).te_of(var), r),                         //@ob C14.abi.constructed_keep_constructor
            live(*old(self), var, old(seen_exprs)@) ==> c_packed(*old(self), old(self).te_of(var), parent, r),                      //@ob C12.abi.packed.selection
            c_ranked(var, r),                                                                                           //@ob C12.abi.packed.offsets_bounded_by_rank
            live(*old(self), var, old(seen_exprs)@) && is_ctor(old(self).te_of(var))
                ==> final(seen_exprs)@.contains(old(self).te_of(var)),                                             //@ob C14.abi.impl.constructor_recorded_as_seen
        decreases unseen(old(seen_exprs)@),                                                                        //@ob C14.abi.impl.terminates_by_unseen_expressions C03.abi.impl.terminates_by_unseen_expressions
//@end

//@extract file=src/tc/mod.rs path="impl TypeChecker|fn abi_type_for"
//@ret r
//@spec
        requires
            old(self).registered(var),              // C01, handed on from abi_type_for_impl
            classes_ok(*old(self)),                 // C01, handed on from abi_type_for_impl
        ensures
            // the implementation's contract with nothing seen yet (so nothing is cut at the top) and no parent
            same_frame(*old(self), *final(self)),                                                                  //@ob C14.abi.top.classes_unchanged
            c_unresolved(*old(self), var, r),                                                                      //@ob C14.abi.top.unresolved_is_type_of_error
            old(self).resolved(var) ==> c_simple(old(self).te_of(var), r),                                         //@ob C14.abi.top.any_and_dynamic_bytes
            old(self).resolved(var) ==> c_word_width(old(self).te_of(var), r),                                     //@ob C12.abi.top.word.width_faithful
            old(self).resolved(var) ==> c_word_usage(old(self).te_of(var), r),                                     //@ob C15.abi.top.word.usage_selects_constructor
            old(self).resolved(var) ==> c_word_checked(old(self).te_of(var), old(self).ip_of(var), r),             //@ob C17.abi.top.word.fixed_width_checked_and_located
            old(self).resolved(var) ==> c_conflict(old(self).te_of(var), r),                                       //@ob C14.abi.top.conflict_carries_reasons
            old(self).resolved(var) ==> c_equal(old(self).te_of(var), old(self).ip_of(var), r),                    //@ob C14.abi.top.equal_rejected
            old(self).resolved(var) ==> c_constructed(old(self).te_of(var), r),                                    //@ob C14.abi.top.constructed_keep_constructor
            old(self).resolved(var) ==> c_packed(*old(self), old(self).te_of(var), ParentType::None, r),                       //@ob C12.abi.top.packed.selection_without_parent
            c_ranked(var, r),                                                                                      //@ob C12.abi.top.offsets_bounded_by_rank
//@end
}
} // verus!
fn main() {}
