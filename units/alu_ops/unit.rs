//@unit props=C07,C01
// Unit alu_ops — the `execute` bodies of the 25 arithmetic / comparison / bitwise / shift opcodes of
// src/opcode/arithmetic.rs and src/opcode/logic.rs, and of PUSH0 / PUSHn (src/opcode/memory.rs, with
// PushN::bytes_as_word: the pushed constant is the big-endian value of the immediate), over an ABSTRACT VM,
// against property C07 ("each path computes what a concrete EVM computes ... for every arithmetic, comparison,
// bitwise, shift ... push ... instruction"; mechanisms "each opcode pops its operands in EVM order and pushes one
// node recording the operation", "PUSHn decodes big-endian immediates").
//
// What is under contract here is OPERAND ORDER and SHAPE, per opcode:
//   * the operands are popped in EVM order: first popped = top of the stack = the EVM's first operand `a`
//     (mu_s[0]), second popped = `b` (mu_s[1]), third = `N` (mu_s[2]);
//   * exactly one node is pushed, built through `vm.build().symbolic_exec(ip, RSVD::X { .. })` at the current
//     instruction pointer, whose fields carry the operands in the positions the EVM defines
//     (Subtract{left: a, right: b} = a - b, Divide{dividend: a, divisor: b}, Exp{value: a, exponent: b},
//     shifts {shift: a, value: b}, comparisons {left: a, right: b}, ADDMOD/MULMOD = Modulo{ Add|Multiply{a, b}, N },
//     BYTE = And{ RightShift{ value: b, shift: Subtract{ 0xf8, Multiply{ a, 0x08 } } }, 0xff });
//   * the rest of the stack, the instruction pointer, the builder and the thread are untouched; the result is Ok;
//   * with fewer operands than the instruction needs the result is Err(NoSuchStackFrame) located at the current
//     instruction; the operands that were there have been consumed (the stack is left empty) — that is what the
//     code does: it pops one by one with `?`; the caller (VM::execute) ends the thread on any error;
//   * without a current thread: Err(NoSuchThread), VM unchanged.
// WHAT each constructor evaluates to is units fold_arms (C09: constant_folder applies the same operator to the same
// fields in the same order) and known_word (C09/C07: KnownWord operators against the EVM definitions); this unit
// closes the gap between "the EVM's operands on the stack" and "the fields of the node".
//
// The value tree is the REAL 66-variant enum re-extracted from src/vm/value/mod.rs (common/value_tree_items.rs),
// so constructor and field names in the verified text are the repository's.
//
// KNOWN FINDINGS of this unit (genuine C07 defects on the pinned tree, confirmed by concrete runs of the real crate;
// none can be repaired without editing a pinned unit test that asserts the current tree shape):
//   * signextend_operands_swapped: SignExtend::execute builds SignExtend { value: a, size: b }; the EVM's first operand
//     is the byte index (size), the second the value.  `60 ff 60 00 0b` leaves sign_ext(size 0xff, value 0x0).
//     Carved exactly: clause C07.alu.SignExtend.operands_in_evm_order is `evm order || known_swapped_signextend`,
//     clause C07.alu.SignExtend.known_swapped.exact proves the code is in the class.
//   * byte_offset_times_8_wraps: BYTE's decomposition (b >> (0xf8 - a * 0x08)) & 0xff is the EVM's BYTE only while
//     a * 8 does not wrap: for a = k * 2^253 + j (k in 1..7, j < 32) it yields byte j of b, the EVM yields 0.
//     Lemma C07.alu.Byte.decomposition_is_evm_byte is `equal || class`, C07.alu.Byte.known_wrap.exact has the witness.
//   * addmod_mulmod_intermediate_wraps: ADDMOD / MULMOD are Modulo{Add|Multiply{a, b}, N} and the inner node is a
//     256-bit operation: wrong whenever a + b (a * b) >= 2^256.  ADDMOD(2^256-1, 2, 3): EVM 2, tree 1.
//     Lemmas C07.alu.AddMod.decomposition_is_evm_addmod / C07.alu.MulMod.decomposition_is_evm_mulmod are `equal || class`,
//     `.known_wrap.exact` have the witnesses.
use vstd::prelude::*;
use std::sync::Arc;
//@dropped arithmetic.rs / logic.rs: every opcode's min_gas_cost / arg_count / as_text_code (String) / as_byte (as_byte is under contract in unit disassemble); the #[cfg(test)] modules
//@dropped the real VM (src/vm/mod.rs: VecDeque<VMThread>, VMState, InstructionStream, watchdog): VM::{instruction_pointer, stack_handle} are A-CALLEE contracts over a stand-in VM that holds the current thread's instruction pointer and stack, the code length and the builder; VM::build is extracted
//@dropped ValueBuilder::{symbolic_exec, known} (src/vm/mod.rs -> RSV::new / RSV::new_known_value): A-CALLEE contracts here, the bodies are under contract in unit value_size (C18.vs.builder_symbolic_exec.built_under_the_limit, C18.vs.builder_known.kept)
//@dropped memory.rs: everything except Push0::execute, PushN::execute, PushN::bytes_as_word (PushN::{new, encode, as_byte, bytes_data}: unit disassemble, C10; DupN/SwapN: unit stack); known.rs: everything except KnownWord::{from_le_bytes, from_be_bytes} (unit known_word)
//@dropped PushN::execute is verified against an A-CALLEE copy of bytes_as_word's contract (opaque KnownWord of the value-tree prelude); the real bytes_as_word body is verified separately against the real KnownWord (mod push_word); the two are linked by name and identical contract text, not by the verifier
//@dropped `<&[u8]>::try_into::<[u8; 32]>().expect(..)` in bytes_as_word: R-CALL stand-in slice_to_array32 whose precondition (length 32) is the no-panic obligation
//@dropped what the pushed node EVALUATES to when its operands are constants: units fold_arms + known_word; agreement over whole programs: not decided by this family
//@include common/value_tree_items.rs
//@include common/ethnum_prelude.rs

// A-CALLEE: `KnownWord::from_le(impl Into<U256>)` (src/vm/value/known.rs: `Self { value: value.into() }`) for the one
// instantiation BYTE uses, `u8`.  KnownWord is opaque in this unit (common/value_tree_items.rs); `kw_nat` is the number
// a word denotes.
impl vt_ext::KnownWord {
    pub fn from_le(_value: u8) -> vt_ext::KnownWord { unimplemented!() }
    pub fn zero() -> vt_ext::KnownWord { unimplemented!() }
}

verus! {
/// the number a known word denotes (uninterpreted; unit known_word has the real field)
pub uninterp spec fn kw_nat(k: KnownWord) -> nat;
// A-CALLEE: from_le(v: u8) denotes v  (U256::from(u8) is the zero-extension; KnownWord { value })
pub assume_specification[ KnownWord::from_le ](value: u8) -> (r: KnownWord)
    ensures kw_nat(r) == value as nat;
// A-CALLEE: KnownWord::zero() denotes 0 (proved in unit known_word: C09.kw.zero)
pub assume_specification[ KnownWord::zero ]() -> (r: KnownWord)
    ensures kw_nat(r) == 0;

// ---- byte strings as numbers (definitions, written from the EVM: PUSHn's immediate is a big-endian number) ----------
/// big-endian value: first byte most significant  (sum of s[i] * 256^(len-1-i))
pub open spec fn be_value(s: Seq<u8>) -> nat
    decreases s.len()
{
    if s.len() == 0 { 0 } else { be_value(s.drop_last()) * 256 + s.last() as nat }
}
/// little-endian value: first byte least significant
pub open spec fn le_value(s: Seq<u8>) -> nat
    decreases s.len()
{
    if s.len() == 0 { 0 } else { s.first() as nat + 256 * le_value(s.drop_first()) }
}
/// the little-endian value of a byte string is the big-endian value of its reversal
pub proof fn lemma_le_is_be_reversed(s: Seq<u8>)
    ensures le_value(s) == be_value(s.reverse()),
    decreases s.len(),
{
    if s.len() > 0 {
        lemma_le_is_be_reversed(s.drop_first());
        assert(s.reverse().drop_last() =~= s.drop_first().reverse());
        assert(s.reverse().last() == s.first());
    }
}
/// trailing zero bytes do not change a little-endian value
pub proof fn lemma_le_zero_padding(s: Seq<u8>, pad: Seq<u8>)
    requires forall|i: int| 0 <= i < pad.len() ==> pad[i] == 0,
    ensures le_value(s + pad) == le_value(s),
    decreases s.len() + pad.len(),
{
    if s.len() > 0 {
        assert((s + pad).drop_first() =~= s.drop_first() + pad);
        lemma_le_zero_padding(s.drop_first(), pad);
    } else if pad.len() > 0 {
        assert(s + pad =~= pad);
        assert(pad.drop_first() =~= Seq::<u8>::empty() + pad.drop_first());
        lemma_le_zero_padding(Seq::<u8>::empty(), pad.drop_first());
    }
}
} // verus!

pub mod container {
use vstd::prelude::*;
verus! {
//@include stack/container_items.rs
} // verus!
}

pub mod execution {
use vstd::prelude::*;
use super::{container, KnownWord};
verus! {
//@include stack/execution_items.rs
} // verus!
}

pub mod vm {
use vstd::prelude::*;
use std::sync::Arc;
use super::*;
use super::container::Locatable;
use super::execution::{self, Error, Errors, LocatedError, Result};
verus! {
//@include stack/stack_items.rs

// ---- instructions ------------------------------------------------------------------------------------
/// A-CALLEE (trait stand-in): `Opcode` reduced to the one method under contract
pub trait Opcode {
    fn execute(&self, vm: &mut VM) -> ExecuteResult;
}
//@extract file=src/opcode/mod.rs path="type ExecuteResult" kind=type
//@end

// ---- the value builder ---------------------------------------------------------------------------------
/// A-CALLEE (opaque stand-in for `ValueBuilder`, which holds a copy of the Config)
#[verifier::external_body]
pub struct ValueBuilder { _opaque: u8 }
/// whether a node with this payload would exceed the builder's `value_size_limit` (1 + the children's sizes > limit);
/// such a node is culled to an opaque `Value` (C18, unit value_size)
pub uninterp spec fn over_limit(b: ValueBuilder, data: RSVD) -> bool;
/// `r` is what `ValueBuilder::symbolic(ip, data, prov)` builds: located at `ip`, with that provenance, payload `data`
/// unless culled by the size limit
pub open spec fn built(r: RSV, b: ValueBuilder, ip: u32, prov: Provenance, data: RSVD) -> bool {
    &&& r.ip() == ip
    &&& r.prov() == prov
    &&& if over_limit(b, data) { r.dt() is Value } else { r.dt() == data }
}
/// `r` is what `ValueBuilder::symbolic_exec(ip, data)` builds: the same with provenance Execution
pub open spec fn exec_built(r: RSV, b: ValueBuilder, ip: u32, data: RSVD) -> bool { built(r, b, ip, Provenance::Execution, data) }
/// `r` is a constant leaf `word` made by the builder (or culled, when the limit is 0)
pub open spec fn known_built(r: RSV, ip: u32, prov: Provenance, word: KnownWord) -> bool {
    &&& r.ip() == ip
    &&& r.prov() == prov
    &&& (r.dt() is Value || r.dt() == (RSVD::KnownData { value: word }))
}
impl ValueBuilder {
    // A-CALLEE: ValueBuilder::symbolic_exec = RSV::new_from_execution(ip, data, Some(value_size_limit)); proved in unit
    // value_size as new_post(*r, ip, data, Provenance::Execution, Some(limit)): `1 + sz_sum(data) <= l ==> r.dt() == data`,
    // otherwise `r.dt() is Value`; `r.ip() == ip && r.prov() == Execution`.  Total (C01: sizes do not reach usize::MAX).
    #[verifier::external_body]
    pub fn symbolic_exec(&self, instruction_pointer: u32, data: RSVD) -> (r: RuntimeBoxedVal)
        ensures exec_built(*r, *self, instruction_pointer, data),
    { unimplemented!() }
    // A-CALLEE: ValueBuilder::symbolic = RSV::new(ip, data, provenance, Some(value_size_limit)); unit value_size:
    // C18.vs.builder_symbolic.built_under_the_limit (same new_post)
    #[verifier::external_body]
    pub fn symbolic(&self, instruction_pointer: u32, data: RSVD, provenance: Provenance) -> (r: RuntimeBoxedVal)
        ensures built(*r, *self, instruction_pointer, provenance, data),
    { unimplemented!() }
    // A-CALLEE: ValueBuilder::known = RSV::new_known_value(ip, value, provenance, Some(value_size_limit)); unit value_size:
    // `limit >= 1 ==> r.dt() == KnownData { value }` (C18.vs.builder_known.kept), else culled
    #[verifier::external_body]
    pub fn known(&self, instruction_pointer: u32, value_data: KnownWord, provenance: Provenance) -> (r: RuntimeBoxedVal)
        ensures known_built(*r, instruction_pointer, provenance, value_data),
    { unimplemented!() }
}

// ---- abstract VM ---------------------------------------------------------------------------------------
/// A-CALLEE (type stand-in for the front of `VM::thread_queue`): the current thread's instruction pointer
/// (`VMThread.thread: ExecutionThread`) and stack (`VMThread.state.stack`); memory, storage, gas are out of sight
pub struct CurrentThread {
    pub instruction_pointer: u32,
    pub stack: Stack,
}
/// A-CALLEE (type stand-in for `VM`): what the ALU opcodes reach.  `thread_queue: VecDeque<VMThread>` is reduced to
/// its front, `instructions: InstructionStream` to its length; everything else of the real VM is out of sight.
pub struct VM {
    pub instructions_len: u32,
    pub current: Option<CurrentThread>,
    pub builder: ValueBuilder,
}
impl VM {
    pub open spec fn has_thread(&self) -> bool { self.current is Some }
    /// instruction pointer of the current thread
    pub open spec fn ip(&self) -> u32 { self.current->Some_0.instruction_pointer }
    /// the current thread's stack, bottom first, top last
    pub open spec fn stack(&self) -> Seq<RuntimeBoxedVal> { self.current->Some_0.stack@ }
    /// everything but the current thread's stack
    pub open spec fn same_but_stack(&self, o: &VM) -> bool {
        &&& self.has_thread() == o.has_thread()
        &&& self.instructions_len == o.instructions_len
        &&& self.builder == o.builder
        &&& self.has_thread() ==> self.ip() == o.ip()
    }
    // A-CALLEE: VM::instruction_pointer = `current_thread_mut().map(|thread| thread.instructions_mut().instruction_pointer())`,
    // current_thread_mut = `thread_queue.front_mut().ok_or(NoSuchThread.locate(instructions_len()))`  (same contract as unit control)
    #[verifier::external_body]
    pub fn instruction_pointer(&mut self) -> (r: Result<u32>)
        ensures
            *final(self) == *old(self),
            old(self).has_thread() ==> r == Ok::<u32, LocatedError>(old(self).ip()),
            !old(self).has_thread() ==> r == Err::<u32, LocatedError>(LocatedError { location: old(self).instructions_len, payload: Error::NoSuchThread }),
    { unimplemented!() }
    // A-CALLEE: VM::stack_handle = `let ip = self.instruction_pointer()?; current_thread_mut().map(|thread|
    // thread.state_mut().stack_mut().new_located(ip))` (same contract as units stack and control).  `wf`: every Stack of a
    // VMState was made by Stack::new and changed only through Stack's own methods, which keep it (C07.stack.*.wf).
    #[verifier::external_body]
    pub fn stack_handle(&mut self) -> (r: Result<LocatedStackHandle<'_>>)
        ensures
            old(self).has_thread() ==> r is Ok,
            r is Ok ==> old(self).has_thread() && r->Ok_0.ip() == old(self).ip() && r->Ok_0.cur() == old(self).stack() && r->Ok_0.wf()
                && final(self).same_but_stack(old(self)) && final(self).stack() == r->Ok_0.fin(),
            r is Err ==> !old(self).has_thread() && *final(self) == *old(self) && r->Err_0 == (LocatedError { location: old(self).instructions_len, payload: Error::NoSuchThread }),
    { unimplemented!() }
}
//@extract file=src/vm/mod.rs path="impl VM" kind=header
//@end
//@extract file=src/vm/mod.rs path="impl VM|fn build"
//@ret r
//@spec
        ensures *r == self.builder,
//@end
}
} // verus!
}

// ======================================================================================================
// The EVM side of the contracts, written from the EVM definition (not from the code): operands are counted
// from the top of the stack, 1-based; an instruction with n operands replaces them by one result.
// ======================================================================================================
pub mod evm {
use vstd::prelude::*;
use super::*;
use super::execution::{Error, LocatedError};
use super::vm::{exec_built, item, known_built, ExecuteResult, ValueBuilder, VM};
verus! {
/// the instruction is defined: there is a current thread with `n` operands on its stack
pub open spec fn ready(vm: &VM, n: int) -> bool { vm.has_thread() && vm.stack().len() >= n }
/// the instruction's k-th operand: the k-th item from the top (mu_s[k-1]); operand 1 is the top of the stack
pub open spec fn operand(vm: &VM, k: int) -> RuntimeBoxedVal { item(vm.stack(), k) }
/// the instruction's result: the new top of the stack
pub open spec fn result(vm: &VM) -> RSV { *vm.stack().last() }
/// `new` is `old` with its `n` top items replaced by exactly one item
pub open spec fn replaces_top<T>(new: Seq<T>, old: Seq<T>, n: int) -> bool {
    new.len() == old.len() - n + 1 && new.drop_last() =~= old.subrange(0, old.len() - n)
}
/// Ok exactly when the instruction is defined, and then: n operands consumed, one result pushed, the rest of the
/// stack unchanged
pub open spec fn alu_stack_effect(before: &VM, after: &VM, r: ExecuteResult, n: int) -> bool {
    &&& ready(before, n) ==> r is Ok
    &&& r is Ok ==> ready(before, n) && replaces_top(after.stack(), before.stack(), n)
}
/// too few operands: Err(NoSuchStackFrame) located at the current instruction; the operands that were there have been
/// consumed (this is what the code does: it pops one at a time with `?`), nothing pushed.  No thread: Err(NoSuchThread)
/// located at the end of the code, nothing changes.
pub open spec fn alu_underflow(before: &VM, after: &VM, r: ExecuteResult, n: int) -> bool {
    &&& before.has_thread() && before.stack().len() < n ==> r is Err && r->Err_0.location == before.ip()
            && r->Err_0.payload is NoSuchStackFrame && after.stack().len() == 0
    &&& !before.has_thread() ==> r == Err::<(), LocatedError>(LocatedError { location: before.instructions_len, payload: Error::NoSuchThread })
            && *after == *before
}
/// the result is the node `symbolic_exec(ip, data)` builds: at the current instruction, provenance Execution, payload `data`
pub open spec fn pushed_exec(before: &VM, after: &VM, data: RSVD) -> bool {
    exec_built(result(after), before.builder, before.ip(), data)
}
/// ADDMOD / MULMOD: the result is Modulo { dividend: <node built from `inner`>, divisor: n }
pub open spec fn pushed_modulo_of(before: &VM, after: &VM, inner: RSVD, n: RuntimeBoxedVal) -> bool {
    exists|s: RuntimeBoxedVal| #[trigger] exec_built(*s, before.builder, before.ip(), inner)
        && exec_built(result(after), before.builder, before.ip(), RSVD::Modulo { dividend: s, divisor: n })
}
/// KNOWN FINDING, class signextend_operands_swapped: the node carries the EVM's FIRST operand (the byte index) as `value`
/// and the SECOND (the value that is extended) as `size`
pub open spec fn known_swapped_signextend(before: &VM, after: &VM) -> bool {
    pushed_exec(before, after, RSVD::SignExtend { size: operand(before, 2), value: operand(before, 1) })
}

// ---- PUSH ----------------------------------------------------------------------------------------------
/// PUSHn / PUSH0: no operand, one result; Ok unless the stack is full (1024 items), and then Err(StackDepthExceeded) located
/// at the current instruction with the stack unchanged.  No thread: Err(NoSuchThread), nothing changes.
pub open spec fn push_stack_effect(before: &VM, after: &VM, r: ExecuteResult) -> bool {
    &&& before.has_thread() && before.stack().len() < 1024 ==> r is Ok
    &&& r is Ok ==> before.has_thread() && replaces_top(after.stack(), before.stack(), 0)
    &&& before.has_thread() && before.stack().len() >= 1024 ==> r is Err && r->Err_0.location == before.ip()
            && r->Err_0.payload is StackDepthExceeded && after.stack() == before.stack()
    &&& !before.has_thread() ==> r == Err::<(), LocatedError>(LocatedError { location: before.instructions_len, payload: Error::NoSuchThread })
            && *after == *before
}

// ---- BYTE ----------------------------------------------------------------------------------------------
/// `r` is the constant `n` made by the builder from the bytecode (or culled)
pub open spec fn is_const(r: RSV, ip: u32, n: nat) -> bool {
    r.ip() == ip && r.prov() == Provenance::Bytecode
        && (r.dt() is Value || (r.dt() matches RSVD::KnownData { value } && kw_nat(value) == n))
}
/// an Execution node at `ip` (or culled to a Value by the size limit)
pub open spec fn exec_at(r: RSV, ip: u32) -> bool { r.ip() == ip && r.prov() == Provenance::Execution }
/// BYTE(offset, value) as the tree writes it:  (value >> (0xf8 - offset * 0x08)) & 0xff.  Every node is either culled to an
/// opaque Value by the size limit (C18) or has exactly the constructor and operands below.
pub open spec fn byte_shape(r: RSV, ip: u32, offset: RSV, value: RSV) -> bool {
    exec_at(r, ip) && (r.dt() is Value || (r.dt() matches RSVD::And { left: shifted, right: c_ff } && is_const(*c_ff, ip, 0xff)
        && exec_at(*shifted, ip) && (shifted.dt() is Value || (shifted.dt() matches RSVD::RightShift { shift, value: v } && *v == value
            && exec_at(*shift, ip) && (shift.dt() is Value || (shift.dt() matches RSVD::Subtract { left: c_f8, right: times8 } && is_const(*c_f8, ip, 0xf8)
                && exec_at(*times8, ip) && (times8.dt() is Value || (times8.dt() matches RSVD::Multiply { left: o, right: c_08 } && *o == offset
                    && is_const(*c_08, ip, 0x08)))))))))
}

// ---- what the decompositions compute (C07: "evaluates to exactly what a concrete EVM computes") -------------------
// Word operations as the EVM defines them (same definitions as unit known_word, which proves KnownWord's operators equal
// to them; fold_arms proves constant_folder applies them to the same fields).
pub open spec fn M() -> nat { 0x1_0000000000000000_0000000000000000_0000000000000000_0000000000000000nat }
pub open spec fn evm_add(a: nat, b: nat) -> nat { (a + b) % M() }
pub open spec fn evm_mul(a: nat, b: nat) -> nat { (a * b) % M() }
pub open spec fn evm_sub(a: nat, b: nat) -> nat { ((a as int - b as int) % (M() as int)) as nat }
pub open spec fn evm_mod(a: nat, b: nat) -> nat { if b == 0 { 0 } else { a % b } }
pub open spec fn evm_shr(shift: nat, value: nat) -> nat { if shift >= 256 { 0 } else { value / vstd::arithmetic::power2::pow2(shift) } }
/// x & 0xff
pub open spec fn evm_and_ff(x: nat) -> nat { x % 256 }
/// ADDMOD / MULMOD: the intermediate sum / product is NOT reduced modulo 2^256
pub open spec fn evm_addmod(a: nat, b: nat, n: nat) -> nat { if n == 0 { 0 } else { (a + b) % n } }
pub open spec fn evm_mulmod(a: nat, b: nat, n: nat) -> nat { if n == 0 { 0 } else { (a * b) % n } }
/// BYTE(i, x): the i-th byte of x counted from the most significant, 0 for i >= 32
pub open spec fn evm_byte(i: nat, x: nat) -> nat { if i >= 32 { 0 } else { (x / vstd::arithmetic::power2::pow2((8 * (31 - i)) as nat)) % 256 } }
/// what the trees built by AddMod / MulMod / Byte evaluate to
pub open spec fn tree_addmod(a: nat, b: nat, n: nat) -> nat { evm_mod(evm_add(a, b), n) }
pub open spec fn tree_mulmod(a: nat, b: nat, n: nat) -> nat { evm_mod(evm_mul(a, b), n) }
pub open spec fn tree_byte(i: nat, x: nat) -> nat { evm_and_ff(evm_shr(evm_sub(0xf8, evm_mul(i, 0x08)), x)) }

/// ADDMOD's tree is the EVM's ADDMOD — or KNOWN FINDING, class addmod_mulmod_intermediate_wraps: a + b >= 2^256
pub proof fn lemma_addmod_decomposition(a: nat, b: nat, n: nat)
    requires a < M(), b < M(), n < M(),
    ensures tree_addmod(a, b, n) == evm_addmod(a, b, n) || a + b >= M(),      //@ob C07.alu.AddMod.decomposition_is_evm_addmod
{
    if a + b < M() { vstd::arithmetic::div_mod::lemma_small_mod(a + b, M()); }
}
/// the class is not empty: ADDMOD(2^256 - 1, 2, 3) is 2, the tree evaluates to 1
pub proof fn lemma_addmod_known_wrap_exact()
    ensures
        evm_addmod((M() - 1) as nat, 2, 3) == 2 && tree_addmod((M() - 1) as nat, 2, 3) == 1,      //@ob C07.alu.AddMod.known_wrap.exact
{
    assert(((M() - 1) as nat + 2) % 3 == 2) by (compute);
    assert(((M() - 1) as nat + 2) % M() == 1) by (compute);
}
/// MULMOD's tree is the EVM's MULMOD — or KNOWN FINDING, class addmod_mulmod_intermediate_wraps: a * b >= 2^256
pub proof fn lemma_mulmod_decomposition(a: nat, b: nat, n: nat)
    requires a < M(), b < M(), n < M(),
    ensures tree_mulmod(a, b, n) == evm_mulmod(a, b, n) || a * b >= M(),      //@ob C07.alu.MulMod.decomposition_is_evm_mulmod
{
    if a * b < M() { vstd::arithmetic::div_mod::lemma_small_mod(a * b, M()); }
}
/// MULMOD(2^255, 2, 3) is 1, the tree evaluates to 0
pub proof fn lemma_mulmod_known_wrap_exact()
    ensures
        evm_mulmod(M() / 2, 2, 3) == 1 && tree_mulmod(M() / 2, 2, 3) == 0,      //@ob C07.alu.MulMod.known_wrap.exact
{
    assert(((M() / 2) * 2) % 3 == 1) by (compute);
    assert(((M() / 2) * 2) % M() == 0) by (compute);
}
/// KNOWN FINDING, class byte_offset_times_8_wraps: the offset is not a byte index but offset * 8 wraps onto one
pub open spec fn known_byte_wrap(i: nat) -> bool { i >= 32 && (i * 8) % M() <= 0xf8 }
/// BYTE's tree is the EVM's BYTE — or the known class
pub proof fn lemma_byte_decomposition(i: nat, x: nat)
    requires i < M(), x < M(),
    ensures tree_byte(i, x) == evm_byte(i, x) || known_byte_wrap(i),      //@ob C07.alu.Byte.decomposition_is_evm_byte
{
    let m = evm_mul(i, 0x08);
    if i < 32 {
        vstd::arithmetic::div_mod::lemma_small_mod(i * 8, M());
        vstd::arithmetic::div_mod::lemma_small_mod((0xf8 - i * 8) as nat, M());
        assert(evm_sub(0xf8, m) == 8 * (31 - i));
    } else if m > 0xf8 {
        // 0xf8 - m wraps to 2^256 + 0xf8 - m; m is a multiple of 8 below 2^256, so that is at least 256
        vstd::arithmetic::div_mod::lemma_fundamental_div_mod((i * 8) as int, M() as int);
        let q = (i * 8) as int / (M() as int);
        assert(M() as int == 8 * (M() as int / 8)) by (compute);
        assert(m as int == 8 * (i as int - q * (M() as int / 8))) by (nonlinear_arith)
            requires m as int == i * 8 - (M() as int) * q, M() as int == 8 * (M() as int / 8);
        assert(m <= M() - 8);
        let d = 0xf8 - m as int + M() as int;
        assert(256 <= d < M() as int);
        vstd::arithmetic::div_mod::lemma_fundamental_div_mod_converse((0xf8 - m as int), M() as int, -1, d);
        assert(evm_sub(0xf8, m) >= 256);
    }
}
/// the class is not empty: BYTE(2^253, 2^256 - 1) is 0, the tree evaluates to 0xff
pub proof fn lemma_byte_known_wrap_exact()
    ensures
        evm_byte(M() / 8, (M() - 1) as nat) == 0 && tree_byte(M() / 8, (M() - 1) as nat) == 0xff && known_byte_wrap(M() / 8),      //@ob C07.alu.Byte.known_wrap.exact
{
    assert(((M() / 8) * 8) % M() == 0) by (compute);
    assert((0xf8 - 0) % (M() as int) == 0xf8) by (compute);
    vstd::arithmetic::power2::lemma2_to64();
    assert(vstd::arithmetic::power2::pow2(0xf8) == 0x100000000000000_0000000000000000_0000000000000000_0000000000000000nat) by {
        vstd::arithmetic::power2::lemma_pow2_adds(64, 64);
        vstd::arithmetic::power2::lemma_pow2_adds(128, 64);
        vstd::arithmetic::power2::lemma_pow2_adds(192, 56);
        vstd::arithmetic::power2::lemma2_to64_rest();
    }
    assert((((M() - 1) as nat) / 0x100000000000000_0000000000000000_0000000000000000_0000000000000000nat) % 256 == 0xff) by (compute);
}
} // verus!
}

pub mod arithmetic {
use vstd::prelude::*;
use super::evm::{alu_stack_effect, alu_underflow, known_swapped_signextend, operand, pushed_exec, pushed_modulo_of};
use super::vm::{ExecuteResult, Opcode, VM};
use super::RSVD;
verus! {
broadcast use super::vm::lemma_handle_resolved;
//@include alu_ops/ops_arithmetic.rs
} // verus!
}

pub mod logic {
use vstd::prelude::*;
use super::evm::{alu_stack_effect, alu_underflow, byte_shape, operand, pushed_exec, result};
use super::vm::{ExecuteResult, Opcode, VM};
use super::{KnownWord, Provenance, RSVD};
verus! {
broadcast use super::vm::lemma_handle_resolved;
//@include alu_ops/ops_logic.rs
} // verus!
}

// ======================================================================================================
// PUSHn's constant, part 1: `PushN::bytes_as_word` against the REAL `KnownWord` (struct and `from_le_bytes` extracted from
// src/vm/value/known.rs) over the ethnum stand-in: the word is the big-endian value of the immediate as it stood in the code.
// (`PushN::new` stores the immediate reversed: unit disassemble, C10.dis.pushn_new proves `imm() == bytes@` and `wf`.)
// ======================================================================================================
pub mod push_word {
use vstd::prelude::*;
use std::mem;
use super::{be_val, be_value, le_val, le_value, lemma_le_is_be_reversed, lemma_le_zero_padding, u, U256};
verus! {
// A-DERIVE: #[derive(Clone, Copy)] on KnownWord
#[derive(Clone, Copy)]
//@extract file=src/vm/value/known.rs path="struct KnownWord" kind=type id=push_word::KnownWord
//@end
impl KnownWord {
    /// the 256-bit number this word denotes
    pub closed spec fn v(self) -> nat { u(self.value) }
}
// A-ETHNUM: `size_of::<KnownWord>()` is 32: KnownWord is one U256, ethnum's U256 is `[u128; 2]` (the stand-in has the same
// layout; the directive itself is an assumption to Verus, but rustc unifies `[u8; mem::size_of::<KnownWord>()]` in
// bytes_as_word with the `[u8; 32]` of slice_to_array32 / from_le_bytes, so a different size of the stand-in is a type error)
global layout KnownWord is size == 32;
// A-ETHNUM: what `le_val` (uninterpreted in the shared prelude: "value of a little-endian 32-byte array") is, byte by byte
pub broadcast axiom fn le_val_is_le_value(b: [u8; 32]) ensures #[trigger] le_val(b) == le_value(b@);
// A-STD: `<&[u8] as TryInto<[u8; 32]>>::try_into(..).expect(..)` (core: `TryFrom<&[T]> for [T; N]` is Ok exactly when the
// lengths agree, and then copies the elements; `expect` panics on Err): as one callee whose precondition is "no panic"
#[verifier::external_body]
pub fn slice_to_array32(s: &[u8]) -> (r: [u8; 32])
    requires s@.len() == 32,
    ensures r@ == s@,
{ s.try_into().expect("A known size array was not of that size") }

//@extract file=src/vm/value/known.rs path="impl KnownWord" kind=header id=push_word::impl_KnownWord
//@end
//@extract file=src/vm/value/known.rs path="impl KnownWord|fn from_le_bytes" id=push_word::KnownWord::from_le_bytes
//@ret r
//@rw R-IMPL-INTO
//@old
bytes: impl Into<[u8; mem::size_of::<Self>()]>
//@new
bytes: [u8; 32]
//@rw R-IMPL-INTO
//@old
bytes.into()
//@new
bytes
//@spec
        ensures r.v() == le_val(bytes),      //@ob C07.alu.push.from_le_bytes_is_le_value
//@end
// (extracted so that an edit of bytes_as_word that picks the other byte order reaches the verifier)
//@extract file=src/vm/value/known.rs path="impl KnownWord|fn from_be_bytes" id=push_word::KnownWord::from_be_bytes
//@ret r
//@rw R-IMPL-INTO
//@old
bytes: impl Into<[u8; mem::size_of::<Self>()]>
//@new
bytes: [u8; 32]
//@rw R-IMPL-INTO
//@old
bytes.into()
//@new
bytes
//@spec
        ensures r.v() == be_val(bytes),      //@ob C07.alu.push.from_be_bytes_is_be_val
//@end
}

//@extract file=src/opcode/memory.rs path="struct PushN" kind=type id=push_word::PushN
//@end
impl PushN {
    /// views of the private fields
    pub closed spec fn stored(&self) -> Seq<u8> { self.bytes@ }
    /// the immediate in code (big-endian) order: `new` stores it reversed
    pub open spec fn imm(&self) -> Seq<u8> { self.stored().reverse() }
}
//@extract file=src/opcode/memory.rs path="impl PushN" kind=header id=push_word::impl_PushN
//@end
//@extract file=src/opcode/memory.rs path="impl PushN|fn bytes_as_word" id=push_word::PushN::bytes_as_word
//@ret r
//@rw R-CALL
//@old
bytes
            .as_slice()
            .try_into()
            .expect("A known size array was not of that size")
//@new
slice_to_array32(bytes
            .as_slice())
//@spec
        ensures
            // at most 32 immediate bytes (PushN::new admits 1..=32): the word is the big-endian number they spell
            self.stored().len() <= 32 ==> r.v() == be_value(self.imm()),      //@ob C07.alu.push.big_endian_immediate
//@proof entry
        broadcast use le_val_is_le_value;
//@proof after "slice_to_array32(bytes .as_slice());"
        proof {
            if self.stored().len() <= 32 {
                let pad = Seq::new((32 - self.stored().len()) as nat, |i: int| 0u8);
                assert(bytes@ =~= self.stored() + pad);      //@ob C07.alu.push.immediate_is_zero_padded_to_a_word
                lemma_le_zero_padding(self.stored(), pad);
                lemma_le_is_be_reversed(self.stored());
            }
        }
//@end
}
} // verus!
}

// ======================================================================================================
// PUSHn's constant, part 2: `PushN::execute` / `Push0::execute` over the abstract VM: the word `bytes_as_word()` answers
// (resp. zero) is pushed as a constant leaf built from the bytecode at the current instruction.
// ======================================================================================================
pub mod memory {
use vstd::prelude::*;
use super::evm::{is_const, push_stack_effect, result};
use super::vm::{ExecuteResult, Opcode, VM};
use super::{be_value, kw_nat, KnownWord, Provenance, RSVD};
verus! {
broadcast use super::vm::lemma_handle_resolved;
//@extract file=src/opcode/memory.rs path="struct Push0" kind=type
//@end
//@extract file=src/opcode/memory.rs path="impl Opcode for Push0" kind=header
//@end
//@extract file=src/opcode/memory.rs path="impl Opcode for Push0|fn execute"
//@ret r
//@spec
        ensures
            r is Ok ==> is_const(result(final(vm)), old(vm).ip(), 0),      //@ob C07.alu.push0.pushes_zero
            push_stack_effect(old(vm), final(vm), r),      //@ob C07.alu.push0.stack_effect C17.alu.push0.full_stack_is_error_at_ip
            final(vm).same_but_stack(old(vm)),      //@ob C07.alu.push0.nothing_else_moves
//@end
}

//@extract file=src/opcode/memory.rs path="struct PushN" kind=type
//@end
impl PushN {
    pub closed spec fn stored(&self) -> Seq<u8> { self.bytes@ }
    /// the immediate in code (big-endian) order: `new` stores it reversed
    pub open spec fn imm(&self) -> Seq<u8> { self.stored().reverse() }
    // A-CALLEE: PushN::bytes_as_word over the opaque KnownWord of this part; the contract is the one PROVED for the real body
    // in mod push_word above (C07.alu.push.big_endian_immediate)
    #[verifier::external_body]
    pub fn bytes_as_word(&self) -> (r: KnownWord)
        ensures self.stored().len() <= 32 ==> kw_nat(r) == be_value(self.imm()),
    { unimplemented!() }
}
//@extract file=src/opcode/memory.rs path="impl Opcode for PushN" kind=header
//@end
//@extract file=src/opcode/memory.rs path="impl Opcode for PushN|fn execute"
//@ret r
//@spec
        ensures
            r is Ok && self.stored().len() <= 32 ==> is_const(result(final(vm)), old(vm).ip(), be_value(self.imm())),      //@ob C07.alu.push.pushes_the_immediate
            push_stack_effect(old(vm), final(vm), r),      //@ob C07.alu.push.stack_effect C17.alu.push.full_stack_is_error_at_ip
            final(vm).same_but_stack(old(vm)),      //@ob C07.alu.push.nothing_else_moves
//@end
}
} // verus!
}
fn main() {}
