#!/usr/bin/env python3
"""Writes units/alu_ops/ops_<module>.rs, the per-opcode sections that unit.rs pulls in with //@include.

The sections contain only extraction *directives* and contract clauses: for every ALU opcode struct `X`
the struct item and `impl Opcode for X|fn execute` are pulled from /repo/src/opcode/{arithmetic,logic}.rs
by the generator on every run.  Nothing in the table below is read from the repository: it is the EVM's
definition of each instruction (yellow paper appendix H / evm.codes: mu_s[0] is the TOP of the stack and
is the instruction's FIRST operand `a`, mu_s[1] the second operand `b`, mu_s[2] the third) together with
the documented meaning of the value-tree constructors of src/vm/value/mod.rs
(`Subtract{left,right}` = left - right, `Divide{dividend,divisor}` = dividend / divisor,
`Exp{value,exponent}` = value ** exponent, `SignExtend{size,value}`, `LeftShift{shift,value}` = value << shift,
comparisons `left ? right`), which unit fold_arms (C09) verifies `constant_folder` against.

  python3 units/alu_ops/gen_alu_directives.py      # rewrites the ops_*.rs files next to this script
"""

# --- binary instructions: result = node { <first field>: a (top of stack), <second field>: b } -------------------
# module -> [(struct, EVM mnemonic, constructor, field that receives a, field that receives b, EVM meaning)]
BINARY = {
    'arithmetic': [
        ('Add', 'ADD', 'Add', 'left', 'right', 'a + b'),
        ('Mul', 'MUL', 'Multiply', 'left', 'right', 'a * b'),
        ('Sub', 'SUB', 'Subtract', 'left', 'right', 'a - b'),
        ('Div', 'DIV', 'Divide', 'dividend', 'divisor', 'a / b'),
        ('SDiv', 'SDIV', 'SignedDivide', 'dividend', 'divisor', 'a sdiv b'),
        ('Mod', 'MOD', 'Modulo', 'dividend', 'divisor', 'a % b'),
        ('SMod', 'SMOD', 'SignedModulo', 'dividend', 'divisor', 'a smod b'),
        ('Exp', 'EXP', 'Exp', 'value', 'exponent', 'a ** b'),
    ],
    'logic': [
        ('Lt', 'LT', 'LessThan', 'left', 'right', 'a < b'),
        ('Gt', 'GT', 'GreaterThan', 'left', 'right', 'a > b'),
        ('SLt', 'SLT', 'SignedLessThan', 'left', 'right', 'a <s b'),
        ('SGt', 'SGT', 'SignedGreaterThan', 'left', 'right', 'a >s b'),
        ('Eq', 'EQ', 'Equals', 'left', 'right', 'a == b'),
        ('And', 'AND', 'And', 'left', 'right', 'a & b'),
        ('Or', 'OR', 'Or', 'left', 'right', 'a | b'),
        ('Xor', 'XOR', 'Xor', 'left', 'right', 'a ^ b'),
        ('Shl', 'SHL', 'LeftShift', 'shift', 'value', 'b << a  (a = shift, b = value)'),
        ('Shr', 'SHR', 'RightShift', 'shift', 'value', 'b >> a  (a = shift, b = value)'),
        ('Sar', 'SAR', 'ArithmeticRightShift', 'shift', 'value', 'b >>s a  (a = shift, b = value)'),
    ],
}
# --- unary instructions ---------------------------------------------------------------------------------------
UNARY = {
    'arithmetic': [],
    'logic': [
        ('IsZero', 'ISZERO', 'IsZero', 'number', 'a == 0'),
        ('Not', 'NOT', 'Not', 'value', '~a'),
    ],
}
# --- ADDMOD / MULMOD: (a op b) % N, N = third operand; the tree has no ternary node, the EVM result is written as
# Modulo { dividend: <op> { left: a, right: b }, divisor: N } ----------------------------------------------------
MODOPS = {
    'arithmetic': [
        ('AddMod', 'ADDMOD', 'Add', '(a + b) % N'),
        ('MulMod', 'MULMOD', 'Multiply', '(a * b) % N'),
    ],
    'logic': [],
}

HEAD = '''//@extract file=src/opcode/{mod}.rs path="struct {name}" kind=type
//@end
//@extract file=src/opcode/{mod}.rs path="impl Opcode for {name}" kind=header
//@end
//@extract file=src/opcode/{mod}.rs path="impl Opcode for {name}|fn execute"
//@ret r
//@spec
        ensures
'''
TAIL = '''            alu_stack_effect(old(vm), final(vm), r, {n}),      //@ob C07.alu.{name}.stack_effect
            alu_underflow(old(vm), final(vm), r, {n}),      //@ob C07.alu.{name}.underflow_is_error_at_ip C17.alu.{name}.underflow_is_error_at_ip
            final(vm).same_but_stack(old(vm)),      //@ob C07.alu.{name}.nothing_else_moves
//@end
}}
'''


def binary(mod, name, mnem, ctor, fa, fb, meaning):
    return (f'// {mnem}: {meaning}\n' + HEAD.format(mod=mod, name=name)
            + f'            r is Ok ==> pushed_exec(old(vm), final(vm), RSVD::{ctor} {{ {fa}: operand(old(vm), 1), {fb}: operand(old(vm), 2) }}),      //@ob C07.alu.{name}.operands_in_evm_order\n'
            + TAIL.format(name=name, n=2))


def unary(mod, name, mnem, ctor, fa, meaning):
    return (f'// {mnem}: {meaning}\n' + HEAD.format(mod=mod, name=name)
            + f'            r is Ok ==> pushed_exec(old(vm), final(vm), RSVD::{ctor} {{ {fa}: operand(old(vm), 1) }}),      //@ob C07.alu.{name}.operands_in_evm_order\n'
            + TAIL.format(name=name, n=1))


def modop(mod, name, mnem, ctor, meaning):
    return (f'// {mnem}: {meaning}\n' + HEAD.format(mod=mod, name=name)
            + f'            r is Ok ==> pushed_modulo_of(old(vm), final(vm), RSVD::{ctor} {{ left: operand(old(vm), 1), right: operand(old(vm), 2) }}, operand(old(vm), 3)),      //@ob C07.alu.{name}.operands_in_evm_order\n'
            + TAIL.format(name=name, n=3))


# SIGNEXTEND(b, x): a = mu_s[0] = b is the byte index (size in bytes - 1), mu_s[1] = x is the value that is extended.
# KNOWN FINDING (class signextend_operands_swapped): the pinned tree builds SignExtend { value: a, size: x }.  The clause is the
# EVM order OR exactly that class; `.exact` proves the code really is in the class (it goes red when the code is repaired, and
# the carve-out must then be removed).
def signextend():
    return ('// SIGNEXTEND: sign-extend b from byte a  (a = size in bytes - 1, b = value)\n' + HEAD.format(mod='arithmetic', name='SignExtend')
            + '            r is Ok ==> pushed_exec(old(vm), final(vm), RSVD::SignExtend { size: operand(old(vm), 1), value: operand(old(vm), 2) })\n'
            + '                || known_swapped_signextend(old(vm), final(vm)),      //@ob C07.alu.SignExtend.operands_in_evm_order\n'
            + '            r is Ok ==> known_swapped_signextend(old(vm), final(vm)),      //@ob C07.alu.SignExtend.known_swapped.exact\n'
            + TAIL.format(name='SignExtend', n=2))


# BYTE(i, x): a = mu_s[0] = i is the byte offset counted from the most significant byte, mu_s[1] = x the word.
# The tree has no byte node; the documented decomposition is (x >> (0xf8 - i * 0x08)) & 0xff  (see byte_shape in unit.rs).
def byte():
    return ('// BYTE: the a-th byte of b, counted from the most significant  (a = offset, b = value)\n' + HEAD.format(mod='logic', name='Byte')
            + '            r is Ok ==> byte_shape(result(final(vm)), old(vm).ip(), *operand(old(vm), 1), *operand(old(vm), 2)),      //@ob C07.alu.Byte.operands_in_evm_order\n'
            + TAIL.format(name='Byte', n=2))


def main():
    import os
    here = os.path.dirname(os.path.abspath(__file__))
    for mod in ('arithmetic', 'logic'):
        out = ['// GENERATED by gen_alu_directives.py — directives and contract clauses only; bodies are extracted from /repo on every run.',
               f'// ALU opcodes of src/opcode/{mod}.rs: operand order and stack effect of `execute` against the EVM definition']
        for row in BINARY[mod]:
            out.append(binary(mod, *row).rstrip('\n'))
        for row in UNARY[mod]:
            out.append(unary(mod, *row).rstrip('\n'))
        for row in MODOPS[mod]:
            out.append(modop(mod, *row).rstrip('\n'))
        if mod == 'arithmetic':
            out.append(signextend().rstrip('\n'))
        if mod == 'logic':
            out.append(byte().rstrip('\n'))
        open(os.path.join(here, f'ops_{mod}.rs'), 'w').write('\n'.join(out) + '\n')


if __name__ == '__main__':
    main()
