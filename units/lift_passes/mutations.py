# Mutation self-test for unit lift_passes.
# Usage: git -C /repo worktree add --detach /tmp/wt_liftpasses HEAD; python3 units/lift_passes/mutations.py [Mnn ...]; git -C /repo worktree remove --force /tmp/wt_liftpasses
# M* = property-breaking edits (must give status=failed on the expected labelled obligation),
# H* = behaviour-preserving edits (must give status=ok; undecided only for a changed loop form — never failed).
import os
import re
import subprocess
import sys
import time

WT = '/tmp/wt_liftpasses'
F = 'src/tc/lift/mod.rs'
LOOP = '        for pass in &mut self.passes {\n            value = pass.run(value, state)?;\n        }\n\n        Ok(value)'
DEF = ('                StorageSlotHashes::new(),\n                ProxySlots::new(),\n                MappingIndex::new(),\n                SubWordValue::new(),\n'
       '                MulShiftedValue::new(),\n                PackedEncoding::new(),\n                DynamicArrayIndex::new(),\n                StorageSlots::new(),\n'
       '                MappingOffset::new(),\n')


def deflist(*names):
    return ''.join(f'                {n}::new(),\n' for n in names)


# (id + description, file, old text, new text, label that must be among the failures; None = must stay green)
MUTS = [
    ('M01 run: every pass is fed the ORIGINAL value', F, LOOP,
     '        let original = value.clone();\n        for pass in &mut self.passes {\n            value = pass.run(original.clone(), state)?;\n        }\n\n        Ok(value)',
     'C17.lift_passes.run'),
    ('M02 run: a pass error is swallowed', F, LOOP,
     '        for pass in &mut self.passes {\n            if let Ok(v) = pass.run(value.clone(), state) { value = v; }\n        }\n\n        Ok(value)',
     'C17.lift_passes.run'),
    ('M03 run: the first pass is skipped', F, LOOP,
     '        let mut first = true;\n        for pass in &mut self.passes {\n            if first { first = false; continue; }\n            value = pass.run(value, state)?;\n        }\n\n        Ok(value)',
     'C17.lift_passes.run'),
    ('M04 run: stops after the first pass', F, LOOP,
     '        for pass in &mut self.passes {\n            value = pass.run(value, state)?;\n            break;\n        }\n\n        Ok(value)',
     'C17.lift_passes.run'),
    ('M05 run: the result of the passes is thrown away (returns what a pass received)', F, LOOP,
     '        for pass in &mut self.passes {\n            pass.run(value.clone(), state)?;\n        }\n\n        Ok(value)',
     'C17.lift_passes.run'),
    ('M06 run: after an error goes on with the remaining passes and reports Ok', F, LOOP,
     '        for pass in &mut self.passes {\n            match pass.run(value.clone(), state) { Ok(v) => value = v, Err(_) => continue }\n        }\n\n        Ok(value)',
     'C17.lift_passes.run'),
    ('M07 default: PackedEncoding before SubWordValue', F, DEF,
     deflist('StorageSlotHashes', 'ProxySlots', 'MappingIndex', 'PackedEncoding', 'SubWordValue', 'MulShiftedValue', 'DynamicArrayIndex', 'StorageSlots', 'MappingOffset'),
     'C12.lift_passes.default.exactly_the_nine_passes_in_order'),
    ('M08 default: StorageSlots first', F, DEF,
     deflist('StorageSlots', 'StorageSlotHashes', 'ProxySlots', 'MappingIndex', 'SubWordValue', 'MulShiftedValue', 'PackedEncoding', 'DynamicArrayIndex', 'MappingOffset'),
     'C05.lift_passes.default.exactly_the_nine_passes_in_order'),
    ('M09 default: ProxySlots missing', F, DEF,
     deflist('StorageSlotHashes', 'MappingIndex', 'SubWordValue', 'MulShiftedValue', 'PackedEncoding', 'DynamicArrayIndex', 'StorageSlots', 'MappingOffset'),
     'C05.lift_passes.default.exactly_the_nine_passes_in_order'),
    ('M10 default: MappingIndex listed twice', F, DEF,
     deflist('StorageSlotHashes', 'ProxySlots', 'MappingIndex', 'SubWordValue', 'MulShiftedValue', 'PackedEncoding', 'DynamicArrayIndex', 'StorageSlots', 'MappingOffset', 'MappingIndex'),
     'C05.lift_passes.default.no_pass_twice'),
    ('M11 new: drops the last pass handed in', F, '            passes: passes.into(),\n        }\n    }\n\n    /// Adds',
     '            passes: { let mut p: Vec<Box<dyn Lift>> = passes.into(); p.pop(); p },\n        }\n    }\n\n    /// Adds',
     'C17.lift_passes.new'),
    ('M12 MappingOffset::run: returns the value untransformed', 'src/tc/lift/mapping_offset.rs', 'Ok(value.transform_data(insert_mapping_offset))', 'Ok(value)',
     'C05.lift_passes.mapping_offset_run'),
    ('M13 run: iterates in reverse (loop form changes: undecided is the documented answer, failed is fine too)', F,
     'for pass in &mut self.passes {', 'for pass in self.passes.iter_mut().rev() {', 'LOOPFORM'),
    ('H01 run: locals renamed', F, LOOP,
     '        for lifting_pass in &mut self.passes {\n            value = lifting_pass.run(value, state)?;\n        }\n\n        Ok(value)'.replace('lifting_pass in', 'pass in').replace('lifting_pass.run', 'pass.run').replace('Ok(value)', 'let result = value;\n        Ok(result)'),
     None),
    ('H02 run: explicit match instead of `?`', F, LOOP,
     '        for pass in &mut self.passes {\n            value = match pass.run(value, state) {\n                Ok(v) => v,\n                Err(e) => return Err(e),\n            };\n        }\n\n        Ok(value)',
     None),
    ('H03 run: result through a temporary and an explicit return', F, LOOP,
     '        for pass in &mut self.passes {\n            let next = pass.run(value, state)?;\n            value = next;\n        }\n\n        return Ok(value);',
     None),
    ('H04 run: index loop instead of for (loop form changes: undecided allowed)', F, LOOP,
     '        let mut i = 0;\n        while i < self.passes.len() {\n            value = self.passes[i].run(value, state)?;\n            i += 1;\n        }\n\n        Ok(value)',
     None),
    ('H05 default: list built in a local first', F, 'Self {\n            passes: vec![', 'let passes: Vec<Box<dyn Lift>> = vec![', None),
    ('H06 new: local for the converted list', F, '        Self {\n            passes: passes.into(),\n        }',
     '        let list = passes.into();\n        Self { passes: list }', None),
]
MUTS += [
    ('M14 add: appends although a pass of that type is present', F, '        if ids.contains(&pass_id) {\n            return;\n        }\n', '        let _ = ids.contains(&pass_id);\n',
     'C05.lift_passes.add.no_op_when_a_pass_of_that_kind_is_present'),
    ('M15 add: puts the new pass FIRST', F, 'self.passes.push(alloc);', 'self.passes.insert(0, alloc);',
     'C05.lift_passes.add.otherwise_appended_at_the_end_existing_passes_unchanged'),
    ('M16 add: the presence test inverted', F, 'if ids.contains(&pass_id) {', 'if !ids.contains(&pass_id) {', 'C05.lift_passes.add'),
    ('H07 run: loop variable renamed (the R-FOREACH text names it: undecided is the documented answer)', F, LOOP,
     '        for lifting_pass in &mut self.passes {\n            value = lifting_pass.run(value, state)?;\n        }\n\n        Ok(value)', None),
    ('H08 add: locals renamed', F, ['let alloc = Box::new(pass);\n        self.passes.push(alloc);'], ['let boxed = Box::new(pass);\n        self.passes.push(boxed);'], None),
]
# H05 needs a second replacement to close the expression
MUTS[17] = ('H05 default: list built in a local first', F,
            ['Self {\n            passes: vec![', '                MappingOffset::new(),\n            ],\n        }'],
            ['let passes: Vec<Box<dyn Lift>> = vec![', '                MappingOffset::new(),\n            ];\n        Self { passes }'], None)


def run(name, path, old, new, want):
    subprocess.run(['git', '-C', WT, 'checkout', '--', '.'], check=True)
    p = f'{WT}/{path}'
    s = open(p).read()
    pairs = list(zip(old, new)) if isinstance(old, list) else [(old, new)]
    for o, n in pairs:
        assert s.count(o) == 1, (name, o, s.count(o))
        s = s.replace(o, n)
    open(p, 'w').write(s)
    t0 = time.time()
    r = subprocess.run(['python3', '/verif/vx/vx.py', 'unit', 'lift_passes', '--raw'], capture_output=True, text=True,
                       env={**os.environ, 'VX_REPO': WT}, cwd='/verif')
    out = r.stdout + r.stderr
    first = out.splitlines()[0] if out else ''
    status = first.split('status=')[1].split()[0] if 'status=' in first else '?'
    labels = sorted(set(re.findall(r"C\d\d\.lift_passes\.[A-Za-z0-9_.]+", out)))
    fails = [l for l in out.splitlines() if l.strip().startswith('FAIL')]
    if want is None:
        verdict = 'OK' if status in ('ok', 'undecided') else 'FALSE-ALARM'
    elif want == 'LOOPFORM':
        verdict = 'OK' if status in ('failed', 'undecided') else 'MISSED(' + status + ')'
    else:
        hit = any(want in l for l in labels) or any(want in f for f in fails)
        verdict = 'CAUGHT' if status == 'failed' and hit else ('CAUGHT-OTHER' if status == 'failed' else 'MISSED(' + status + ')')
    print(f'{verdict:13} {name}\n              status={status} {time.time() - t0:.0f}s labels={labels[:6]}')
    if verdict not in ('OK', 'CAUGHT') or status == 'undecided':
        print('\n'.join('              ' + l[:260] for l in out.splitlines()[:6]))
    sys.stdout.flush()
    return verdict


if __name__ == '__main__':
    sel = sys.argv[1:]
    res = []
    for m in MUTS:
        if sel and not any(m[0].startswith(x) for x in sel):
            continue
        res.append((m[0], run(*m)))
    subprocess.run(['git', '-C', WT, 'checkout', '--', '.'], check=True)
    bad = [r for r in res if r[1] not in ('OK', 'CAUGHT')]
    print(f'\n{len(res)} edits, {len(bad)} not as expected')
    for b in bad:
        print('  ', b)
