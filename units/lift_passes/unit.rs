//@unit props=C05,C12,C17,C01
// Unit lift_passes — the container that runs the lifting passes, src/tc/lift/mod.rs:
//   trait Lift (re-declared with spec fns), LiftingPasses::{new, add, run}, impl Default for LiftingPasses,
//   and the `Lift::run` bodies of the three passes whose `run` is not under contract in another unit
//   (mapping_offset.rs MappingOffset, mul_shifted.rs MulShiftedValue, sub_word.rs SubWordValue).
//
// What is decided:
//   C17  `run` returns exactly what running the passes one after the other IN LIST ORDER gives: pass k receives the
//        output of pass k-1 (the first one the input value), every pass the state handed in; Ok iff no pass fails on
//        the value it receives; the first failing pass's error is what is returned, unchanged, and no later pass is
//        run (every pass behind the failing one is left untouched). The pass list keeps its length and order.
//   C05 / C12  `default()` is exactly [StorageSlotHashes, ProxySlots, MappingIndex, SubWordValue, MulShiftedValue,
//        PackedEncoding, DynamicArrayIndex, StorageSlots, MappingOffset]; stated separately (other units rely on
//        them): SubWordValue and MulShiftedValue before PackedEncoding (C12: establishes packed_lift's `seg_ok`),
//        the hash recognisers before MappingIndex / DynamicArrayIndex, StorageSlots after MappingIndex,
//        DynamicArrayIndex and PackedEncoding (C05: slot nodes are made on already-lifted keys), no pass twice.
//   C05  `add` does nothing when a pass of that type is in the list, otherwise appends at the END; the passes that
//        were there are unchanged (the TypeId bookkeeping is behind R-CALL stand-ins).
//   C01  no panic in any of the functions (index in range, no arithmetic overflow of the loop counter).
// Everything marked A-... is an ASSUMPTION. What is not decided: the //@dropped lines at the end.
use vstd::prelude::*;
use std::sync::Arc;
//@include common/value_tree_items.rs
#[allow(dead_code, unused)]
mod lp_ext {
    // A-EXT: interface stand-ins. The unifier state is only handed through; the error container is only handed back.
    pub struct TypeCheckerState(pub u8);
    pub struct Errors(pub u8);
}
use lp_ext::TypeCheckerState;
#[allow(dead_code, unused)]
mod error { pub mod unification { pub type Result<T> = std::result::Result<T, crate::lp_ext::Errors>; } }
use error::unification::Result;
use std::any::TypeId;

verus! {

#[verifier::external_type_specification]
#[verifier::external_body]
pub struct ExTypeCheckerState(TypeCheckerState);
#[verifier::external_type_specification]
#[verifier::external_body]
pub struct ExErrors(lp_ext::Errors);
// A-STD: std::any::TypeId, opaque.
#[verifier::external_type_specification]
#[verifier::external_body]
pub struct ExTypeId(TypeId);

/// GHOST: which of the nine pass types a `dyn Lift` is (what `Any::type_id` distinguishes).
#[derive(PartialEq, Eq, Structural, Clone, Copy)]
pub enum PassKind { StorageSlotHashes, ProxySlots, MappingIndex, SubWordValue, MulShiftedValue, PackedEncoding, DynamicArrayIndex, StorageSlots, MappingOffset, Other(int) }

// A-EXT: the `Lift` interface of src/tc/lift/mod.rs (supertraits Any + Debug + Downcast dropped; a declaration
// without executable content). A pass may have state (`&mut self`; StorageSlotHashes has a hash table): what it does
// is a function of ITS state before the call, the value and the typing state. `fails` = it reports an error,
// `error` = which one, `image` = the value it returns otherwise. A pass never changes what type it is.
pub trait Lift {
    spec fn kind(&self) -> PassKind;
    spec fn fails(&self, v: RSV, s: &TypeCheckerState) -> bool;
    spec fn image(&self, v: RSV, s: &TypeCheckerState) -> RSV;
    spec fn error(&self, v: RSV, s: &TypeCheckerState) -> lp_ext::Errors;
    fn run(&mut self, value: RuntimeBoxedVal, state: &TypeCheckerState) -> (r: crate::error::unification::Result<RuntimeBoxedVal>)
        ensures
            final(self).kind() == old(self).kind(),
            r is Err <==> old(self).fails(*value, state),
            r matches Ok(x) ==> *x == old(self).image(*value, state),
            r matches Err(e) ==> e == old(self).error(*value, state);
}

/// the values are compared by CONTENT (the tree an `Arc` points to), not by which allocation holds it
pub open spec fn content(r: Result<RuntimeBoxedVal>) -> Result<RSV> { match r { Ok(x) => Ok(*x), Err(e) => Err(e) } }
pub open spec fn unboxed(b: RuntimeBoxedVal) -> RSV { *b }
/// what one pass answers for a value
pub open spec fn step(p: Box<dyn Lift>, v: RSV, s: &TypeCheckerState) -> Result<RSV> {
    if p.fails(v, s) { Err(p.error(v, s)) } else { Ok(p.image(v, s)) }
}
/// the first `n` passes of `ps` run one after the other on `v`, in list order, stopping at the first error
pub open spec fn run_all(ps: Seq<Box<dyn Lift>>, n: nat, v: RSV, s: &TypeCheckerState) -> Result<RSV>
    decreases n,
{
    if n == 0 { Ok(v) } else {
        match run_all(ps, (n - 1) as nat, v, s) { Err(e) => Err(e), Ok(x) => step(ps[n - 1], x, s) }
    }
}
/// none of the first `n` passes fails on the value it receives
pub open spec fn none_fails(ps: Seq<Box<dyn Lift>>, n: nat, v: RSV, s: &TypeCheckerState) -> bool {
    forall|k: nat| k < n ==> (#[trigger] run_all(ps, k, v, s) matches Ok(x) ==> !ps[k as int].fails(x, s))
}
proof fn lemma_err_stays(ps: Seq<Box<dyn Lift>>, k: nat, n: nat, v: RSV, s: &TypeCheckerState)
    requires k <= n, run_all(ps, k, v, s) is Err,
    ensures run_all(ps, n, v, s) == run_all(ps, k, v, s),
    decreases n,
{
    if k < n { lemma_err_stays(ps, k, (n - 1) as nat, v, s); }
}
proof fn lemma_ok_iff(ps: Seq<Box<dyn Lift>>, n: nat, v: RSV, s: &TypeCheckerState)
    ensures run_all(ps, n, v, s) is Ok <==> none_fails(ps, n, v, s),
    decreases n,
{
    if n > 0 {
        lemma_ok_iff(ps, (n - 1) as nat, v, s);
        if run_all(ps, n, v, s) is Ok {
            assert forall|k: nat| k < n implies (#[trigger] run_all(ps, k, v, s) matches Ok(x) ==> !ps[k as int].fails(x, s)) by {
                if k < n - 1 { assert(none_fails(ps, (n - 1) as nat, v, s)); }
            }
        }
        if none_fails(ps, n, v, s) {
            assert(none_fails(ps, (n - 1) as nat, v, s));
            assert(run_all(ps, (n - 1) as nat, v, s) is Ok);
        }
    }
}
pub open spec fn kinds(ps: Seq<Box<dyn Lift>>) -> Seq<PassKind> { Seq::new(ps.len(), |i: int| ps[i].kind()) }
/// a pass of kind `a` stands somewhere before a pass of kind `b`
pub open spec fn before(ks: Seq<PassKind>, a: PassKind, b: PassKind) -> bool {
    exists|i: int, j: int| 0 <= i < j < ks.len() && #[trigger] ks[i] == a && #[trigger] ks[j] == b
}
pub open spec fn no_duplicates(ks: Seq<PassKind>) -> bool {
    forall|i: int, j: int| 0 <= i < j < ks.len() ==> #[trigger] ks[i] != #[trigger] ks[j]
}
pub open spec fn default_order() -> Seq<PassKind> {
    seq![PassKind::StorageSlotHashes, PassKind::ProxySlots, PassKind::MappingIndex, PassKind::SubWordValue, PassKind::MulShiftedValue,
         PassKind::PackedEncoding, PassKind::DynamicArrayIndex, PassKind::StorageSlots, PassKind::MappingOffset]
}

/// what the other units rely on in that order — facts about `default_order()`, which `default()` is proved to build
proof fn lemma_default_order_facts()
    ensures
            before(default_order(), PassKind::SubWordValue, PassKind::PackedEncoding),            //@ob C12.lift_passes.default.sub_word_before_packed_encoding
            before(default_order(), PassKind::MulShiftedValue, PassKind::PackedEncoding),         //@ob C12.lift_passes.default.mul_shifted_before_packed_encoding
            before(default_order(), PassKind::StorageSlotHashes, PassKind::MappingIndex)
                && before(default_order(), PassKind::ProxySlots, PassKind::MappingIndex)
                && before(default_order(), PassKind::StorageSlotHashes, PassKind::DynamicArrayIndex)
                && before(default_order(), PassKind::ProxySlots, PassKind::DynamicArrayIndex),    //@ob C05.lift_passes.default.hash_recognisers_before_mapping_and_array_index
            before(default_order(), PassKind::MappingIndex, PassKind::StorageSlots)
                && before(default_order(), PassKind::DynamicArrayIndex, PassKind::StorageSlots)
                && before(default_order(), PassKind::PackedEncoding, PassKind::StorageSlots),     //@ob C05.lift_passes.default.storage_slots_after_the_key_lifts
{
    let ks = default_order();
    assert(ks[0] == PassKind::StorageSlotHashes && ks[1] == PassKind::ProxySlots && ks[2] == PassKind::MappingIndex && ks[3] == PassKind::SubWordValue
        && ks[4] == PassKind::MulShiftedValue && ks[5] == PassKind::PackedEncoding && ks[6] == PassKind::DynamicArrayIndex && ks[7] == PassKind::StorageSlots);
}

// R-SIG on `run`: the parameter `mut value` is named `vx_value` and `let mut value = vx_value;` is the first statement
// (a postcondition speaks about the value handed IN; a `mut` parameter has no name for that across the loop).
// A-STD (R-FOREACH): `for pass in &mut self.passes` visits the elements of the Vec by index 0, 1, .. len-1, each
// through a unique reference: `vx_pass_at` is `&mut v[i]` — the other elements are not touched.
#[verifier::external_body]
fn vx_pass_at(s: &mut Vec<Box<dyn Lift>>, i: usize) -> (r: &mut Box<dyn Lift>)
    requires i < old(s).len(),
    ensures *r == old(s)[i as int], final(s)@ == old(s)@.update(i as int, *final(r)),
{ unimplemented!() }


// R-SIG on `add`: `P: Lift` is written `P: Lift + 'static` — in the repository `Lift: Any` gives that; the supertrait is dropped here.
// A-STD / A-CALLEE (R-CALL stand-ins of `add`): `Any::type_id` tells pass types apart — `id_of` is the TypeId of a pass
// kind, different kinds have different ids (`kind_of_id` is its inverse); `ids` = the ids of the list's elements in
// order (iter().map(type_id).collect()); `Vec::contains`; `Box::new` + the unsizing coercion keeps the pass's kind.
pub uninterp spec fn id_of(k: PassKind) -> TypeId;
pub uninterp spec fn kind_of_id(t: TypeId) -> PassKind;
pub open spec fn has_kind(ps: Seq<Box<dyn Lift>>, k: PassKind) -> bool { exists|i: int| 0 <= i < ps.len() && (#[trigger] ps[i]).kind() == k }
#[verifier::external_body]
fn vx_ids(s: &Vec<Box<dyn Lift>>) -> (r: Vec<TypeId>)
    ensures r.len() == s.len(), forall|i: int| 0 <= i < s.len() ==> #[trigger] r[i] == id_of(s[i].kind()), forall|i: int| 0 <= i < s.len() ==> r[i] == id_of((#[trigger] s[i]).kind()),
{ unimplemented!() }
#[verifier::external_body]
fn vx_type_id<P: Lift>(p: &P) -> (r: TypeId)
    ensures r == id_of(p.kind()), forall|k: PassKind| kind_of_id(#[trigger] id_of(k)) == k,
{ unimplemented!() }
#[verifier::external_body]
fn vx_contains(v: &Vec<TypeId>, t: &TypeId) -> (r: bool)
    ensures r <==> exists|i: int| 0 <= i < v.len() && #[trigger] v[i] == *t,
{ unimplemented!() }
#[verifier::external_body]
fn vx_box<P: Lift + 'static>(p: P) -> (r: Box<dyn Lift>)
    ensures r.kind() == p.kind(),
{ unimplemented!() }

// A-CALLEE: the constructors of the six passes whose types are not in this unit: `X::new()` is `Box::new(Self)`
// (hash table construction for StorageSlotHashes), coerced to `Box<dyn Lift>` by the `vec!` of `default`; here the
// coercion is part of the stand-in and the result is tagged with the type it was made from.
pub struct StorageSlotHashes; pub struct ProxySlots; pub struct MappingIndex; pub struct PackedEncoding; pub struct DynamicArrayIndex; pub struct StorageSlots;
impl StorageSlotHashes { #[verifier::external_body] pub fn new() -> (r: Box<dyn Lift>) ensures r.kind() == PassKind::StorageSlotHashes { unimplemented!() } }
impl ProxySlots { #[verifier::external_body] pub fn new() -> (r: Box<dyn Lift>) ensures r.kind() == PassKind::ProxySlots { unimplemented!() } }
impl MappingIndex { #[verifier::external_body] pub fn new() -> (r: Box<dyn Lift>) ensures r.kind() == PassKind::MappingIndex { unimplemented!() } }
impl PackedEncoding { #[verifier::external_body] pub fn new() -> (r: Box<dyn Lift>) ensures r.kind() == PassKind::PackedEncoding { unimplemented!() } }
impl DynamicArrayIndex { #[verifier::external_body] pub fn new() -> (r: Box<dyn Lift>) ensures r.kind() == PassKind::DynamicArrayIndex { unimplemented!() } }
impl StorageSlots { #[verifier::external_body] pub fn new() -> (r: Box<dyn Lift>) ensures r.kind() == PassKind::StorageSlots { unimplemented!() } }
// ... and of the three that are (same stand-in: `Box::new(Self)` + the coercion)
impl SubWordValue { #[verifier::external_body] pub fn new() -> (r: Box<dyn Lift>) ensures r.kind() == PassKind::SubWordValue { unimplemented!() } }
impl MulShiftedValue { #[verifier::external_body] pub fn new() -> (r: Box<dyn Lift>) ensures r.kind() == PassKind::MulShiftedValue { unimplemented!() } }
impl MappingOffset { #[verifier::external_body] pub fn new() -> (r: Box<dyn Lift>) ensures r.kind() == PassKind::MappingOffset { unimplemented!() } }

// =====================================================================================================
//                     the `run` of the three passes not under contract elsewhere
// =====================================================================================================
// A-CALLEE: the traversal combinator (as in unit guards): `v.transform_data(f)` is an uninterpreted function of the
// value and of WHICH function item is passed — determinism only.
pub uninterp spec fn txf<F>(v: RSV, f: F) -> RSV;
impl RSV {
    #[verifier::external_body]
    pub fn transform_data<F: Fn(&RSVD) -> Option<RSVD> + Copy>(&self, transform: F) -> (r: RuntimeBoxedVal)
        ensures *r == txf(*self, transform)
    { unimplemented!() }
}
// A-CALLEE: the inserters (insert_multiplicative_shifts, insert_sub_words: under contract in unit arith_sites;
// insert_mapping_offset: let-else + or-patterns over two boxes, not under contract). No contract here: any result.
#[verifier::external_body]
pub fn insert_mapping_offset(data: &RSVD) -> Option<RSVD> { unimplemented!() }
#[verifier::external_body]
pub fn insert_multiplicative_shifts(data: &RSVD) -> Option<RSVD> { unimplemented!() }
#[verifier::external_body]
pub fn insert_sub_words(data: &RSVD) -> Option<RSVD> { unimplemented!() }

//@extract file=src/tc/lift/mapping_offset.rs path="struct MappingOffset" kind=type
//@end
//@extract file=src/tc/lift/mapping_offset.rs path="impl Lift for MappingOffset" kind=header
//@end
    open spec fn kind(&self) -> PassKind { PassKind::MappingOffset }
    open spec fn fails(&self, v: RSV, s: &TypeCheckerState) -> bool { false }
    open spec fn image(&self, v: RSV, s: &TypeCheckerState) -> RSV { txf(v, insert_mapping_offset) }
    uninterp spec fn error(&self, v: RSV, s: &TypeCheckerState) -> lp_ext::Errors;
//@extract file=src/tc/lift/mapping_offset.rs path="impl Lift for MappingOffset|fn run" props=C05,C17,C01
//@ret r
//@hoist insert_mapping_offset
//@spec
        ensures
            r matches Ok(x) && *x == txf(*value, insert_mapping_offset),                          //@ob C05.lift_passes.mapping_offset_run.passes_the_inserter C17.lift_passes.mapping_offset_run.never_an_error
//@end
}

//@extract file=src/tc/lift/mul_shifted.rs path="struct MulShiftedValue" kind=type
//@end
//@extract file=src/tc/lift/mul_shifted.rs path="impl Lift for MulShiftedValue" kind=header
//@end
    open spec fn kind(&self) -> PassKind { PassKind::MulShiftedValue }
    open spec fn fails(&self, v: RSV, s: &TypeCheckerState) -> bool { false }
    open spec fn image(&self, v: RSV, s: &TypeCheckerState) -> RSV { txf(v, insert_multiplicative_shifts) }
    uninterp spec fn error(&self, v: RSV, s: &TypeCheckerState) -> lp_ext::Errors;
//@extract file=src/tc/lift/mul_shifted.rs path="impl Lift for MulShiftedValue|fn run" props=C12,C17,C01
//@ret r
//@hoist insert_multiplicative_shifts
//@spec
        ensures
            r matches Ok(x) && *x == txf(*value, insert_multiplicative_shifts),                   //@ob C12.lift_passes.mul_shifted_run.passes_the_inserter C17.lift_passes.mul_shifted_run.never_an_error
//@end
}

//@extract file=src/tc/lift/sub_word.rs path="struct SubWordValue" kind=type
//@end
//@extract file=src/tc/lift/sub_word.rs path="impl Lift for SubWordValue" kind=header
//@end
    open spec fn kind(&self) -> PassKind { PassKind::SubWordValue }
    open spec fn fails(&self, v: RSV, s: &TypeCheckerState) -> bool { false }
    open spec fn image(&self, v: RSV, s: &TypeCheckerState) -> RSV { txf(v, insert_sub_words) }
    uninterp spec fn error(&self, v: RSV, s: &TypeCheckerState) -> lp_ext::Errors;
//@extract file=src/tc/lift/sub_word.rs path="impl Lift for SubWordValue|fn run" props=C12,C17,C01
//@ret r
//@hoist insert_sub_words
//@spec
        ensures
            r matches Ok(x) && *x == txf(*value, insert_sub_words),                               //@ob C12.lift_passes.sub_word_run.passes_the_inserter C17.lift_passes.sub_word_run.never_an_error
//@end
}

// =====================================================================================================
//                                   src/tc/lift/mod.rs — LiftingPasses
// =====================================================================================================
//@extract file=src/tc/lift/mod.rs path="struct LiftingPasses" kind=type
//@end
impl LiftingPasses {
    /// the ordered pass list
    pub closed spec fn list(&self) -> Seq<Box<dyn Lift>> { self.passes@ }
}
//@extract file=src/tc/lift/mod.rs path="impl LiftingPasses" kind=header
//@end
//@extract file=src/tc/lift/mod.rs path="impl LiftingPasses|fn new" props=C17,C01
//@ret r
//@rw R-IMPL-INTO
//@old
passes: impl Into<Vec<Box<dyn Lift>>>
//@new
passes: Vec<Box<dyn Lift>>
//@rw R-IMPL-INTO
//@old
passes.into()
//@new
passes
//@spec
        ensures r.list() == passes@,                                                              //@ob C17.lift_passes.new.the_list_as_given
//@end

//@extract file=src/tc/lift/mod.rs path="impl LiftingPasses|fn add" props=C05,C01
//@rw R-SIG
//@old
add<P: Lift>
//@new
add<P: Lift + 'static>
//@rw R-CALL
//@old
self.passes.iter().map(|p| p.as_ref().type_id()).collect()
//@new
vx_ids(&self.passes)
//@rw R-CALL
//@old
pass.type_id()
//@new
vx_type_id(&pass)
//@rw R-CALL
//@old
ids.contains(&pass_id)
//@new
vx_contains(&ids, &pass_id)
//@rw R-CALL
//@old
Box::new(pass)
//@new
vx_box(pass)
//@spec
        ensures
            has_kind(old(self).list(), pass.kind()) ==> final(self).list() == old(self).list(),  //@ob C05.lift_passes.add.no_op_when_a_pass_of_that_kind_is_present
            !has_kind(old(self).list(), pass.kind()) ==> final(self).list().len() == old(self).list().len() + 1
                && final(self).list().last().kind() == pass.kind()
                && final(self).list().drop_last() =~= old(self).list(),                           //@ob C05.lift_passes.add.otherwise_appended_at_the_end_existing_passes_unchanged
//@end

//@extract file=src/tc/lift/mod.rs path="impl LiftingPasses|fn run" props=C17,C05,C01
//@ret r
//@rw R-SIG
//@old
mut value: RuntimeBoxedVal,
//@new
vx_value: RuntimeBoxedVal,
//@rw R-FOREACH
//@old
for pass in &mut self.passes {
//@new
let mut vx_i: usize = 0;
        while vx_i < self.passes.len() { let pass = vx_pass_at(&mut self.passes, vx_i); vx_i += 1;
//@spec
        ensures
            // the passes one after the other in list order, each on the previous one's output, the first error returned as it is
            content(r) == run_all(old(self).list(), old(self).list().len(), *vx_value, state),                 //@ob C17.lift_passes.run.composition_in_list_order_first_error_returned_unchanged
            r is Ok <==> none_fails(old(self).list(), old(self).list().len(), *vx_value, state),      //@ob C17.lift_passes.run.ok_iff_no_pass_fails_on_what_it_receives
            // a pass that stands behind a failure is not run: it is exactly what it was
            forall|j: int| 0 <= j < old(self).list().len() && run_all(old(self).list(), j as nat, *vx_value, state) is Err
                ==> #[trigger] final(self).list()[j] == old(self).list()[j],                      //@ob C17.lift_passes.run.no_pass_runs_after_a_failure
            final(self).list().len() == old(self).list().len(),                                   //@ob C05.lift_passes.run.pass_list_keeps_its_length
            kinds(final(self).list()) == kinds(old(self).list()),                                 //@ob C05.lift_passes.run.pass_list_keeps_its_order C12.lift_passes.run.pass_list_keeps_its_order
//@proof entry
        let ghost v0 = vx_value;
        let mut value = vx_value;   // R-SIG, second half: the body's `value` (see above)
//@loop 1 kind=while
            invariant
                v0 == vx_value,
                vx_i <= self.list().len(),
                self.list().len() == old(self).list().len(),                                      //@ob C05.lift_passes.run.loop.pass_list_keeps_its_length
                forall|j: int| 0 <= j < self.list().len() ==> (#[trigger] self.list()[j]).kind() == old(self).list()[j].kind(),   //@ob C05.lift_passes.run.loop.pass_list_keeps_its_order
                forall|j: int| vx_i <= j < self.list().len() ==> #[trigger] self.list()[j] == old(self).list()[j],   //@ob C17.lift_passes.run.loop.passes_ahead_untouched
                run_all(old(self).list(), vx_i as nat, *vx_value, state) == Ok::<RSV, lp_ext::Errors>(*value),   //@ob C17.lift_passes.run.loop.value_is_the_composition_so_far
                forall|k: nat| k <= vx_i ==> #[trigger] run_all(old(self).list(), k, *vx_value, state) is Ok,   //@ob C17.lift_passes.run.loop.no_failure_so_far
            decreases self.list().len() - vx_i,
//@proof loopstart #1
        proof {
            // should the pass about to run fail, the whole run is that failure
            let ghost full = old(self).list().len();
            assert(self.list()[vx_i as int] == old(self).list()[vx_i as int]);
            assert(run_all(old(self).list(), vx_i as nat, unboxed(v0), state) is Ok);
            assert(run_all(old(self).list(), (vx_i + 1) as nat, unboxed(v0), state) == step(old(self).list()[vx_i as int], unboxed(value), state));
            if step(old(self).list()[vx_i as int], unboxed(value), state) is Err {
                lemma_err_stays(old(self).list(), (vx_i + 1) as nat, full, unboxed(v0), state);
            }
            lemma_ok_iff(old(self).list(), full, unboxed(v0), state);
        }
//@proof afterloop #1
        proof {
            lemma_ok_iff(old(self).list(), old(self).list().len(), unboxed(v0), state);
            assert(kinds(self.list()) =~= kinds(old(self).list()));
        }
//@end
}

//@extract file=src/tc/lift/mod.rs path="impl Default for LiftingPasses" kind=header
//@end
//@extract file=src/tc/lift/mod.rs path="impl Default for LiftingPasses|fn default" props=C05,C12,C01
//@ret r
//@spec
        ensures
            kinds(r.list()) =~= default_order(),                                                  //@ob C05.lift_passes.default.exactly_the_nine_passes_in_order C12.lift_passes.default.exactly_the_nine_passes_in_order
            no_duplicates(kinds(r.list())),                                                       //@ob C05.lift_passes.default.no_pass_twice
//@end
}


// ================= tc::Config (src/tc/mod.rs): which passes and rules a type checker runs =================
// A-CALLEE: InferenceRules is opaque here (its `infer` and `default` are under contract in unit rules); `default()` promises nothing.
#[verifier::external_body]
pub struct InferenceRules { _opaque: u8 }
impl Default for InferenceRules {
    #[verifier::external_body]
    fn default() -> (r: InferenceRules) { unimplemented!() }
}
pub uninterp spec fn default_rules() -> InferenceRules;

//@extract file=src/tc/mod.rs path="struct Config" kind=type
//@end
//@extract file=src/tc/mod.rs path="impl Config" kind=header
//@end
// R-MUTSELF (desugaring of a `mut self` builder, as in unit vm_state)
//@extract file=src/tc/mod.rs path="impl Config|fn with_lifting_passes" props=C05,C01 id=tc::Config::with_lifting_passes
//@ret r
//@rw R-MUTSELF
//@old
mut self,
//@new
self,
//@rw R-MUTSELF count=any optional
//@old
self.$1 = $2;
//@new
vx_self.$1 = $2;
//@rw R-MUTSELF
//@old
;
        self
    }
//@new
;
        vx_self
    }
//@proof entry
        let mut vx_self = self;   // R-MUTSELF, first half
//@spec
        ensures
            r.lifting_passes == value,                                  //@ob C05.lift_passes.config.with_lifting_passes.runs_the_given_passes
            r.inference_rules == self.inference_rules,                  //@ob C05.lift_passes.config.with_lifting_passes.rules_untouched
//@end
//@extract file=src/tc/mod.rs path="impl Config|fn with_inference_rules" props=C05,C01 id=tc::Config::with_inference_rules
//@ret r
//@rw R-MUTSELF
//@old
mut self,
//@new
self,
//@rw R-MUTSELF count=any optional
//@old
self.$1 = $2;
//@new
vx_self.$1 = $2;
//@rw R-MUTSELF
//@old
;
        self
    }
//@new
;
        vx_self
    }
//@proof entry
        let mut vx_self = self;   // R-MUTSELF, first half
//@spec
        ensures
            r.inference_rules == value,                                 //@ob C05.lift_passes.config.with_inference_rules.uses_the_given_rules
            r.lifting_passes == self.lifting_passes,                    //@ob C05.lift_passes.config.with_inference_rules.passes_untouched
//@end
}
//@extract file=src/tc/mod.rs path="impl Default for Config" kind=header
//@end
//@extract file=src/tc/mod.rs path="impl Default for Config|fn default" props=C05,C12,C01 id=tc::Config::default
//@ret r
//@spec
        ensures
            kinds(r.lifting_passes.list()) == default_order(),          //@ob C05.lift_passes.config.default.runs_the_nine_documented_passes_in_order C12.lift_passes.config.default.runs_the_nine_documented_passes_in_order
//@end
}

//@dropped LiftingPasses::add: `self.passes.iter().map(type_id).collect()`, `pass.type_id()`, `ids.contains(..)`, `Box::new(pass)` + unsizing are R-CALL stand-ins (TypeId modelled as an injective image of the ghost pass kind); the control flow (early return / push at the end) is the repository's
//@dropped LiftingPasses::run: renaming the loop variable or changing the loop form loses the R-FOREACH anchor (status undecided, never a false ok); the `mut value` parameter is re-bound (R-SIG)
//@dropped LiftingPasses::get / get_mut (iterator find + downcast through Any): not extracted
//@dropped the body of each pass constructor `X::new()` (`Box::new(Self)`; the hash table of StorageSlotHashes) and the unsizing coercion Box<X> -> Box<dyn Lift> inside `vec![..]`: stand-ins tagged with the pass kind (A-CALLEE)
//@dropped what the six passes whose `run` lives in other units do is not connected here: `run` is decided against the interface (`fails` / `image` / `error` of whatever passes are in the list); that SubWordValue/MulShiftedValue ESTABLISH packed_lift's `seg_ok` and that StorageSlots only wraps already-lifted keys is the business of units arith_sites, packed_lift, guards — here only the ORDER they rely on
//@dropped insert_mapping_offset (mapping_offset.rs): a stand-in here; its body is under contract in unit guards (C05.guard.insert_mapping_offset.*)
} // verus!
fn main() {}
