//@unit props=C06,C05,C01
// Unit collect — the value-collection enumerations of a thread's storage: what `Storage::stores_as_values` and
// `Storage::all_values` HAND OVER to the type checker (unit vm_state only assumes "some sequence").
//   C06 "every SLOAD/SSTORE at a constant key yields a layout entry at that slot" — link under contract: every store (every
//       generation of every key, constant or symbolic) reaches the type checker as exactly one StorageWrite{key, value} value
//       carrying the stored value's instruction pointer and provenance; per key the generations keep their order.
//   C05 "every reported slot comes from an executed storage access" — link: nothing is handed over that was not stored.
// ORDER-FREE statement (HashMap iteration order is unspecified): the result is the flattening of SOME enumeration of the
// entries of known_slots (each key exactly once) followed by SOME enumeration of those of symbolic_slots; membership
// corollaries (lemma_every_store_exported / lemma_nothing_invented) are proved from it.
// KEY MODEL: unlike unit storage, spec equality of a BoxedVal here is full structural identity (payload, instruction
// pointer, provenance); no `obeys_key_model` is needed because the maps are only ENUMERATED (A-STD on into_iter/keys/values
// talks about the map's view, i.e. the keys and values actually on file), never looked up.
use vstd::prelude::*;
use std::collections::HashMap;
//@dropped membership corollaries (every store's data is contained / nothing else is) are proved for Storage only; for Memory::all_values the exact shape (witness enumerations) is the contract
//@dropped a `for` loop instead of `for_each`, or a let-bound tail in ExecutionResult::all_values, loses a rewrite anchor: such trees are `undecided` (loop-form brittleness), never `ok`
//@dropped the multiset equality of two different enumerations of one map (permutation lemma) is not proved; the contract is stated through a witness enumeration instead
//@dropped RSV::new's size precondition (`child_size() + 1` does not overflow) is not re-stated here (unit value_size)

// A-EXT: opaque payload types of SymbolicValueData (`uuid::Uuid`, `KnownWord`); never inspected here
mod ext {
    #[derive(Clone, Copy, PartialEq, Eq)]
    pub struct Uuid(pub u128);
    #[derive(Clone, Copy, PartialEq, Eq)]
    pub struct KnownWord(pub [u128; 2]);
}
use ext::{KnownWord, Uuid};
impl<A> core::hash::Hash for BoxedVal<A> { fn hash<H: core::hash::Hasher>(&self, _s: &mut H) { unimplemented!() } }
impl<A> PartialEq for BoxedVal<A> { fn eq(&self, _o: &Self) -> bool { unimplemented!() } }
impl<A> Eq for BoxedVal<A> {}

verus! {
#[verifier::external_type_specification]
#[verifier::external_body]
pub struct ExUuid(Uuid);
#[verifier::external_type_specification]
#[verifier::external_body]
pub struct ExKnownWord(KnownWord);

// A-CALLEE (type stand-in): `BoxedVal<A> = Arc<SymbolicValue<A>>`, OPAQUE, with its three parts as spec accessors.
#[verifier::external_body]
#[verifier::accept_recursive_types(A)]
pub struct BoxedVal<A> { _p: core::marker::PhantomData<A> }
impl<A> Clone for BoxedVal<A> {
    // A-STD: Arc::clone returns the same value
    #[verifier::external_body]
    fn clone(&self) -> (r: Self) ensures r == *self { unimplemented!() }
}
impl<A> BoxedVal<A> {
    pub uninterp spec fn dt(&self) -> SymbolicValueData<A>;
    pub uninterp spec fn ip(&self) -> u32;
    pub uninterp spec fn prov(&self) -> Provenance;
    // A-CALLEE: SymbolicValue::{instruction_pointer, provenance} reached through the Arc: field getters
    #[verifier::external_body]
    pub fn instruction_pointer(&self) -> (r: u32) ensures r == self.ip() { unimplemented!() }
    #[verifier::external_body]
    pub fn provenance(&self) -> (r: Provenance) ensures r == self.prov() { unimplemented!() }
}
#[derive(Clone, Copy)]
//@extract file=src/vm/value/mod.rs path="enum Provenance" kind=type
//@end
//@extract file=src/vm/value/mod.rs path="type RuntimeAuxData" kind=type
//@end
//@extract file=src/vm/value/mod.rs path="type RuntimeBoxedVal" kind=type
//@end
//@extract file=src/vm/value/mod.rs path="type SV" kind=type
//@end
//@extract file=src/vm/value/mod.rs path="type SVD" kind=type
//@end
//@extract file=src/vm/value/mod.rs path="type RSV" kind=type
//@end
//@extract file=src/vm/value/mod.rs path="type RSVD" kind=type
//@end
//@extract file=src/vm/value/mod.rs path="struct PackedSpan" kind=type
//@end
//@extract file=src/vm/value/mod.rs path="enum SymbolicValueData" kind=type
//@end
// A-CALLEE: `RSV::new(ip, data, provenance, None)`: a node with exactly those parts (PROVED in unit value_size:
// C18.vs.new.no_limit_untouched, C18.vs.new.frame)
pub struct SymbolicValue<AuxData> { _aux: AuxData }
impl SymbolicValue<()> {
    #[verifier::external_body]
    pub fn new(instruction_pointer: u32, data: RSVD, provenance: Provenance, value_size_limit: Option<usize>) -> (r: RuntimeBoxedVal)
        ensures value_size_limit is None ==> r.dt() == data, r.ip() == instruction_pointer, r.prov() == provenance,
    { unimplemented!() }
}

// ---- A-STD: iterators viewed as the sequence of items they will yield -------------------------------------------------
#[verifier::external_body]
#[verifier::reject_recursive_types(T)]
pub struct VxIter<T> { _v: Vec<T> }
/// `e` enumerates the entries of `m`: every entry, each key exactly once, in any order
pub open spec fn is_enum_of<K, V>(e: Seq<(K, V)>, m: Map<K, V>) -> bool {
    &&& forall|i: int| 0 <= i < e.len() ==> m.contains_key((#[trigger] e[i]).0) && m[e[i].0] == e[i].1
    &&& forall|i: int, j: int| 0 <= i < j < e.len() ==> (#[trigger] e[i]).0 != (#[trigger] e[j]).0
    &&& forall|k: K| m.contains_key(k) ==> exists|i: int| 0 <= i < e.len() && (#[trigger] e[i]).0 == k
}
/// the (unspecified) order in which this map yields its entries
pub uninterp spec fn enum_of<K, V>(m: HashMap<K, V>) -> Seq<(K, V)>;
// A-STD: HashMap::into_iter yields every entry exactly once, order unspecified
#[verifier::external_body]
pub fn vx_map_into_iter<K, V>(m: HashMap<K, V>) -> (r: VxIter<(K, V)>)
    ensures r.seq() == enum_of(m), is_enum_of(enum_of(m), m@),
{ unimplemented!() }
// A-STD (R-CALL glue): `Vec::into_iter` yields the elements in order
#[verifier::external_body]
pub fn vx_from_vec<T>(v: Vec<T>) -> (r: VxIter<T>) ensures r.seq() == v@ { unimplemented!() }
impl<T> VxIter<T> {
    pub uninterp spec fn seq(&self) -> Seq<T>;
    // A-STD (R-FOREACH glue): the items an iterator yields, in order, as a vector to loop over
    #[verifier::external_body]
    pub fn vx_items(self) -> (r: Vec<T>) ensures r@ == self.seq() { unimplemented!() }
    // A-STD: Iterator::{skip, take, rev}
    #[verifier::external_body]
    pub fn skip(self, n: usize) -> (r: Self) ensures r.seq() == (if n <= self.seq().len() { self.seq().skip(n as int) } else { Seq::empty() }) { unimplemented!() }
    #[verifier::external_body]
    pub fn take(self, n: usize) -> (r: Self) ensures r.seq() == (if n <= self.seq().len() { self.seq().take(n as int) } else { self.seq() }) { unimplemented!() }
    #[verifier::external_body]
    pub fn rev(self) -> (r: Self) ensures r.seq() == self.seq().reverse() { unimplemented!() }
}
/// the (unspecified) order in which `keys()` yields this map's keys
pub uninterp spec fn keys_of<K, V>(m: HashMap<K, V>) -> Seq<K>;
/// `ks` lists the keys of `m`, each exactly once
pub open spec fn is_keys_of<K, V>(ks: Seq<K>, m: Map<K, V>) -> bool {
    ks.no_duplicates() && forall|k: K| #[trigger] ks.contains(k) <==> m.contains_key(k)
}
// A-STD: HashMap::keys yields a reference to every key exactly once, order unspecified
#[verifier::external_body]
pub fn vx_keys<'a, K, V>(m: &'a HashMap<K, V>) -> (r: VxIter<&'a K>)
    ensures r.seq().len() == keys_of(*m).len(), forall|i: int| 0 <= i < r.seq().len() ==> *#[trigger] r.seq()[i] == keys_of(*m)[i], is_keys_of(keys_of(*m), m@),
{ unimplemented!() }
// A-STD: HashMap::values yields a reference to the value of every entry exactly once, order unspecified
#[verifier::external_body]
pub fn vx_values<'a, K, V>(m: &'a HashMap<K, V>) -> (r: VxIter<&'a V>)
    ensures r.seq().len() == enum_of(*m).len(), forall|i: int| 0 <= i < r.seq().len() ==> *#[trigger] r.seq()[i] == enum_of(*m)[i].1, is_enum_of(enum_of(*m), m@),
{ unimplemented!() }
// A-STD: `slice::iter` yields a reference to every element, in index order
#[verifier::external_body]
pub fn vx_iter<'a, T>(v: &'a Vec<T>) -> (r: VxIter<&'a T>)
    ensures r.seq().len() == v@.len(), forall|i: int| 0 <= i < v@.len() ==> *#[trigger] r.seq()[i] == v@[i],
{ unimplemented!() }
// A-STD (R-CALL stand-in): `Vec::extend(iterator)` appends the items in order
#[verifier::external_body]
pub fn vx_extend<T>(v: &mut Vec<T>, items: VxIter<T>)
    ensures final(v)@ == old(v)@ + items.seq(),
{ unimplemented!() }
impl<'a> VxIter<&'a RuntimeBoxedVal> {
    // A-STD + A-DERIVE: `Iterator::cloned` on references to Arc'd values: the same values (Arc::clone), in order
    #[verifier::external_body]
    pub fn cloned(self) -> (r: VxIter<RuntimeBoxedVal>)
        ensures r.seq().len() == self.seq().len(), forall|i: int| 0 <= i < r.seq().len() ==> #[trigger] r.seq()[i] == *self.seq()[i],
    { unimplemented!() }
}
impl<K, V> VxIter<(K, V)> {
    // A-STD: `Iterator::chain(map)`: all of the first, then every entry of the map exactly once (order unspecified)
    #[verifier::external_body]
    pub fn chain(self, other: HashMap<K, V>) -> (r: Self)
        ensures r.seq() == self.seq() + enum_of(other), is_enum_of(enum_of(other), other@),
    { unimplemented!() }
}

// ---- the abstract view ---------------------------------------------------------------------------------------------
pub type Gens = Vec<RuntimeBoxedVal>;
/// the stores under one key, oldest first, as (key, value) pairs
pub open spec fn kv(k: RuntimeBoxedVal, vs: Seq<RuntimeBoxedVal>) -> Seq<(RuntimeBoxedVal, RuntimeBoxedVal)> {
    vs.map_values(|v: RuntimeBoxedVal| (k, v))
}
/// all stores of an enumeration of entries: entry by entry, per key in generation order
pub open spec fn pairs(e: Seq<(RuntimeBoxedVal, Gens)>) -> Seq<(RuntimeBoxedVal, RuntimeBoxedVal)>
    decreases e.len()
{
    if e.len() == 0 { Seq::empty() } else { pairs(e.drop_last()) + kv(e.last().0, e.last().1@) }
}
/// `x` is the exported form of the store `key := value`
pub open spec fn is_write_of(x: RuntimeBoxedVal, key: RuntimeBoxedVal, value: RuntimeBoxedVal) -> bool {
    &&& x.dt() == (RSVD::StorageWrite { key, value })
    &&& x.ip() == value.ip()
    &&& x.prov() == value.prov()
}
/// `r` is, position by position, the exported form of the stores `p`
pub open spec fn exports(r: Seq<RuntimeBoxedVal>, p: Seq<(RuntimeBoxedVal, RuntimeBoxedVal)>) -> bool {
    r.len() == p.len() && forall|i: int| 0 <= i < r.len() ==> is_write_of(#[trigger] r[i], p[i].0, p[i].1)
}
/// the order-free statement: r is the export of SOME enumeration of known_slots followed by SOME enumeration of symbolic_slots
pub open spec fn exports_exactly(r: Seq<RuntimeBoxedVal>, known: Map<RuntimeBoxedVal, Gens>, symbolic: Map<RuntimeBoxedVal, Gens>) -> bool {
    exists|e1: Seq<(RuntimeBoxedVal, Gens)>, e2: Seq<(RuntimeBoxedVal, Gens)>|
        is_enum_of(e1, known) && is_enum_of(e2, symbolic) && #[trigger] exports(r, pairs(e1 + e2))
}

// proved: where the pairs of an enumeration sit
pub proof fn lemma_pairs_at(e: Seq<(RuntimeBoxedVal, Gens)>, i: int, j: int) -> (n: int)
    requires 0 <= i < e.len(), 0 <= j < e[i].1@.len(),
    ensures 0 <= n < pairs(e).len(), pairs(e)[n] == (e[i].0, e[i].1@[j]),
    decreases e.len()
{
    if i == e.len() - 1 {
        pairs(e.drop_last()).len() + j
    } else {
        lemma_pairs_at(e.drop_last(), i, j)
    }
}
pub proof fn lemma_pairs_from(e: Seq<(RuntimeBoxedVal, Gens)>, n: int) -> (ij: (int, int))
    requires 0 <= n < pairs(e).len(),
    ensures 0 <= ij.0 < e.len(), 0 <= ij.1 < e[ij.0].1@.len(), pairs(e)[n] == (e[ij.0].0, e[ij.0].1@[ij.1]),
    decreases e.len()
{
    if n >= pairs(e.drop_last()).len() {
        (e.len() - 1, n - pairs(e.drop_last()).len())
    } else {
        lemma_pairs_from(e.drop_last(), n)
    }
}
/// C06 corollary: every generation of every key on file is exported
pub proof fn lemma_every_store_exported(r: Seq<RuntimeBoxedVal>, known: Map<RuntimeBoxedVal, Gens>, symbolic: Map<RuntimeBoxedVal, Gens>, k: RuntimeBoxedVal, j: int)
    requires
        exports_exactly(r, known, symbolic),
        (known.contains_key(k) && 0 <= j < known[k]@.len()) || (symbolic.contains_key(k) && 0 <= j < symbolic[k]@.len()),
    ensures
        exists|n: int| 0 <= n < r.len() && is_write_of(#[trigger] r[n], k, if known.contains_key(k) && 0 <= j < known[k]@.len() { known[k]@[j] } else { symbolic[k]@[j] }),   //@ob C06.collect.stores_as_values.every_store_exported
{
    let (e1, e2) = choose|e1: Seq<(RuntimeBoxedVal, Gens)>, e2: Seq<(RuntimeBoxedVal, Gens)>|
        is_enum_of(e1, known) && is_enum_of(e2, symbolic) && #[trigger] exports(r, pairs(e1 + e2));
    let e = e1 + e2;
    if known.contains_key(k) && 0 <= j < known[k]@.len() {
        let i = choose|i: int| 0 <= i < e1.len() && (#[trigger] e1[i]).0 == k;
        assert(e[i] == e1[i]);
        let n = lemma_pairs_at(e, i, j);
        assert(is_write_of(r[n], k, known[k]@[j]));
    } else {
        let i = choose|i: int| 0 <= i < e2.len() && (#[trigger] e2[i]).0 == k;
        assert(e[e1.len() + i] == e2[i]);
        let n = lemma_pairs_at(e, e1.len() + i, j);
        assert(is_write_of(r[n], k, symbolic[k]@[j]));
    }
}
/// `x` is the exported form of generation `j` on file under `k` in `m`
pub open spec fn from_store(x: RuntimeBoxedVal, m: Map<RuntimeBoxedVal, Gens>, k: RuntimeBoxedVal, j: int) -> bool {
    m.contains_key(k) && 0 <= j < m[k]@.len() && is_write_of(x, k, m[k]@[j])
}
/// C05 corollary: every exported value is the StorageWrite of a generation on file under its key
pub proof fn lemma_nothing_invented(r: Seq<RuntimeBoxedVal>, known: Map<RuntimeBoxedVal, Gens>, symbolic: Map<RuntimeBoxedVal, Gens>, n: int)
    requires exports_exactly(r, known, symbolic), 0 <= n < r.len(),
    ensures
        exists|k: RuntimeBoxedVal, j: int| #![trigger from_store(r[n], known, k, j)] #![trigger from_store(r[n], symbolic, k, j)] from_store(r[n], known, k, j) || from_store(r[n], symbolic, k, j),   //@ob C05.collect.stores_as_values.nothing_invented
{
    let (e1, e2) = choose|e1: Seq<(RuntimeBoxedVal, Gens)>, e2: Seq<(RuntimeBoxedVal, Gens)>|
        is_enum_of(e1, known) && is_enum_of(e2, symbolic) && #[trigger] exports(r, pairs(e1 + e2));
    let e = e1 + e2;
    let (i, j) = lemma_pairs_from(e, n);
    let k = e[i].0;
    if i < e1.len() {
        assert(e[i] == e1[i]);
        assert(from_store(r[n], known, k, j));
    } else {
        assert(e[i] == e2[i - e1.len()]);
        assert(from_store(r[n], symbolic, k, j));
    }
}

/// all generations of an enumeration of entries: entry by entry, per key in generation order
pub open spec fn flatv(e: Seq<(RuntimeBoxedVal, Gens)>) -> Seq<RuntimeBoxedVal> {
    pairs(e).map_values(|p: (RuntimeBoxedVal, RuntimeBoxedVal)| p.1)
}
pub proof fn lemma_flatv_push(e: Seq<(RuntimeBoxedVal, Gens)>, i: int)
    requires 0 <= i < e.len(),
    ensures flatv(e.take(i + 1)) =~= flatv(e.take(i)) + e[i].1@,
{
    assert(e.take(i + 1).drop_last() =~= e.take(i));
}
/// every key on file in `m` and every generation on file in `m` is in `r`
pub open spec fn covers(r: Seq<RuntimeBoxedVal>, m: Map<RuntimeBoxedVal, Gens>) -> bool {
    &&& forall|k: RuntimeBoxedVal| #[trigger] m.contains_key(k) ==> r.contains(k)
    &&& forall|k: RuntimeBoxedVal, j: int| m.contains_key(k) && 0 <= j < m[k]@.len() ==> r.contains(#[trigger] m[k]@[j])
}
/// `x` is a key on file in `m` or a generation on file in `m`
pub open spec fn on_file(x: RuntimeBoxedVal, m: Map<RuntimeBoxedVal, Gens>) -> bool {
    m.contains_key(x) || exists|k: RuntimeBoxedVal, j: int| m.contains_key(k) && 0 <= j < m[k]@.len() && x == #[trigger] m[k]@[j]
}
pub proof fn lemma_covers(r: Seq<RuntimeBoxedVal>, a: Seq<RuntimeBoxedVal>, ks: Seq<RuntimeBoxedVal>, e: Seq<(RuntimeBoxedVal, Gens)>, b: Seq<RuntimeBoxedVal>, m: Map<RuntimeBoxedVal, Gens>)
    requires r == a + ks + flatv(e) + b, is_keys_of(ks, m), is_enum_of(e, m),
    ensures
        covers(r, m),
        forall|n: int| a.len() <= n < a.len() + ks.len() + flatv(e).len() ==> on_file(#[trigger] r[n], m),
{
    assert forall|k: RuntimeBoxedVal| #[trigger] m.contains_key(k) implies r.contains(k) by {
        assert(ks.contains(k));
        let i = choose|i: int| 0 <= i < ks.len() && ks[i] == k;
        assert(r[a.len() + i] == k);
    }
    assert forall|k: RuntimeBoxedVal, j: int| m.contains_key(k) && 0 <= j < m[k]@.len() implies r.contains(#[trigger] m[k]@[j]) by {
        let i = choose|i: int| 0 <= i < e.len() && (#[trigger] e[i]).0 == k;
        let n = lemma_pairs_at(e, i, j);
        assert(flatv(e)[n] == m[k]@[j]);
        assert(r[a.len() + ks.len() + n] == m[k]@[j]);
    }
    assert forall|n: int| a.len() <= n < a.len() + ks.len() + flatv(e).len() implies on_file(#[trigger] r[n], m) by {
        if n < a.len() + ks.len() {
            assert(r[n] == ks[n - a.len()]);
            assert(ks.contains(r[n]));
        } else {
            let q = n - a.len() - ks.len();
            assert(r[n] == flatv(e)[q]);
            let (i, j) = lemma_pairs_from(e, q);
            assert(m.contains_key(e[i].0) && r[n] == m[e[i].0]@[j]);
        }
    }
}

// ---- Storage ---------------------------------------------------------------------------------------------------
//@extract file=src/vm/state/storage.rs path="struct Storage" kind=type
//@end
impl Storage {
    /// the two private maps, as views: key -> generations (oldest first)
    pub closed spec fn known(&self) -> Map<RuntimeBoxedVal, Gens> { self.known_slots@ }
    pub closed spec fn symbolic(&self) -> Map<RuntimeBoxedVal, Gens> { self.symbolic_slots@ }
}
//@extract file=src/vm/state/storage.rs path="impl Storage" kind=header
//@end
//@extract file=src/vm/state/storage.rs path="impl Storage|fn stores_as_values" props=C06,C05,C01
//@ret r
//@spec
        ensures
            exports_exactly(r@, self.known(), self.symbolic()),     //@ob C06.collect.stores_as_values.one_value_per_store C05.collect.stores_as_values.only_stores
// R-CALL: `HashMap::into_iter()` -> A-STD stand-in yielding SOME enumeration of the entries (each key exactly once); `.chain(..)` stays
// verbatim on the stand-in type.  R-CALL: `Vec::into_iter()` -> stand-in iterator over the elements in order (further adapters stay verbatim).
// R-FOREACH: `.for_each(|(k, vs)| { all_values.extend(ITER.map(|v| BODY)); })` -> two loops pushing BODY; the closure body, the
// parameter patterns and the inner iterator expression are carried over verbatim (wildcards).
//@rw R-CALL count=1
//@old
self.known_slots
            .into_iter()
//@new
let ghost vx_known = self.known_slots; let ghost vx_symbolic = self.symbolic_slots;
        let vx_entries = vx_map_into_iter(self.known_slots)
//@rw R-CALL count=1
//@old
extend($1.into_iter()
//@new
extend(vx_from_vec($1)
//@rw R-FOREACH count=1
//@old
.for_each(|($3, $4)| {
                all_values.extend($2.map(|$5| $1));
            });
//@new
.vx_items();
        let ghost vx_all = vx_entries@;
        proof {
            assert(vx_all == enum_of(vx_known) + enum_of(vx_symbolic));       //@ob C06.collect.stores_as_values.both_maps_every_entry
        }
        for vx_e in vx_it: vx_entries
            invariant
                vx_it.seq() == vx_all,
                exports(all_values@, pairs(vx_all.take(vx_it.index@ as int))),       //@ob C06.collect.stores_as_values.every_generation_in_order
        {
            let ghost vx_i = vx_it.index@ as int;
            let ghost vx_done = pairs(vx_all.take(vx_i));
            let ghost vx_k = vx_e.0;
            let ghost vx_vs = vx_e.1@;
            proof {
                assert(vx_all[vx_i] == vx_e);
                assert(vx_all.take(vx_i + 1).drop_last() =~= vx_all.take(vx_i));
            }
            let ($3, $4) = vx_e;
            let vx_gens = $2.vx_items();
            let ghost vx_g = vx_gens@;
            for $5 in vx_jt: vx_gens
                invariant
                    vx_jt.seq() == vx_g,
                    $3 == vx_k,
                    exports(all_values@, vx_done + kv(vx_k, vx_g.take(vx_jt.index@ as int))),       //@ob C06.collect.stores_as_values.write_of_key_and_value
            {
                let ghost vx_j = vx_jt.index@ as int;
                proof {
                    assert(kv(vx_k, vx_g.take(vx_j + 1)) =~= kv(vx_k, vx_g.take(vx_j)).push((vx_k, vx_g[vx_j])));
                }
                let ghost vx_before = all_values@;
                let ghost vx_v = $5;
                all_values.push($1);
                proof {
                    assert(vx_v == vx_g[vx_j]);
                    let a = kv(vx_k, vx_g.take(vx_j));
                    assert(vx_done + a.push((vx_k, vx_v)) =~= (vx_done + a).push((vx_k, vx_v)));
                    assert(is_write_of(all_values@[vx_before.len() as int], vx_k, vx_v));       //@ob C06.collect.stores_as_values.key_is_key_value_is_value_ip_of_value
                    assert forall|q: int| 0 <= q < vx_before.len() implies all_values@[q] == vx_before[q] by {}
                }
            }
            proof {
                assert(vx_g.take(vx_g.len() as int) =~= vx_g);
                assert(vx_g == vx_vs);       //@ob C06.collect.stores_as_values.all_generations_of_the_key
            }
        }
        proof {
            assert(vx_all.take(vx_all.len() as int) =~= vx_all);
            assert(exports(all_values@, pairs(enum_of(vx_known) + enum_of(vx_symbolic))));
        }
//@end

//@extract file=src/vm/state/storage.rs path="impl Storage|fn all_values" props=C06,C05,C01
//@ret r
//@spec
        ensures
            covers(r@, self.known()),          //@ob C06.collect.all_values.every_known_key_and_generation
            covers(r@, self.symbolic()),       //@ob C06.collect.all_values.every_symbolic_key_and_generation
            forall|n: int| 0 <= n < r@.len() ==> on_file(#[trigger] r@[n], self.known()) || on_file(r@[n], self.symbolic()),       //@ob C05.collect.all_values.only_keys_and_generations_on_file
// R-SIG: the element type of the local vector (inferred from `extend` in the repository) is written out
// R-CALL: `map.keys()`, `map.values()`, `vec.iter()` -> A-STD stand-in iterators (`.cloned()` stays verbatim on the stand-in type);
// `Vec::extend(iterator)` -> A-STD stand-in.  R-FOREACH: `.for_each(|more| BODY)` -> a loop over the yielded items with BODY verbatim.
//@rw R-SIG count=1
//@old
let mut values = Vec::new();
//@new
let mut values: Vec<RuntimeBoxedVal> = Vec::new();
//@rw R-CALL optional
//@old
self.known_slots.keys()
//@new
vx_keys(&self.known_slots)
//@rw R-CALL optional
//@old
self.symbolic_slots.keys()
//@new
vx_keys(&self.symbolic_slots)
//@rw R-CALL count=any
//@old
.for_each(|$2| values.extend($1.iter()
//@new
.for_each(|$2| values.extend(vx_iter($1)
//@rw R-CALL count=any
//@old
values.extend(
//@new
vx_extend(&mut values,
//@rw R-FOREACH count=any optional
//@old
self.known_slots
            .values()
            .for_each(|$2| $1);
//@new
let ghost vx_en = enum_of(self.known_slots);
        let ghost vx_v0 = values@;
        proof { assert(vx_v0 =~= keys_of(self.known_slots)); }      //@ob C06.collect.all_values.known_keys
        let vx_vals = vx_values(&self.known_slots).vx_items();
        let ghost vx_all = vx_vals@;
        for $2 in vx_it: vx_vals
            invariant
                vx_it.seq() == vx_all,
                vx_all.len() == vx_en.len(),
                forall|i: int| 0 <= i < vx_all.len() ==> *#[trigger] vx_all[i] == vx_en[i].1,
                values@ == vx_v0 + flatv(vx_en.take(vx_it.index@ as int)),       //@ob C06.collect.all_values.every_generation
        {
            let ghost vx_i = vx_it.index@ as int;
            let ghost vx_b = values@;
            proof { lemma_flatv_push(vx_en, vx_i); assert(*vx_all[vx_i] == vx_en[vx_i].1); }
            $1;
            proof {
                assert(values@ =~= vx_b + vx_en[vx_i].1@);
                assert(values@ =~= vx_v0 + flatv(vx_en.take(vx_i + 1)));
            }
        }
        proof { assert(vx_en.take(vx_en.len() as int) =~= vx_en); }
        let ghost vx_m = values@;
//@rw R-FOREACH count=any optional
//@old
self.symbolic_slots
            .values()
            .for_each(|$2| $1);
//@new
let ghost vx_en = enum_of(self.symbolic_slots);
        let ghost vx_v0 = values@;
        proof { assert(vx_v0 =~= vx_m + keys_of(self.symbolic_slots)); }      //@ob C06.collect.all_values.symbolic_keys
        let vx_vals = vx_values(&self.symbolic_slots).vx_items();
        let ghost vx_all = vx_vals@;
        for $2 in vx_it: vx_vals
            invariant
                vx_it.seq() == vx_all,
                vx_all.len() == vx_en.len(),
                forall|i: int| 0 <= i < vx_all.len() ==> *#[trigger] vx_all[i] == vx_en[i].1,
                values@ == vx_v0 + flatv(vx_en.take(vx_it.index@ as int)),       //@ob C06.collect.all_values.every_generation
        {
            let ghost vx_i = vx_it.index@ as int;
            let ghost vx_b = values@;
            proof { lemma_flatv_push(vx_en, vx_i); assert(*vx_all[vx_i] == vx_en[vx_i].1); }
            $1;
            proof {
                assert(values@ =~= vx_b + vx_en[vx_i].1@);
                assert(values@ =~= vx_v0 + flatv(vx_en.take(vx_i + 1)));
            }
        }
        proof { assert(vx_en.take(vx_en.len() as int) =~= vx_en); }
        proof {
            let k1 = keys_of(self.known_slots); let e1 = enum_of(self.known_slots);
            let k2 = keys_of(self.symbolic_slots); let e2 = enum_of(self.symbolic_slots);
            assert(values@ =~= Seq::<RuntimeBoxedVal>::empty() + k1 + flatv(e1) + (k2 + flatv(e2)));
            assert(values@ =~= vx_m + k2 + flatv(e2) + Seq::<RuntimeBoxedVal>::empty());
            lemma_covers(values@, Seq::empty(), k1, e1, k2 + flatv(e2), self.known_slots@);
            lemma_covers(values@, vx_m, k2, e2, Seq::empty(), self.symbolic_slots@);
        }
//@end
}

// ---- Memory::all_values ------------------------------------------------------------------------------------------------
// A-STD: HashMap::into_values yields the value of every entry exactly once, order unspecified
#[verifier::external_body]
pub fn vx_into_values<K, V>(m: HashMap<K, V>) -> (r: VxIter<V>)
    ensures r.seq().len() == enum_of(m).len(), forall|i: int| 0 <= i < r.seq().len() ==> #[trigger] r.seq()[i] == enum_of(m)[i].1, is_enum_of(enum_of(m), m@),
{ unimplemented!() }
#[derive(Clone, Copy)]
//@extract file=src/vm/state/memory.rs path="enum MemStoreSize" kind=type
//@end
//@extract file=src/vm/state/memory.rs path="struct MemStore" kind=type
//@end
//@extract file=src/vm/state/memory.rs path="struct Memory" kind=type
//@end
pub type Stores = Vec<MemStore>;
impl MemStore {
    /// the stored value
    pub closed spec fn d(&self) -> RuntimeBoxedVal { self.data }
}
impl Memory {
    pub closed spec fn consts(&self) -> Map<usize, Stores> { self.constant_offsets@ }
    pub closed spec fn syms(&self) -> Map<RuntimeBoxedVal, Stores> { self.symbolic_offsets@ }
}
/// the stored values of one location, oldest first
pub open spec fn dmap(ss: Seq<MemStore>) -> Seq<RuntimeBoxedVal> { ss.map_values(|s: MemStore| s.d()) }
/// the stored values of an enumeration of locations
pub open spec fn datas<K>(e: Seq<(K, Stores)>) -> Seq<RuntimeBoxedVal>
    decreases e.len()
{
    if e.len() == 0 { Seq::empty() } else { datas(e.drop_last()) + dmap(e.last().1@) }
}
/// per location: the symbolic offset itself, then its stored values
pub open spec fn kdatas(e: Seq<(RuntimeBoxedVal, Stores)>) -> Seq<RuntimeBoxedVal>
    decreases e.len()
{
    if e.len() == 0 { Seq::empty() } else { kdatas(e.drop_last()) + seq![e.last().0] + dmap(e.last().1@) }
}
/// order-free statement: the stored values of SOME enumeration of the constant offsets, then offset + stored values of SOME enumeration of the symbolic ones
pub open spec fn mem_exports_exactly(r: Seq<RuntimeBoxedVal>, consts: Map<usize, Stores>, syms: Map<RuntimeBoxedVal, Stores>) -> bool {
    exists|e1: Seq<(usize, Stores)>, e2: Seq<(RuntimeBoxedVal, Stores)>|
        is_enum_of(e1, consts) && is_enum_of(e2, syms) && r == #[trigger] datas(e1) + #[trigger] kdatas(e2)
}
//@extract file=src/vm/state/memory.rs path="impl Memory" kind=header
//@end
//@extract file=src/vm/state/memory.rs path="impl Memory|fn all_values" props=C06,C05,C01
//@ret r
//@spec
        ensures
            mem_exports_exactly(r@, self.consts(), self.syms()),       //@ob C06.collect.mem_all_values.every_stored_value_and_symbolic_key C05.collect.mem_all_values.nothing_else
// R-SIG: element type of the local vector written out.  R-CALL: `Vec::into_iter()` -> stand-in iterator (elements in order).
// R-FOREACH: `map.into_values().for_each(|more| values.extend(ITER.map(|s| BODY)))` and `map.into_iter().for_each(|(key, more)| { PUSH
// values.extend(ITER.map(|s| BODY)); })` -> loops over the yielded items pushing BODY; PUSH, ITER, BODY and the parameter patterns verbatim.
//@rw R-SIG count=1
//@old
let mut values = Vec::new();
//@new
let mut values: Vec<RuntimeBoxedVal> = Vec::new();
//@rw R-CALL count=any
//@old
extend($1.into_iter()
//@new
extend(vx_from_vec($1)
//@rw R-FOREACH count=1
//@old
self.constant_offsets
            .into_values()
            .for_each(|$2| $1);
//@new
let ghost vx_c = self.constant_offsets; let ghost vx_s = self.symbolic_offsets;
        let ghost vx_en = enum_of(self.constant_offsets);
        let vx_vals = vx_into_values(self.constant_offsets).vx_items();
        let ghost vx_all = vx_vals@;
        for $2 in vx_it: vx_vals
            invariant
                vx_it.seq() == vx_all,
                vx_all.len() == vx_en.len(),
                forall|i: int| 0 <= i < vx_all.len() ==> #[trigger] vx_all[i] == vx_en[i].1,
                values@ == datas(vx_en.take(vx_it.index@ as int)),       //@ob C06.collect.mem_all_values.every_constant_offset
        {
            let ghost vx_i = vx_it.index@ as int;
            let ghost vx_b0 = values@;
            proof { assert(vx_all[vx_i] == vx_en[vx_i].1); assert(vx_en.take(vx_i + 1).drop_last() =~= vx_en.take(vx_i)); }
            $1;
            proof {
                assert(values@ =~= vx_b0 + dmap(vx_en[vx_i].1@));       //@ob C06.collect.mem_all_values.all_stores_of_the_constant_offset C05.collect.mem_all_values.nothing_but_its_stores
            }
        }
        proof { assert(vx_en.take(vx_en.len() as int) =~= vx_en); }
        let ghost vx_m = values@;
//@rw R-FOREACH count=1
//@old
self.symbolic_offsets.into_iter().for_each(|($5, $2)| { $1 });
//@new
let ghost vx_en = enum_of(self.symbolic_offsets);
        let vx_vals = vx_map_into_iter(self.symbolic_offsets).vx_items();
        let ghost vx_all = vx_vals@;
        for vx_e in vx_it: vx_vals
            invariant
                vx_it.seq() == vx_all,
                vx_all == vx_en,
                values@ == vx_m + kdatas(vx_en.take(vx_it.index@ as int)),       //@ob C06.collect.mem_all_values.every_symbolic_offset
        {
            let ghost vx_i = vx_it.index@ as int;
            let ghost vx_b0 = values@;
            proof { assert(vx_all[vx_i] == vx_e); assert(vx_en.take(vx_i + 1).drop_last() =~= vx_en.take(vx_i)); }
            let ($5, $2) = vx_e;
            $1
            proof {
                assert(values@ =~= vx_b0 + seq![vx_e.0] + dmap(vx_e.1@));       //@ob C06.collect.mem_all_values.symbolic_key_then_all_its_stores C05.collect.mem_all_values.nothing_but_the_key_and_its_stores
                assert(values@ =~= vx_m + kdatas(vx_en.take(vx_i + 1)));
            }
        }
        proof {
            assert(vx_en.take(vx_en.len() as int) =~= vx_en);
            assert(values@ == datas(enum_of(vx_c)) + kdatas(enum_of(vx_s)));
        }
//@rw R-FOREACH count=any
//@old
values.extend($3.map(|$4| $1))
//@new
{
            let ghost vx_b = values@;
            let vx_inner = $3.vx_items();
            let ghost vx_g = vx_inner@;
            for $4 in vx_jt: vx_inner
                invariant
                    vx_jt.seq() == vx_g,
                    values@ == vx_b + dmap(vx_g.take(vx_jt.index@ as int)),       //@ob C06.collect.mem_all_values.data_of_every_store
            {
                let ghost vx_j = vx_jt.index@ as int;
                let ghost vx_x = $4;
                values.push($1);
                proof {
                    assert(vx_x == vx_g[vx_j]);
                    assert(dmap(vx_g.take(vx_j + 1)) =~= dmap(vx_g.take(vx_j)).push(vx_x.d()));
                    assert(values@ =~= vx_b + dmap(vx_g.take(vx_j + 1)));
                }
            }
            proof { assert(vx_g.take(vx_g.len() as int) =~= vx_g); }
            }
//@end
}

// ---- ExecutionResult::all_values -------------------------------------------------------------------------------------
// A-CALLEE (type stand-ins): InstructionStream, Errors are opaque; VMState is opaque with `vals()` = what `VMState::all_values`
// hands over (PROVED in unit vm_state: stack ++ memory ++ storage writes ++ recorded ++ logged)
#[verifier::external_body]
pub struct InstructionStream { _p: () }
#[verifier::external_body]
pub struct Errors { _p: () }
#[verifier::external_body]
pub struct VMState { _p: () }
impl VMState {
    pub uninterp spec fn vals(&self) -> Seq<RuntimeBoxedVal>;
    // A-CALLEE: VMState::all_values (unit vm_state)
    #[verifier::external_body]
    pub fn all_values(self) -> (r: Vec<RuntimeBoxedVal>) ensures r@ == self.vals() { unimplemented!() }
}
/// the values of the states, state by state, in order
pub open spec fn concat_vals(states: Seq<VMState>) -> Seq<RuntimeBoxedVal>
    decreases states.len()
{
    if states.len() == 0 { Seq::empty() } else { concat_vals(states.drop_last()) + states.last().vals() }
}
/// the concatenation of the parts, in order
pub open spec fn concat<U>(parts: Seq<Vec<U>>) -> Seq<U>
    decreases parts.len()
{
    if parts.len() == 0 { Seq::empty() } else { concat(parts.drop_last()) + parts.last()@ }
}
impl<T> VxIter<T> {
    // A-STD: `Iterator::flat_map(f)`: f applied to every item in order, the results concatenated in order
    #[verifier::external_body]
    pub fn flat_map<U, F: Fn(T) -> Vec<U>>(self, f: F) -> (r: VxIter<U>)
        requires forall|i: int| 0 <= i < self.seq().len() ==> f.requires((#[trigger] self.seq()[i],)),
        ensures exists|parts: Seq<Vec<U>>| parts.len() == self.seq().len() && (forall|i: int| 0 <= i < parts.len() ==> f.ensures((self.seq()[i],), #[trigger] parts[i])) && r.seq() == #[trigger] concat(parts),
    { unimplemented!() }
    // A-STD: `Iterator::collect::<Vec<_>>()`: the items in order
    #[verifier::external_body]
    pub fn collect(self) -> (r: Vec<T>) ensures r@ == self.seq() { unimplemented!() }
}
pub proof fn lemma_concat_vals(states: Seq<VMState>, parts: Seq<Vec<RuntimeBoxedVal>>)
    requires parts.len() == states.len(), forall|i: int| 0 <= i < parts.len() ==> (#[trigger] parts[i])@ == states[i].vals(),
    ensures concat(parts) == concat_vals(states),
    decreases states.len()
{
    if states.len() > 0 { lemma_concat_vals(states.drop_last(), parts.drop_last()); }
}
/// C06 corollary: every value of every state is handed over
pub proof fn lemma_concat_covers(states: Seq<VMState>, i: int, j: int)
    requires 0 <= i < states.len(), 0 <= j < states[i].vals().len(),
    ensures concat_vals(states).contains(states[i].vals()[j]),       //@ob C06.collect.exec_all_values.every_value_of_every_state
    decreases states.len()
{
    if i == states.len() - 1 {
        assert(concat_vals(states)[concat_vals(states.drop_last()).len() + j] == states[i].vals()[j]);
    } else {
        lemma_concat_covers(states.drop_last(), i, j);
        let n = choose|n: int| 0 <= n < concat_vals(states.drop_last()).len() && concat_vals(states.drop_last())[n] == states[i].vals()[j];
        assert(concat_vals(states)[n] == states[i].vals()[j]);
    }
}
//@extract file=src/vm/mod.rs path="struct ExecutionResult" kind=type
//@end
//@extract file=src/vm/mod.rs path="impl ExecutionResult" kind=header
//@end
//@extract file=src/vm/mod.rs path="impl ExecutionResult|fn all_values" props=C06,C05,C01
//@ret r
//@spec
        ensures
            r@ == concat_vals(self.states@),       //@ob C06.collect.exec_all_values.every_state_in_order C05.collect.exec_all_values.nothing_else
// R-CALL: `Vec::into_iter()` -> stand-in iterator over the elements in order; `.flat_map(VMState::all_values).collect()` stay verbatim
// on the stand-in type.  R-PROOF: the tail expression is let-bound so that the ghost step relating the parts to the states can follow it.
//@rw R-CALL count=1
//@old
self.states.into_iter()
//@new
let ghost vx_states = self.states@;
        let vx_r = vx_from_vec(self.states)
//@rw R-PROOF count=1
// (the pattern names the function item handed to flat_map: the ghost step below speaks about ITS contract; any other argument form —
// e.g. an unannotated closure, which gives the verifier no postcondition — is a lost anchor (undecided), never an alarm)
//@old
.flat_map(VMState::all_values).collect()
//@new
.flat_map(VMState::all_values).collect();
        proof {
            let parts = choose|parts: Seq<Vec<RuntimeBoxedVal>>| parts.len() == vx_states.len() && (forall|i: int| 0 <= i < parts.len() ==> call_ensures(VMState::all_values, (vx_states[i],), #[trigger] parts[i])) && vx_r@ == #[trigger] concat(parts);
            lemma_concat_vals(vx_states, parts);
        }
        vx_r
//@end
}
} // verus!
fn main() {}
