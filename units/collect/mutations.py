#!/usr/bin/env python3
"""Mutation test of unit collect: property-breaking edits must be `failed`, harmless refactors `ok` (or the documented `undecided`).
usage: python3 units/collect/mutations.py   (creates and removes the scratch worktree /tmp/wt_collect)"""
import subprocess, sys, os
WT = '/tmp/wt_collect'
ST = 'src/vm/state/storage.rs'
ME = 'src/vm/state/memory.rs'
VM = 'src/vm/mod.rs'
def sh(c): return subprocess.run(c, shell=True, capture_output=True, text=True)
BREAK = [
 (ST, '            .chain(self.symbolic_slots)\n            .for_each(|(k, vs)| {', '            .for_each(|(k, vs)| {', 'stores_as_values drops the symbolic slots'),
 (ST, 'all_values.extend(vs.into_iter().map(|v| {', 'all_values.extend(vs.into_iter().rev().take(1).map(|v| {', 'only the last generation exported'),
 (ST, 'all_values.extend(vs.into_iter().map(|v| {', 'all_values.extend(vs.into_iter().skip(1).map(|v| {', 'first generation of every key skipped'),
 (ST, 'all_values.extend(vs.into_iter().map(|v| {', 'all_values.extend(vs.into_iter().rev().map(|v| {', 'generations exported in reverse order'),
 (ST, 'key:   k.clone(),\n                            value: v,', 'key:   v.clone(),\n                            value: k.clone(),', 'key and value swapped in StorageWrite'),
 (ST, 'RSV::new(\n                        v.instruction_pointer(),', 'RSV::new(\n                        k.instruction_pointer(),', "key's instruction pointer instead of the value's"),
 (ST, 'let provenance = v.provenance();', 'let provenance = k.provenance();', "key's provenance instead of the value's"),
 (ST, '            .chain(self.symbolic_slots)\n            .for_each(|(k, vs)| {', '            .chain(self.symbolic_slots)\n            .skip(1)\n            .for_each(|(k, vs)| {', 'first entry skipped'),
 (ST, '        values.extend(self.symbolic_slots.keys().cloned());\n', '', 'Storage::all_values omits the symbolic keys'),
 (ST, '        values.extend(self.known_slots.keys().cloned());\n', '', 'Storage::all_values omits the known keys'),
 (ST, '        self.symbolic_slots\n            .values()\n            .for_each(|more| values.extend(more.iter().cloned()));', '        self.known_slots\n            .values()\n            .for_each(|more| values.extend(more.iter().cloned()));', 'Storage::all_values collects the known generations twice, the symbolic ones never'),
 (ME, '            values.push(key);\n', '', 'Memory::all_values omits the symbolic keys'),
 (ME, '.for_each(|more| values.extend(more.into_iter().map(|s| s.data)));', '.for_each(|more| values.extend(more.into_iter().skip(1).map(|s| s.data)));', 'Memory::all_values skips the first store of every constant offset'),
 (ME, '            values.push(key);\n            values.extend(more.into_iter().map(|s| s.data));', '            values.push(key);\n            values.extend(more.into_iter().rev().take(1).map(|s| s.data));', 'Memory::all_values keeps only the last store of a symbolic offset'),
 (ME, '            values.push(key);\n            values.extend(more.into_iter().map(|s| s.data));', '            values.push(key.clone());\n            values.push(key);\n            values.extend(more.into_iter().map(|s| s.data));', 'Memory::all_values hands the symbolic key over twice (C05)'),
 (VM, 'self.states.into_iter().flat_map(VMState::all_values).collect()', 'self.states.into_iter().skip(1).flat_map(VMState::all_values).collect()', 'ExecutionResult::all_values drops the first state'),
 (VM, 'self.states.into_iter().flat_map(VMState::all_values).collect()', 'self.states.into_iter().take(1).flat_map(VMState::all_values).collect()', 'ExecutionResult::all_values keeps only the first state'),
]
KEEP = [
 (ME, '.for_each(|more| values.extend(more.into_iter().map(|s| s.data)));', '.for_each(|stores| values.extend(stores.into_iter().map(|st| st.data)));', 'renamed closure parameters in Memory::all_values', 'ok'),
 (ME, '.for_each(|(key, more)| {\n            values.push(key);\n            values.extend(more.into_iter().map(|s| s.data));', '.for_each(|(offset, more)| {\n            values.push(offset);\n            values.extend(more.into_iter().map(|s| s.data));', 'renamed key in Memory::all_values', 'ok'),
 (VM, 'self.states.into_iter().flat_map(VMState::all_values).collect()', 'let all = self.states.into_iter().flat_map(VMState::all_values).collect();\n        all', 'let-bound result in ExecutionResult::all_values (documented brittleness: the rewrite let-binds the tail expression itself -> undecided, never ok)', 'undecided'),

 (ST, '.for_each(|(k, vs)| {\n                all_values.extend(vs.into_iter().map(|v| {\n                    let provenance = v.provenance();\n                    RSV::new(\n                        v.instruction_pointer(),\n                        RSVD::StorageWrite {\n                            key:   k.clone(),\n                            value: v,',
      '.for_each(|(slot, gens)| {\n                all_values.extend(gens.into_iter().map(|g| {\n                    let provenance = g.provenance();\n                    RSV::new(\n                        g.instruction_pointer(),\n                        RSVD::StorageWrite {\n                            key:   slot.clone(),\n                            value: g,', 'renamed closure parameters', 'ok'),
 (ST, 'let provenance = v.provenance();\n                    RSV::new(\n                        v.instruction_pointer(),', 'let provenance = v.provenance();\n                    let ip = v.instruction_pointer();\n                    RSV::new(\n                        ip,', 'let-bound instruction pointer', 'ok'),
 (ST, 'let mut all_values: Vec<RuntimeBoxedVal> = Vec::new();', 'let mut all_values: Vec<RuntimeBoxedVal> = Vec::new();\n        let _unused = 0usize;', 'extra unused local', 'ok'),
 (ST, '.for_each(|more| values.extend(more.iter().cloned()));\n        values.extend(self.symbolic_slots', '.for_each(|gens| values.extend(gens.iter().cloned()));\n        values.extend(self.symbolic_slots', 'renamed closure parameter in Storage::all_values', 'ok'),
 (ST, ['self.known_slots\n            .into_iter()\n            .chain(self.symbolic_slots)\n            .for_each(|(k, vs)| {', '                }));\n            });\n\n        all_values'],
      ['for (k, vs) in self.known_slots.into_iter().chain(self.symbolic_slots) {', '                }));\n            }\n\n        all_values'], 'for loop instead of for_each (documented loop-form brittleness: a lost rewrite is undecided, never ok)', 'undecided'),
]
def run(edits, expect):
    bad = 0
    for e in edits:
        f, a, b, what = e[:4]; exp = e[4] if len(e) > 4 else expect
        sh(f'git -C {WT} checkout -- .')
        p = os.path.join(WT, f); s = open(p).read()
        if isinstance(a, str): a, b = [a], [b]
        if any(x not in s for x in a): print('ANCHOR LOST', what); bad += 1; continue
        for x, y in zip(a, b): s = s.replace(x, y, 1)
        open(p, 'w').write(s)
        r = sh(f'cd /verif && VX_REPO={WT} python3 vx/vx.py unit collect --raw')
        st = r.stdout.split('status=')[1].split()[0] if 'status=' in r.stdout else '?'
        labs = [l.strip()[:200] for l in r.stdout.splitlines() if 'FAIL' in l]
        print(f'{"OK " if st == exp else "BAD"} {what}: status={st}', *labs[:2], sep='\n      ' if labs else ' ')
        bad += st != exp
    return bad
sh(f'git -C /repo worktree remove --force {WT}'); sh(f'git -C /repo worktree add --detach {WT} HEAD')
n = run(BREAK, 'failed') + run(KEEP, 'ok')
sh(f'git -C /repo worktree remove --force {WT}')
print('mutations: unexpected =', n); sys.exit(1 if n else 0)
