//@unit props=C13,C01
// Unit watchdog — the five bulk-copy loops that poll the watchdog: `CallDataCopy::execute`, `CodeCopy::execute`,
// `ExtCodeCopy::execute`, `ReturnDataCopy::execute` (src/opcode/memory.rs) and `store_return_data`
// (src/opcode/control.rs, the return-data copy of CALL / DELEGATECALL), over an ABSTRACT VM, against property C13
// ("if the watchdog starts answering 'stop' at any poll, the analysis returns a stopped-by-watchdog error ...; every
// long-running loop polls once per the requested number of iterations, so the number of polls tracks the amount of
// work done") and C01 (`count % poll_every()` does not divide by zero; no overflow in the loop bookkeeping).
//
// THE WATCHDOG IS AN EXTERNAL, TIME-VARYING ORACLE.  It is modelled by GHOST POLL HISTORY:
//   * `answer(k)` (uninterpreted, fixed but arbitrary) is what the k-th poll of the run answers;
//   * the abstract VM's watchdog carries a spec counter `polls()`: how many polls have been made so far;
//   * `should_stop()` is an A-CALLEE stand-in that returns `answer(polls)` and increments `polls`;
//     `poll_every()` returns the fixed `interval()`.
// Nothing is assumed about `answer`: the contracts below hold for every way the oracle may answer, i.e. for every
// poll index at which it may start (or stop) saying "stop".
//
// Contract, per function (labels C13.wd.<fn>.<what>; <fn> = CallDataCopy | CodeCopy | ExtCodeCopy | ReturnDataCopy | store_return_data):
//   stopped_at_the_first_stop_answer   Err(StoppedByWatchdog) is returned only if the LAST poll made by this call answered
//                                      stop and every earlier poll of this call answered continue: the error is raised at
//                                      that very poll, no further poll is made
//   every_poll_continued_unless_stopped  any other outcome (Ok, or another error) only if EVERY poll made by this call
//                                      answered continue
//   stopped_iff_some_poll_answered_stop  Err(StoppedByWatchdog) <==> some poll made by this call answered stop
//                                      (also as a lemma over the two clauses above: C13.wd.stop_iff_some_poll_answered_stop)
//   polls_once_per_interval            on Ok the number of polls made is EXACTLY ceil(iterations / poll_every) where
//                                      iterations = ceil(min(size, limit) / 32) for a constant size operand (limit = the
//                                      configured single-operation limit for CALLDATACOPY / RETURNDATACOPY / return data,
//                                      CONTRACT_MAXIMUM_SIZE_BYTES for CODECOPY / EXTCODECOPY; `size` = what
//                                      `usize::from(&KnownWord)` makes of the constant, its low 64 bits), 0 for a symbolic
//                                      size (one symbolic store, no loop).  The first poll comes BEFORE the first word is
//                                      copied: one poll for a single iteration, none for an empty copy.
//   never_more_polls_than_promised     on every outcome (stopped, other error) it is at most that
//   operands_consumed_nothing_pushed   the operands are popped, nothing is pushed, whatever the outcome
//   loop.*                             the invariant of the desugared loop: offset = 32 * count; it ends after all steps; polls so
//                                      far = ceil(count / poll_every); it goes on only if every poll so far answered continue
//   modulus_not_zero (C01)             `count % polling_interval` under the PRECONDITION poll_every() >= 1 (declared on the
//                                      stand-in trait method `Opcode::execute` and on `store_return_data`); overflow of the
//                                      loop bookkeeping is an implicit obligation
//
// The `for (count, internal_offset) in (0..size_limit).step_by(32).enumerate()` loop is outside Verus (StepBy, Enumerate).
// It is desugared by the declared rewrite R-STEPBY-ENUM into a `while` loop with an explicit counter and offset; the loop
// BODY ($1: poll condition, error construction, the copy itself) and the step ($2) are carried over verbatim.
use vstd::prelude::*;
use std::sync::Arc;
//@dropped memory.rs: everything except the four *Copy::execute bodies; control.rs: everything except store_return_data (Call::execute / DelegateCall::execute, its two callers, are not under contract: they forward its error with `?` before pushing anything); every opcode's min_gas_cost / arg_count / as_text_code / as_byte
//@dropped the other polled loops of C13 are not in this unit: VM::execute's main loop is unit vm_loop, TypeChecker::{lift, assign_vars, infer, unify} unit tc_loops, unification::unify unit unify
//@dropped the real VM (src/vm/mod.rs: VecDeque<VMThread>, VMState, InstructionStream): VM::{instruction_pointer, stack_handle, state} are A-CALLEE contracts over a stand-in VM that holds the current thread's instruction pointer, stack and memory, the code length, the builder, the configuration and the watchdog; VM::{build, config} and VMState::memory_mut are extracted
//@dropped WHAT is copied: ValueBuilder::{known_exec, symbolic_exec, symbolic}, Memory::store, SymbolicValue::constant_fold are contract-free A-CALLEE stand-ins (total, touch nothing but their receiver); the values written to memory are not under contract here
//@dropped `VM::watchdog(&self) -> &DynWatchdog` and `Watchdog::should_stop(&self)` take shared references in the repository (the oracle's state is interior / external); the stand-ins take `&mut` so that the ghost poll counter can advance - the call text `vm.watchdog().should_stop()` is unchanged
//@dropped R-STEPBY-ENUM: the iteration protocol of `(0..n).step_by(32).enumerate()` (offsets 0, 32, 64, .. below n with counts 0, 1, 2, ..) is written out by the rewrite, not extracted from core::iter
//@include common/value_tree_items.rs

// A-CALLEE: the two conversions of src/vm/value/known.rs the copy loops use, on the opaque KnownWord of the value-tree
// prelude: `KnownWord::from(usize)` and `usize::from(&KnownWord)` (the low 64 bits: proved in unit control).
impl From<usize> for vt_ext::KnownWord { fn from(_v: usize) -> vt_ext::KnownWord { unimplemented!() } }
impl<'a> From<&'a vt_ext::KnownWord> for usize { fn from(_v: &'a vt_ext::KnownWord) -> usize { unimplemented!() } }

verus! {
pub uninterp spec fn kw_from_usize(v: usize) -> KnownWord;
impl vstd::std_specs::convert::FromSpecImpl<usize> for KnownWord {
    open spec fn obeys_from_spec() -> bool { true }
    open spec fn from_spec(v: usize) -> KnownWord { kw_from_usize(v) }
}
pub assume_specification[ <KnownWord as core::convert::From<usize>>::from ](v: usize) -> (r: KnownWord);
/// the `usize` a word converts to (its low 64 bits)
pub uninterp spec fn kw_usize(v: KnownWord) -> usize;
impl<'a> vstd::std_specs::convert::FromSpecImpl<&'a KnownWord> for usize {
    open spec fn obeys_from_spec() -> bool { true }
    open spec fn from_spec(v: &'a KnownWord) -> usize { kw_usize(*v) }
}
pub assume_specification<'a>[ <usize as core::convert::From<&'a KnownWord>>::from ](v: &'a KnownWord) -> (r: usize);

/// the constant-folded form of a value (uninterpreted: what folding computes is unit fold_arms / C09)
pub uninterp spec fn fold(v: RSV) -> RSV;
impl SymbolicValue<RuntimeAuxData> {
    // A-CALLEE: SymbolicValue::constant_fold is a pure function of the value
    #[verifier::external_body]
    pub fn constant_fold(&self) -> (r: Arc<Self>) ensures *r == fold(*self) { unimplemented!() }
}

//@extract file=src/vm/value/mod.rs path="impl<AuxData> SymbolicValueData<AuxData>#1" kind=header id=wd::impl_SymbolicValueData
//@end
//@extract file=src/vm/value/mod.rs path="impl<AuxData> SymbolicValueData<AuxData>#1|fn call_data"
//@end
}

// ======================================================================================================
// Arithmetic of the statement: "once per `every` iterations, starting with the first" = ceil(n / every);
// `(0..n).step_by(32)` makes ceil(n / 32) iterations.
// ======================================================================================================
/// polls a loop of `iterations` iterations makes when it polls on the iterations 0, every, 2 * every, ..
pub open spec fn polls_due(iterations: nat, every: nat) -> nat { if every == 0 { 0 } else { ((iterations + every - 1) as nat) / every } }
/// iterations of `(0..n).step_by(32)`
pub open spec fn steps_of_32(n: nat) -> nat { (n + 31) / 32 }
pub open spec fn min_nat(a: nat, b: nat) -> nat { if a <= b { a } else { b } }
/// iterations of a bulk copy of `size` bytes under the limit `limit`
pub open spec fn copy_iterations(size: nat, limit: nat) -> nat { steps_of_32(min_nat(size, limit)) }

/// one more iteration costs one more poll exactly when its index is a multiple of the interval
pub proof fn lemma_polls_due_step(c: nat, e: nat)
    requires e >= 1,
    ensures polls_due(c + 1, e) == polls_due(c, e) + (if c % e == 0 { 1nat } else { 0nat }),
{
    let q = (c / e) as int;
    let r = (c % e) as int;
    let d = e as int;
    vstd::arithmetic::div_mod::lemma_fundamental_div_mod(c as int, d);
    assert(c as int == q * d + r) by (nonlinear_arith) requires c as int == d * q + r;
    assert((q + 1) * d == q * d + d) by (nonlinear_arith);
    if r == 0 {
        // c + e - 1 = q*e + (e-1);  c + e = (q+1)*e + 0
        vstd::arithmetic::div_mod::lemma_fundamental_div_mod_converse(c as int + d - 1, d, q, d - 1);
        vstd::arithmetic::div_mod::lemma_fundamental_div_mod_converse(c as int + d, d, q + 1, 0);
    } else {
        // c + e - 1 = (q+1)*e + (r-1);  c + e = (q+1)*e + r
        vstd::arithmetic::div_mod::lemma_fundamental_div_mod_converse(c as int + d - 1, d, q + 1, r - 1);
        vstd::arithmetic::div_mod::lemma_fundamental_div_mod_converse(c as int + d, d, q + 1, r);
    }
    assert(((c + e - 1) as nat) as int == c as int + d - 1);
    assert(((c + 1 + e - 1) as nat) as int == c as int + d);
}
/// more iterations never cost fewer polls
pub proof fn lemma_polls_due_mono(a: nat, b: nat, e: nat)
    requires e >= 1, a <= b,
    ensures polls_due(a, e) <= polls_due(b, e),
{
    vstd::arithmetic::div_mod::lemma_div_is_ordered((a + e - 1) as int, (b + e - 1) as int, e as int);
}
pub proof fn lemma_polls_due_zero(e: nat)
    requires e >= 1,
    ensures polls_due(0, e) == 0,
{
    vstd::arithmetic::div_mod::lemma_fundamental_div_mod_converse((e - 1) as int, e as int, 0, (e - 1) as int);
}
/// the step_by(32) protocol: while the offset 32 * c is below n there is another iteration; the first offset at or
/// past n comes after exactly ceil(n / 32) iterations
pub proof fn lemma_steps_of_32(n: nat, c: nat)
    ensures
        32 * c < n ==> c < steps_of_32(n),
        32 * c < n && n <= 32 * c + 32 ==> steps_of_32(n) == c + 1,
        n == 0 ==> steps_of_32(n) == 0,
{
}
/// the two outcome clauses of every function below say: Err(StoppedByWatchdog) <==> some poll made by the call answered stop
pub proof fn lemma_stop_iff_some_poll_answered_stop(before: nat, after: nat, stopped: bool)
    requires
        before <= after,
        stopped ==> after > before && answer((after - 1) as nat),
        !stopped ==> forall|k: nat| before <= k < after ==> !answer(k),
    ensures
        stopped <==> exists|k: nat| before <= k < after && answer(k),      //@ob C13.wd.stop_iff_some_poll_answered_stop
{
    if stopped { let k = (after - 1) as nat; assert(before <= k && k < after && answer(k)); }
}

/// what the k-th poll of the run answers: `true` = stop.  Arbitrary: the contracts hold for every oracle.
pub uninterp spec fn answer(k: nat) -> bool;
} // verus!

pub mod container {
use vstd::prelude::*;
verus! {
//@include stack/container_items.rs
} // verus!
}

pub mod execution {
use vstd::prelude::*;
use super::{container, KnownWord};
verus! {
//@include stack/execution_items.rs
} // verus!
}

pub mod vm {
use vstd::prelude::*;
use std::sync::Arc;
use super::*;
use super::container::Locatable;
use super::execution::{self, Error, Errors, LocatedError, Result};
verus! {
//@include stack/stack_items.rs

// ---- instructions ------------------------------------------------------------------------------------
/// A-CALLEE (trait stand-in): `Opcode` reduced to the one method under contract.  The precondition is the premise of
/// C01's obligation here: the watchdog asks to be polled every p >= 1 iterations (`count % 0` panics; nothing in the
/// repository rejects `FlagWatchdog::polling_every(0)`)
pub trait Opcode {
    fn execute(&self, vm: &mut VM) -> ExecuteResult
        requires old(vm).interval() >= 1;
}
//@extract file=src/opcode/mod.rs path="type ExecuteResult" kind=type
//@end

// ---- the watchdog: an external oracle with ghost poll history ------------------------------------------
/// A-CALLEE (opaque stand-in for `DynWatchdog = Rc<dyn Watchdog>`)
#[verifier::external_body]
pub struct DynWatchdog { _opaque: u8 }
impl DynWatchdog {
    /// GHOST: the number of polls made so far
    pub uninterp spec fn polls(&self) -> nat;
    /// the interval the watchdog asks for
    pub uninterp spec fn interval(&self) -> usize;
    // A-CALLEE: Watchdog::should_stop answers what the oracle answers to this poll, and the poll is counted.
    // (`&mut`: see the //@dropped note - the repository's method takes `&self`, the oracle's state is external.)
    #[verifier::external_body]
    pub fn should_stop(&mut self) -> (r: bool)
        ensures r == answer(old(self).polls()), final(self).polls() == old(self).polls() + 1, final(self).interval() == old(self).interval(),
    { unimplemented!() }
    // A-CALLEE: Watchdog::poll_every returns the fixed interval and is not a poll
    #[verifier::external_body]
    pub fn poll_every(&self) -> (r: usize)
        ensures r == self.interval(),
    { unimplemented!() }
}

// ---- the value builder, memory ---------------------------------------------------------------------------
/// A-CALLEE (opaque stand-in for `ValueBuilder`): builds some value; total.  What it builds is unit value_size (C18).
#[verifier::external_body]
pub struct ValueBuilder { _opaque: u8 }
impl ValueBuilder {
    #[verifier::external_body]
    pub fn known_exec(&self, instruction_pointer: u32, value_data: KnownWord) -> RuntimeBoxedVal { unimplemented!() }
    #[verifier::external_body]
    pub fn symbolic_exec(&self, instruction_pointer: u32, data: RSVD) -> RuntimeBoxedVal { unimplemented!() }
    #[verifier::external_body]
    pub fn symbolic(&self, instruction_pointer: u32, data: RSVD, provenance: Provenance) -> RuntimeBoxedVal { unimplemented!() }
}
/// A-CALLEE (opaque stand-in for `Memory`): `store` changes this memory only; total
#[verifier::external_body]
pub struct Memory { _opaque: u8 }
impl Memory {
    #[verifier::external_body]
    pub fn store(&mut self, offset: RuntimeBoxedVal, value: RuntimeBoxedVal) { unimplemented!() }
}

//@extract file=src/vm/mod.rs path="struct Config" kind=type
//@end
//@extract file=src/constant.rs path="const CONTRACT_MAXIMUM_SIZE_BYTES" kind=type
//@end

// ---- abstract VM ---------------------------------------------------------------------------------------
/// A-CALLEE (type stand-in for `VMState`): the fields the copy loops reach
pub struct VMState {
    pub stack: Stack,
    pub memory: Memory,
}
//@extract file=src/vm/state/mod.rs path="impl VMState" kind=header
//@end
//@extract file=src/vm/state/mod.rs path="impl VMState|fn memory_mut"
//@ret r
//@spec
        ensures *r == old(self).memory, final(self).memory == *final(r), final(self).stack == old(self).stack,
//@end
}
/// A-CALLEE (type stand-in for the front of `VM::thread_queue`)
pub struct CurrentThread {
    pub instruction_pointer: u32,
    pub state: VMState,
}
/// A-CALLEE (type stand-in for `VM`): what the copy loops reach.  `thread_queue: VecDeque<VMThread>` is reduced to its
/// front, `instructions: InstructionStream` to its length.
pub struct VM {
    pub instructions_len: u32,
    pub current: Option<CurrentThread>,
    pub builder: ValueBuilder,
    pub config: Config,
    pub watchdog: DynWatchdog,
}
impl VM {
    pub open spec fn has_thread(&self) -> bool { self.current is Some }
    pub open spec fn ip(&self) -> u32 { self.current->Some_0.instruction_pointer }
    /// the current thread's stack, bottom first, top last
    pub open spec fn stack(&self) -> Seq<RuntimeBoxedVal> { self.current->Some_0.state.stack@ }
    /// GHOST: polls made so far / the interval the watchdog asks for
    pub open spec fn polls(&self) -> nat { self.watchdog.polls() }
    pub open spec fn interval(&self) -> usize { self.watchdog.interval() }
    /// everything but the current thread's stack and memory
    pub open spec fn same_but_state(&self, o: &VM) -> bool {
        &&& self.has_thread() == o.has_thread()
        &&& self.instructions_len == o.instructions_len
        &&& self.builder == o.builder
        &&& self.config == o.config
        &&& self.watchdog == o.watchdog
        &&& self.has_thread() ==> self.ip() == o.ip()
    }
    /// everything but the poll counter
    pub open spec fn same_but_polls(&self, o: &VM) -> bool {
        &&& self.current == o.current
        &&& self.instructions_len == o.instructions_len
        &&& self.builder == o.builder
        &&& self.config == o.config
        &&& self.interval() == o.interval()
    }
    // A-CALLEE: VM::instruction_pointer (same contract as units control / alu_ops)
    #[verifier::external_body]
    pub fn instruction_pointer(&mut self) -> (r: Result<u32>)
        ensures
            *final(self) == *old(self),
            old(self).has_thread() ==> r == Ok::<u32, LocatedError>(old(self).ip()),
            !old(self).has_thread() ==> r == Err::<u32, LocatedError>(LocatedError { location: old(self).instructions_len, payload: Error::NoSuchThread }),
    { unimplemented!() }
    // A-CALLEE: VM::stack_handle (same contract as units stack / control / alu_ops)
    #[verifier::external_body]
    pub fn stack_handle(&mut self) -> (r: Result<LocatedStackHandle<'_>>)
        ensures
            old(self).has_thread() ==> r is Ok,
            r is Ok ==> old(self).has_thread() && r->Ok_0.ip() == old(self).ip() && r->Ok_0.cur() == old(self).stack() && r->Ok_0.wf()
                && final(self).same_but_state(old(self)) && final(self).stack() == r->Ok_0.fin(),
            r is Err ==> !old(self).has_thread() && *final(self) == *old(self) && r->Err_0 == (LocatedError { location: old(self).instructions_len, payload: Error::NoSuchThread }),
    { unimplemented!() }
    // A-CALLEE: VM::state = `current_thread_mut().map(VMThread::state_mut)` (same contract as unit control)
    #[verifier::external_body]
    pub fn state(&mut self) -> (r: Result<&mut VMState>)
        ensures
            old(self).has_thread() ==> r is Ok,
            r is Ok ==> old(self).has_thread() && *r->Ok_0 == old(self).current->Some_0.state && final(self).has_thread() && final(self).current->Some_0.state == *final(r->Ok_0)
                && final(self).same_but_state(old(self)),
            r is Err ==> !old(self).has_thread() && *final(self) == *old(self) && r->Err_0 == (LocatedError { location: old(self).instructions_len, payload: Error::NoSuchThread }),
    { unimplemented!() }
    // A-CALLEE: VM::watchdog hands out the oracle; `&mut` so that the ghost poll counter can advance (see //@dropped)
    pub fn watchdog(&mut self) -> (r: &mut DynWatchdog)
        ensures *r == old(self).watchdog, final(self).watchdog == *final(r),
            final(self).current == old(self).current, final(self).instructions_len == old(self).instructions_len, final(self).builder == old(self).builder,
            final(self).config == old(self).config,
    { &mut self.watchdog }
}
//@extract file=src/vm/mod.rs path="impl VM" kind=header
//@end
//@extract file=src/vm/mod.rs path="impl VM|fn build"
//@ret r
//@spec
        ensures *r == self.builder,
//@end
//@extract file=src/vm/mod.rs path="impl VM|fn config"
//@ret r
//@spec
        ensures *r == self.config,
//@end
}
} // verus!
}
// ======================================================================================================
// The contract, written from the property statement.
// ======================================================================================================
pub mod wd {
use vstd::prelude::*;
use super::*;
use super::execution::Error;
use super::vm::{item, ExecuteResult, VM};
verus! {
/// the outcome is the stopped-by-watchdog error
pub open spec fn stopped(r: ExecuteResult) -> bool { r is Err && r->Err_0.payload is StoppedByWatchdog }
/// "stopped at the first stop answer": the LAST poll made answered stop, every earlier one answered continue
pub open spec fn stopped_at_first_stop(before: &VM, after: &VM) -> bool {
    &&& after.polls() > before.polls()
    &&& answer((after.polls() - 1) as nat)
    &&& forall|k: nat| before.polls() <= k < after.polls() - 1 ==> !answer(k)
}
/// every poll made between the two states answered continue
pub open spec fn every_poll_continued(before: &VM, after: &VM) -> bool {
    &&& after.polls() >= before.polls()
    &&& forall|k: nat| before.polls() <= k < after.polls() ==> !answer(k)
}
/// some poll made between the two states answered stop
pub open spec fn some_poll_answered_stop(before: &VM, after: &VM) -> bool {
    exists|k: nat| before.polls() <= k < after.polls() && answer(k)
}
/// iterations of the copy loop for a size operand `size` under `limit`: a constant size is bounded by the limit and
/// copied word by word; a symbolic size is one symbolic store (no loop)
pub open spec fn iterations_for(size: RSV, limit: usize) -> nat {
    match fold(size).dt() {
        RSVD::KnownData { value } => copy_iterations(kw_usize(value) as nat, limit as nat),
        _ => 0,
    }
}
} // verus!
}

pub mod memory {
use vstd::prelude::*;
use super::container::Locatable;
use super::execution::Error;
use super::vm::{item, lemma_handle_resolved, ExecuteResult, Opcode, CONTRACT_MAXIMUM_SIZE_BYTES, VM};
use super::wd::*;
use super::*;
verus! {
broadcast use lemma_handle_resolved;
//@extract file=src/opcode/memory.rs path="struct CallDataCopy" kind=type
//@end
//@extract file=src/opcode/memory.rs path="impl Opcode for CallDataCopy" kind=header
//@end
//@extract file=src/opcode/memory.rs path="impl Opcode for CallDataCopy|fn execute"
//@ret r
// R-STEPBY-ENUM: `for (c, o) in (0..n).step_by(32).enumerate() { BODY }` is `c = 0; o = 0; while o < n { BODY; c += 1; o += 32 }`
// with the addition checked (the range iterator ends when the next offset does not exist); BODY ($1) and the step ($2) are carried over verbatim
//@rw R-STEPBY-ENUM
//@old
for (count, internal_offset) in (0..size_limit).step_by($2).enumerate() {
$1
            }
        } else {
//@new
let mut count: usize = 0;
            let mut internal_offset: usize = 0;
            while internal_offset < size_limit {
$1
                count = count + 1;
                internal_offset = match internal_offset.checked_add($2) { Some(next) => next, None => usize::MAX };
            }
        } else {
//@spec
        ensures
            stopped(r) ==> stopped_at_first_stop(old(vm), final(vm)),                                                     //@ob C13.wd.CallDataCopy.stopped_at_the_first_stop_answer
            !stopped(r) ==> every_poll_continued(old(vm), final(vm)),                                                      //@ob C13.wd.CallDataCopy.every_poll_continued_unless_stopped
            stopped(r) <==> some_poll_answered_stop(old(vm), final(vm)),                                                  //@ob C13.wd.CallDataCopy.stopped_iff_some_poll_answered_stop
            r is Ok ==> old(vm).has_thread() && old(vm).stack().len() >= 3 && final(vm).polls() - old(vm).polls()
                == polls_due(iterations_for(*item(old(vm).stack(), 3), old(vm).config.single_memory_operation_size_limit), old(vm).interval() as nat),      //@ob C13.wd.CallDataCopy.polls_once_per_interval
            old(vm).has_thread() && old(vm).stack().len() >= 3 ==> final(vm).polls() - old(vm).polls()
                <= polls_due(iterations_for(*item(old(vm).stack(), 3), old(vm).config.single_memory_operation_size_limit), old(vm).interval() as nat),      //@ob C13.wd.CallDataCopy.never_more_polls_than_promised
            !(old(vm).has_thread() && old(vm).stack().len() >= 3) ==> final(vm).polls() == old(vm).polls() && r is Err,
            old(vm).has_thread() && old(vm).stack().len() >= 3 ==> final(vm).has_thread() && final(vm).stack() =~= old(vm).stack().subrange(0, old(vm).stack().len() - 3),      //@ob C13.wd.CallDataCopy.operands_consumed_nothing_pushed
            final(vm).interval() == old(vm).interval() && final(vm).config == old(vm).config,
//@loop 1 kind=while
                invariant
                    polling_interval == old(vm).interval() && polling_interval >= 1 && vm.interval() == old(vm).interval(),
                    internal_offset < size_limit ==> internal_offset as nat == 32 * (count as nat),                 //@ob C13.wd.CallDataCopy.loop.offset_is_32_times_count
                    internal_offset >= size_limit ==> count as nat == steps_of_32(size_limit as nat),               //@ob C13.wd.CallDataCopy.loop.ends_after_all_steps
                    count as nat <= steps_of_32(size_limit as nat),
                    vm.polls() - old(vm).polls() == polls_due(count as nat, polling_interval as nat),               //@ob C13.wd.CallDataCopy.loop.polls_once_per_interval
                    every_poll_continued(old(vm), vm),                                                              //@ob C13.wd.CallDataCopy.loop.goes_on_only_if_every_poll_continued
                    vm.has_thread() && vm.stack() == old(vm).stack().subrange(0, old(vm).stack().len() - 3) && vm.config == old(vm).config,
                    old(vm).has_thread() && old(vm).stack().len() >= 3,
                    steps_of_32(size_limit as nat) == iterations_for(*item(old(vm).stack(), 3), old(vm).config.single_memory_operation_size_limit),      //@ob C13.wd.CallDataCopy.loop.iterations_are_those_of_the_bounded_size
                decreases (if internal_offset < size_limit { size_limit - internal_offset } else { 0 }),
//@proof loopstart #1
                proof {
                    assert(polling_interval >= 1);      //@ob C01.wd.CallDataCopy.modulus_not_zero
                    lemma_polls_due_step(count as nat, polling_interval as nat);
                    lemma_steps_of_32(size_limit as nat, count as nat);
                    lemma_polls_due_mono((count + 1) as nat, steps_of_32(size_limit as nat), polling_interval as nat);
                }
//@proof entry
        proof { lemma_polls_due_zero(vm.interval() as nat); }
//@end
}

//@extract file=src/opcode/memory.rs path="struct CodeCopy" kind=type
//@end
//@extract file=src/opcode/memory.rs path="impl Opcode for CodeCopy" kind=header
//@end
//@extract file=src/opcode/memory.rs path="impl Opcode for CodeCopy|fn execute"
//@ret r
// R-STEPBY-ENUM: `for (c, o) in (0..n).step_by(32).enumerate() { BODY }` is `c = 0; o = 0; while o < n { BODY; c += 1; o += 32 }`
// with the addition checked (the range iterator ends when the next offset does not exist); BODY ($1) and the step ($2) are carried over verbatim
//@rw R-STEPBY-ENUM
//@old
for (count, internal_offset) in (0..size_limit).step_by($2).enumerate() {
$1
            }
        } else {
//@new
let mut count: usize = 0;
            let mut internal_offset: usize = 0;
            while internal_offset < size_limit {
$1
                count = count + 1;
                internal_offset = match internal_offset.checked_add($2) { Some(next) => next, None => usize::MAX };
            }
        } else {
//@spec
        ensures
            stopped(r) ==> stopped_at_first_stop(old(vm), final(vm)),                                                     //@ob C13.wd.CodeCopy.stopped_at_the_first_stop_answer
            !stopped(r) ==> every_poll_continued(old(vm), final(vm)),                                                      //@ob C13.wd.CodeCopy.every_poll_continued_unless_stopped
            stopped(r) <==> some_poll_answered_stop(old(vm), final(vm)),                                                  //@ob C13.wd.CodeCopy.stopped_iff_some_poll_answered_stop
            r is Ok ==> old(vm).has_thread() && old(vm).stack().len() >= 3 && final(vm).polls() - old(vm).polls()
                == polls_due(iterations_for(*item(old(vm).stack(), 3), CONTRACT_MAXIMUM_SIZE_BYTES), old(vm).interval() as nat),      //@ob C13.wd.CodeCopy.polls_once_per_interval
            old(vm).has_thread() && old(vm).stack().len() >= 3 ==> final(vm).polls() - old(vm).polls()
                <= polls_due(iterations_for(*item(old(vm).stack(), 3), CONTRACT_MAXIMUM_SIZE_BYTES), old(vm).interval() as nat),      //@ob C13.wd.CodeCopy.never_more_polls_than_promised
            !(old(vm).has_thread() && old(vm).stack().len() >= 3) ==> final(vm).polls() == old(vm).polls() && r is Err,
            old(vm).has_thread() && old(vm).stack().len() >= 3 ==> final(vm).has_thread() && final(vm).stack() =~= old(vm).stack().subrange(0, old(vm).stack().len() - 3),      //@ob C13.wd.CodeCopy.operands_consumed_nothing_pushed
            final(vm).interval() == old(vm).interval() && final(vm).config == old(vm).config,
//@loop 1 kind=while
                invariant
                    polling_interval == old(vm).interval() && polling_interval >= 1 && vm.interval() == old(vm).interval(),
                    internal_offset < size_limit ==> internal_offset as nat == 32 * (count as nat),                 //@ob C13.wd.CodeCopy.loop.offset_is_32_times_count
                    internal_offset >= size_limit ==> count as nat == steps_of_32(size_limit as nat),               //@ob C13.wd.CodeCopy.loop.ends_after_all_steps
                    count as nat <= steps_of_32(size_limit as nat),
                    vm.polls() - old(vm).polls() == polls_due(count as nat, polling_interval as nat),               //@ob C13.wd.CodeCopy.loop.polls_once_per_interval
                    every_poll_continued(old(vm), vm),                                                              //@ob C13.wd.CodeCopy.loop.goes_on_only_if_every_poll_continued
                    vm.has_thread() && vm.stack() == old(vm).stack().subrange(0, old(vm).stack().len() - 3) && vm.config == old(vm).config,
                    old(vm).has_thread() && old(vm).stack().len() >= 3,
                    steps_of_32(size_limit as nat) == iterations_for(*item(old(vm).stack(), 3), CONTRACT_MAXIMUM_SIZE_BYTES),      //@ob C13.wd.CodeCopy.loop.iterations_are_those_of_the_bounded_size
                decreases (if internal_offset < size_limit { size_limit - internal_offset } else { 0 }),
//@proof loopstart #1
                proof {
                    assert(polling_interval >= 1);      //@ob C01.wd.CodeCopy.modulus_not_zero
                    lemma_polls_due_step(count as nat, polling_interval as nat);
                    lemma_steps_of_32(size_limit as nat, count as nat);
                    lemma_polls_due_mono((count + 1) as nat, steps_of_32(size_limit as nat), polling_interval as nat);
                }
//@proof entry
        proof { lemma_polls_due_zero(vm.interval() as nat); }
//@end
}

//@extract file=src/opcode/memory.rs path="struct ExtCodeCopy" kind=type
//@end
//@extract file=src/opcode/memory.rs path="impl Opcode for ExtCodeCopy" kind=header
//@end
//@extract file=src/opcode/memory.rs path="impl Opcode for ExtCodeCopy|fn execute"
//@ret r
// R-STEPBY-ENUM: `for (c, o) in (0..n).step_by(32).enumerate() { BODY }` is `c = 0; o = 0; while o < n { BODY; c += 1; o += 32 }`
// with the addition checked (the range iterator ends when the next offset does not exist); BODY ($1) and the step ($2) are carried over verbatim
//@rw R-STEPBY-ENUM
//@old
for (count, internal_offset) in (0..size_limit).step_by($2).enumerate() {
$1
            }
        } else {
//@new
let mut count: usize = 0;
            let mut internal_offset: usize = 0;
            while internal_offset < size_limit {
$1
                count = count + 1;
                internal_offset = match internal_offset.checked_add($2) { Some(next) => next, None => usize::MAX };
            }
        } else {
//@spec
        ensures
            stopped(r) ==> stopped_at_first_stop(old(vm), final(vm)),                                                     //@ob C13.wd.ExtCodeCopy.stopped_at_the_first_stop_answer
            !stopped(r) ==> every_poll_continued(old(vm), final(vm)),                                                      //@ob C13.wd.ExtCodeCopy.every_poll_continued_unless_stopped
            stopped(r) <==> some_poll_answered_stop(old(vm), final(vm)),                                                  //@ob C13.wd.ExtCodeCopy.stopped_iff_some_poll_answered_stop
            r is Ok ==> old(vm).has_thread() && old(vm).stack().len() >= 4 && final(vm).polls() - old(vm).polls()
                == polls_due(iterations_for(*item(old(vm).stack(), 4), CONTRACT_MAXIMUM_SIZE_BYTES), old(vm).interval() as nat),      //@ob C13.wd.ExtCodeCopy.polls_once_per_interval
            old(vm).has_thread() && old(vm).stack().len() >= 4 ==> final(vm).polls() - old(vm).polls()
                <= polls_due(iterations_for(*item(old(vm).stack(), 4), CONTRACT_MAXIMUM_SIZE_BYTES), old(vm).interval() as nat),      //@ob C13.wd.ExtCodeCopy.never_more_polls_than_promised
            !(old(vm).has_thread() && old(vm).stack().len() >= 4) ==> final(vm).polls() == old(vm).polls() && r is Err,
            old(vm).has_thread() && old(vm).stack().len() >= 4 ==> final(vm).has_thread() && final(vm).stack() =~= old(vm).stack().subrange(0, old(vm).stack().len() - 4),      //@ob C13.wd.ExtCodeCopy.operands_consumed_nothing_pushed
            final(vm).interval() == old(vm).interval() && final(vm).config == old(vm).config,
//@loop 1 kind=while
                invariant
                    polling_interval == old(vm).interval() && polling_interval >= 1 && vm.interval() == old(vm).interval(),
                    internal_offset < size_limit ==> internal_offset as nat == 32 * (count as nat),                 //@ob C13.wd.ExtCodeCopy.loop.offset_is_32_times_count
                    internal_offset >= size_limit ==> count as nat == steps_of_32(size_limit as nat),               //@ob C13.wd.ExtCodeCopy.loop.ends_after_all_steps
                    count as nat <= steps_of_32(size_limit as nat),
                    vm.polls() - old(vm).polls() == polls_due(count as nat, polling_interval as nat),               //@ob C13.wd.ExtCodeCopy.loop.polls_once_per_interval
                    every_poll_continued(old(vm), vm),                                                              //@ob C13.wd.ExtCodeCopy.loop.goes_on_only_if_every_poll_continued
                    vm.has_thread() && vm.stack() == old(vm).stack().subrange(0, old(vm).stack().len() - 4) && vm.config == old(vm).config,
                    old(vm).has_thread() && old(vm).stack().len() >= 4,
                    steps_of_32(size_limit as nat) == iterations_for(*item(old(vm).stack(), 4), CONTRACT_MAXIMUM_SIZE_BYTES),      //@ob C13.wd.ExtCodeCopy.loop.iterations_are_those_of_the_bounded_size
                decreases (if internal_offset < size_limit { size_limit - internal_offset } else { 0 }),
//@proof loopstart #1
                proof {
                    assert(polling_interval >= 1);      //@ob C01.wd.ExtCodeCopy.modulus_not_zero
                    lemma_polls_due_step(count as nat, polling_interval as nat);
                    lemma_steps_of_32(size_limit as nat, count as nat);
                    lemma_polls_due_mono((count + 1) as nat, steps_of_32(size_limit as nat), polling_interval as nat);
                }
//@proof entry
        proof { lemma_polls_due_zero(vm.interval() as nat); }
//@end
}

//@extract file=src/opcode/memory.rs path="struct ReturnDataCopy" kind=type
//@end
//@extract file=src/opcode/memory.rs path="impl Opcode for ReturnDataCopy" kind=header
//@end
//@extract file=src/opcode/memory.rs path="impl Opcode for ReturnDataCopy|fn execute"
//@ret r
// R-STEPBY-ENUM: `for (c, o) in (0..n).step_by(32).enumerate() { BODY }` is `c = 0; o = 0; while o < n { BODY; c += 1; o += 32 }`
// with the addition checked (the range iterator ends when the next offset does not exist); BODY ($1) and the step ($2) are carried over verbatim
//@rw R-STEPBY-ENUM
//@old
for (count, internal_offset) in (0..size_limit).step_by($2).enumerate() {
$1
            }
        } else {
//@new
let mut count: usize = 0;
            let mut internal_offset: usize = 0;
            while internal_offset < size_limit {
$1
                count = count + 1;
                internal_offset = match internal_offset.checked_add($2) { Some(next) => next, None => usize::MAX };
            }
        } else {
//@spec
        ensures
            stopped(r) ==> stopped_at_first_stop(old(vm), final(vm)),                                                     //@ob C13.wd.ReturnDataCopy.stopped_at_the_first_stop_answer
            !stopped(r) ==> every_poll_continued(old(vm), final(vm)),                                                      //@ob C13.wd.ReturnDataCopy.every_poll_continued_unless_stopped
            stopped(r) <==> some_poll_answered_stop(old(vm), final(vm)),                                                  //@ob C13.wd.ReturnDataCopy.stopped_iff_some_poll_answered_stop
            r is Ok ==> old(vm).has_thread() && old(vm).stack().len() >= 3 && final(vm).polls() - old(vm).polls()
                == polls_due(iterations_for(*item(old(vm).stack(), 3), old(vm).config.single_memory_operation_size_limit), old(vm).interval() as nat),      //@ob C13.wd.ReturnDataCopy.polls_once_per_interval
            old(vm).has_thread() && old(vm).stack().len() >= 3 ==> final(vm).polls() - old(vm).polls()
                <= polls_due(iterations_for(*item(old(vm).stack(), 3), old(vm).config.single_memory_operation_size_limit), old(vm).interval() as nat),      //@ob C13.wd.ReturnDataCopy.never_more_polls_than_promised
            !(old(vm).has_thread() && old(vm).stack().len() >= 3) ==> final(vm).polls() == old(vm).polls() && r is Err,
            old(vm).has_thread() && old(vm).stack().len() >= 3 ==> final(vm).has_thread() && final(vm).stack() =~= old(vm).stack().subrange(0, old(vm).stack().len() - 3),      //@ob C13.wd.ReturnDataCopy.operands_consumed_nothing_pushed
            final(vm).interval() == old(vm).interval() && final(vm).config == old(vm).config,
//@loop 1 kind=while
                invariant
                    polling_interval == old(vm).interval() && polling_interval >= 1 && vm.interval() == old(vm).interval(),
                    internal_offset < size_limit ==> internal_offset as nat == 32 * (count as nat),                 //@ob C13.wd.ReturnDataCopy.loop.offset_is_32_times_count
                    internal_offset >= size_limit ==> count as nat == steps_of_32(size_limit as nat),               //@ob C13.wd.ReturnDataCopy.loop.ends_after_all_steps
                    count as nat <= steps_of_32(size_limit as nat),
                    vm.polls() - old(vm).polls() == polls_due(count as nat, polling_interval as nat),               //@ob C13.wd.ReturnDataCopy.loop.polls_once_per_interval
                    every_poll_continued(old(vm), vm),                                                              //@ob C13.wd.ReturnDataCopy.loop.goes_on_only_if_every_poll_continued
                    vm.has_thread() && vm.stack() == old(vm).stack().subrange(0, old(vm).stack().len() - 3) && vm.config == old(vm).config,
                    old(vm).has_thread() && old(vm).stack().len() >= 3,
                    steps_of_32(size_limit as nat) == iterations_for(*item(old(vm).stack(), 3), old(vm).config.single_memory_operation_size_limit),      //@ob C13.wd.ReturnDataCopy.loop.iterations_are_those_of_the_bounded_size
                decreases (if internal_offset < size_limit { size_limit - internal_offset } else { 0 }),
//@proof loopstart #1
                proof {
                    assert(polling_interval >= 1);      //@ob C01.wd.ReturnDataCopy.modulus_not_zero
                    lemma_polls_due_step(count as nat, polling_interval as nat);
                    lemma_steps_of_32(size_limit as nat, count as nat);
                    lemma_polls_due_mono((count + 1) as nat, steps_of_32(size_limit as nat), polling_interval as nat);
                }
//@proof entry
        proof { lemma_polls_due_zero(vm.interval() as nat); }
//@end
}
} // verus!
}
pub mod control {
use vstd::prelude::*;
use super::container::Locatable;
use super::execution::Error;
use super::vm::{ExecuteResult, VM};
use super::wd::*;
use super::*;
verus! {
// (loop_isolation(false): the loop body may use what is known before the loop - here that the ghost `size_operand` is the
// parameter `ret_size`, which the body's second line shadows, so that no invariant can name it)
#[verifier::loop_isolation(false)]
//@extract file=src/opcode/control.rs path="fn store_return_data"
//@ret r
// R-STEPBY-ENUM: as in mod memory
//@rw R-STEPBY-ENUM
//@old
for (count, internal_offset) in (0..size_limit).step_by($2).enumerate() {
$1
        }
    } else {
//@new
let mut count: usize = 0;
        let mut internal_offset: usize = 0;
        while internal_offset < size_limit {
$1
            count = count + 1;
            internal_offset = match internal_offset.checked_add($2) { Some(next) => next, None => usize::MAX };
        }
    } else {
//@spec
        requires old(vm).interval() >= 1,
        ensures
            stopped(r) ==> stopped_at_first_stop(old(vm), final(vm)),                                                     //@ob C13.wd.store_return_data.stopped_at_the_first_stop_answer
            !stopped(r) ==> every_poll_continued(old(vm), final(vm)),                                                      //@ob C13.wd.store_return_data.every_poll_continued_unless_stopped
            stopped(r) <==> some_poll_answered_stop(old(vm), final(vm)),                                                  //@ob C13.wd.store_return_data.stopped_iff_some_poll_answered_stop
            r is Ok ==> old(vm).has_thread() && final(vm).polls() - old(vm).polls()
                == polls_due(iterations_for(**ret_size, old(vm).config.single_memory_operation_size_limit), old(vm).interval() as nat),      //@ob C13.wd.store_return_data.polls_once_per_interval
            final(vm).polls() - old(vm).polls()
                <= polls_due(iterations_for(**ret_size, old(vm).config.single_memory_operation_size_limit), old(vm).interval() as nat),      //@ob C13.wd.store_return_data.never_more_polls_than_promised
            !old(vm).has_thread() ==> final(vm).polls() == old(vm).polls() && r is Err,
            // the helper touches memory only: the caller's operands are gone already, nothing is pushed here
            final(vm).has_thread() == old(vm).has_thread() && (old(vm).has_thread() ==> final(vm).stack() == old(vm).stack() && final(vm).ip() == old(vm).ip()),      //@ob C13.wd.store_return_data.nothing_pushed
            final(vm).interval() == old(vm).interval() && final(vm).config == old(vm).config,
//@loop 1 kind=while
            invariant
                polling_interval == old(vm).interval() && polling_interval >= 1 && vm.interval() == old(vm).interval(),
                internal_offset < size_limit ==> internal_offset as nat == 32 * (count as nat),                 //@ob C13.wd.store_return_data.loop.offset_is_32_times_count
                internal_offset >= size_limit ==> count as nat == steps_of_32(size_limit as nat),               //@ob C13.wd.store_return_data.loop.ends_after_all_steps
                count as nat <= steps_of_32(size_limit as nat),
                vm.polls() - old(vm).polls() == polls_due(count as nat, polling_interval as nat),               //@ob C13.wd.store_return_data.loop.polls_once_per_interval
                every_poll_continued(old(vm), vm),                                                              //@ob C13.wd.store_return_data.loop.goes_on_only_if_every_poll_continued
                vm.has_thread() && old(vm).has_thread() && vm.stack() == old(vm).stack() && vm.ip() == old(vm).ip() && vm.config == old(vm).config,
                steps_of_32(size_limit as nat) == iterations_for(**size_operand, old(vm).config.single_memory_operation_size_limit),      //@ob C13.wd.store_return_data.loop.iterations_are_those_of_the_bounded_size
            decreases (if internal_offset < size_limit { size_limit - internal_offset } else { 0 }),
//@proof loopstart #1
            proof {
                assert(polling_interval >= 1);      //@ob C01.wd.store_return_data.modulus_not_zero
                lemma_polls_due_step(count as nat, polling_interval as nat);
                lemma_steps_of_32(size_limit as nat, count as nat);
                lemma_polls_due_mono((count + 1) as nat, steps_of_32(size_limit as nat), polling_interval as nat);
            }
//@proof entry
    // (the parameter `ret_size` is shadowed by its folded form on the second line of the body)
    let ghost size_operand: &RuntimeBoxedVal = ret_size;
    proof { lemma_polls_due_zero(vm.interval() as nat); }
//@end
} // verus!
}
fn main() {}
