//@unit props=C03,C06,C08,C13,C17,C01
// Unit vm_loop — THE MAIN LOOP OF THE SYMBOLIC VM: `VM::advance` and `VM::execute` (src/vm/mod.rs), real text, over a STAND-IN VM.
// This is the one piece of control code that C03 (limits), C06 (a finished thread's state is collected), C08 (halting ends the
// path), C13 (watchdog polled every `poll_every` iterations; a stop ends everything) and C17 (which errors are recorded per mode; an
// opcode error ends only the current thread) all rest on.
//
// UNDER CONTRACT (re-extracted on every run):
//   `VM::advance`   with a current thread at pointer ip (ITS pointer at the time of the call): the thread ENDS iff ip+1 is outside the
//                   code, or the visit counter of ip+1 is at the limit, or its gas usage exceeds `config.gas_limit` (in BOTH error
//                   modes), or it was killed; an ended thread's state is appended to `stored_states` (exactly one more, equal to the
//                   thread's: C06) and the queue loses exactly its front; `GasLimitExceeded` located at ip is recorded iff the gas
//                   condition holds, whatever the mode and whatever else ended the thread; the kill flag is reset; otherwise the thread
//                   steps by exactly one and nothing else changes; empty queue => Err(InvalidStep), nothing changes.
//   `VM::execute`   the WHOLE function, loop included (one R-CALL for the dynamic dispatch, one R-TRY desugaring; see there).
//                   Function contract: Ok only if no error was recorded and every thread ran to its end; any recorded error fails the
//                   run; an Err lists every recorded error or is the watchdog's stop; stored states are never dropped and every thread
//                   is queued or stored; a stop answer at ANY poll (of the loop or inside an opcode) is reported and no poll follows it;
//                   the loop polls exactly ceil(iterations / poll_every) times.  Loop invariant: the same, plus ONE ITERATION spelled out
//                   (labels C??.loop.execute.iter.*): the current instruction is the one executed; it is marked visited BEFORE it is
//                   executed and nothing else happens before; the loop's poll comes before the opcode; then the thread ends iff the
//                   opcode failed (in EVERY mode - tolerated or not, a failed jump never falls through) / halted the path / runs off the
//                   code / hits the visit limit / is out of gas, its state being stored; otherwise it goes on by one instruction having
//                   consumed the opcode's `min_gas_cost` (on Ok only); the opcode's error is appended to `errors` UNLESS permissive and
//                   one of the four jump-target kinds; gas exhaustion is recorded in both modes.
//   helpers         `VM::{current_thread, current_thread_mut, current_instruction (R-MAP), kill_current_thread}`, `VMThread::{state, state_mut,
//                   instructions, instructions_mut, consume_gas, gas_usage}`, `From<VMThread> for VMState`, `VMState::{visited_instructions,
//                   visited_instructions_mut}`, `ExecutionThread::{instruction_pointer, current, step, jump_by}`, `Errors::{new, len, is_empty,
//                   add, default}`, `From<E> for Errors<E>`, `Locatable` for `Error` and `Result`, `Error`, `Located`, `Config`, `VMThread`,
//                   `ExecutionThread`, `ExecuteResult`.
// HOW ONE ITERATION IS NAMED WITH STRUCTURAL ANCHORS ONLY: a ghost `prev` (the VM at the loop head, set at `loopstart`) and a GHOST RUN
// HISTORY kept by the stand-in of the one call the verifier cannot follow (`exec_opcode`): the VM the last opcode was started on, the VM
// it left behind, its result.  The invariant - checked at the end of every loop body - relates `prev`, that history and the VM after
// `advance`.  No ghost text is spliced at a statement of the loop body, so reordering / renaming does not lose an anchor.
// TERMINATION of the main loop is NOT claimed (see `execute`).
//
// STAND-INS / ASSUMPTIONS (each commented where it is declared): A-CALLEE `exec_opcode` with the frame `opcode_frame` (what an opcode may
// do to the VM), the watchdog oracle with ghost history, A-RESOURCE (< 2^64 opcode executions per run); A-CALLEE contracts proved in other
// units: `VisitedOpcodes::{mark_visited, at_visit_limit}` (unit limits), `Errors::add_located` (unit errors); type stand-ins `VM` (real field
// names; `instructions` reduced to `instructions_len`), `VMState` (visit counters + one opaque rest), opaque `DynOpcode`, `DynWatchdog`,
// `JumpTargets`, `ValueBuilder`, `KnownWord`; A-STD `VecDeque::{is_empty, front, front_mut}`, `i64::from(u32)`; A-DERIVE Clone / PartialEq / Debug.
//@dropped VM::new (establishes execute's preconditions: one well-formed thread with no gas used), VM::consume / fork_current_thread / enqueue_thread / store_error / the accessors handed to opcodes (units control, watchdog), InstructionStream (reduced to its length: `instructions_len()` is an A-CALLEE accessor)
//@dropped the dynamic dispatch `instruction.execute(self)` (Rc<dyn Opcode>): R-CALL to the stand-in `exec_opcode`; what the opcodes do is units control / alu_ops / stack / watchdog / storage; here only the FRAME `opcode_frame` is assumed (checked by reading src/opcode/*.rs, see its comment)
//@dropped termination of the main loop (C03 first sentence): `#[verifier::exec_allows_no_decreases_clause]`; everything proved about `execute` is partial correctness; bounded stand-in: witness driver c03
//@dropped `Watchdog::should_stop(&self)` takes a shared reference in the repository (the oracle's state is external); the stand-in takes `&mut` so that the ghost poll counter can advance - the call text `self.watchdog.should_stop()` is unchanged
//@dropped D14 (a forked thread executes its first JUMPDEST without the visit-limit check) is not visible here: `advance` checks the limit of ip+1 only, as its contract says, and nothing is claimed about the first instruction of a queued thread
#![feature(allocator_api)]   // only to name `VecDeque<T, A>` in the A-STD specifications below (assume_specification must match std's signature)
use vstd::prelude::*;

verus! {
// A-CALLEE (type stand-in): payload type of Error::InvalidOffsetForJump, never built nor inspected here
#[verifier::external_body]
pub struct KnownWord { _opaque: u8 }
} // verus!

pub mod container {
use vstd::prelude::*;
verus! {
//@include stack/container_items.rs

// A-DERIVE: #[derive(Debug)] on Located (only a bound of `Result::expect`, whose failure branch is proved unreachable)
#[verifier::external]
impl<E: Clone> std::fmt::Debug for Located<E> { fn fmt(&self, _f: &mut std::fmt::Formatter<'_>) -> std::fmt::Result { unimplemented!() } }
// A-DERIVE: #[derive(Clone)] on Located / Errors<E>: an equal value / every recorded error, in order
impl<E: Clone> Clone for Located<E> {
    #[verifier::external_body]
    fn clone(&self) -> (r: Self) ensures r == *self { unimplemented!() }
}
impl<E: Clone> Clone for Errors<E> {
    #[verifier::external_body]
    fn clone(&self) -> (r: Self) ensures r.log() == self.log() { unimplemented!() }
}
impl<E: Clone> Errors<Located<E>> {
    // A-CALLEE (PROVED in unit errors, clauses C17.errors.add_located.keeps_every_error_adds_exactly_one / .len, on the
    // real text of `add_located` + `sort` over the assumed stable `sort_by_key`): the error is recorded under the offset
    // handed in and every earlier error is kept; the buffer is re-sorted by location, hence the multiset formulation
    #[verifier::external_body]
    pub fn add_located(&mut self, instruction_pointer: u32, payload: E)
        ensures
            final(self).log().to_multiset() == old(self).log().to_multiset().insert(Located { location: instruction_pointer, payload }),
            final(self).log().len() == old(self).log().len() + 1,
    { unimplemented!() }
}
//@extract file=src/error/container.rs path="impl<E> Default for Errors<E>" kind=header
//@end
//@extract file=src/error/container.rs path="impl<E> Default for Errors<E>|fn default" id=container::Errors::default
//@ret r
//@spec
        ensures r.log() == Seq::<E>::empty(),
//@end
}
// the conversion `?` applies to a located error (real text, contract as in unit errors; Verus does not apply it at a `?` - see R-TRY in `execute`)
impl<E> vstd::std_specs::convert::FromSpecImpl<E> for Errors<E> {
    open spec fn obeys_from_spec() -> bool { false }
    open spec fn from_spec(v: E) -> Errors<E> { arbitrary() }
}
//@extract file=src/error/container.rs path="impl<E> From<E> for Errors<E>" kind=header
//@rw R-SIG
//@old
E: std::error::Error,
//@new
E: Sized,
//@end
//@extract file=src/error/container.rs path="impl<E> From<E> for Errors<E>|fn from" id=container::Errors::from_one
//@ret r
//@spec
        ensures r.log() == seq![value],              //@ob C17.loop.errors_from_one.lists_it
//@end
}
} // verus!
}

pub mod execution {
use vstd::prelude::*;
use super::{container, KnownWord};
verus! {
//@include stack/execution_items.rs

// A-DERIVE: #[derive(PartialEq, Eq)] on Error is structural equality
impl vstd::std_specs::cmp::PartialEqSpecImpl for Error {
    open spec fn obeys_eq_spec() -> bool { true }
    open spec fn eq_spec(&self, other: &Error) -> bool { *self == *other }
}
impl PartialEq for Error {
    #[verifier::external_body]
    fn eq(&self, other: &Error) -> (r: bool) { unimplemented!() }
}
} // verus!
}
/// the repository's module path `error::{container, execution}`
pub mod error { pub use super::container; pub use super::execution; }

pub mod vm {
use vstd::prelude::*;
use std::collections::VecDeque;
use std::rc::Rc;
use super::error::{self, container::{Locatable, Located}, execution::{Error, Errors, LocatedError, Result}};
verus! {
// ---- A-STD: the three VecDeque methods of the loop that vstd does not specify (it has new/len/push_back/pop_front/index..) ----
// A-STD: VecDeque::is_empty
pub assume_specification<T, A: core::alloc::Allocator>[VecDeque::<T, A>::is_empty](v: &VecDeque<T, A>) -> (r: bool)
    ensures r == (v@.len() == 0);
// A-STD: VecDeque::front_mut hands out the first element (None iff empty); what is written through it replaces the first element
pub assume_specification<T, A: core::alloc::Allocator>[VecDeque::<T, A>::front_mut](v: &mut VecDeque<T, A>) -> (r: Option<&mut T>)
    ensures
        old(v)@.len() == 0 ==> r is None && final(v)@ == old(v)@,
        old(v)@.len() > 0 ==> r is Some && *r->Some_0 == old(v)@[0] && final(v)@ == old(v)@.update(0, *final(r->Some_0));
// A-STD: VecDeque::front
pub assume_specification<T, A: core::alloc::Allocator>[VecDeque::<T, A>::front](v: &VecDeque<T, A>) -> (r: Option<&T>)
    ensures
        v@.len() == 0 ==> r is None,
        v@.len() > 0 ==> r is Some && *r->Some_0 == v@[0];

// ---- instructions ----------------------------------------------------------------------------------------
/// A-CALLEE (opaque stand-in for `DynOpcode = Rc<dyn Opcode>`): an instruction of the stream.  The real alias cannot be
/// used: VM -> VMThread -> ExecutionThread -> dyn Opcode -> execute(&mut VM) is a type/trait cycle Verus rejects.
/// A-DERIVE: Rc::clone returns the same instruction.
#[verifier::external_body]
pub struct DynOpcode { _opaque: u8 }
impl Clone for DynOpcode {
    #[verifier::external_body]
    fn clone(&self) -> (r: Self) ensures r == *self { unimplemented!() }
}
/// the minimum gas an instruction costs
pub uninterp spec fn gas_cost(o: DynOpcode) -> usize;
impl DynOpcode {
    // A-CALLEE: Opcode::min_gas_cost is a constant of the instruction
    #[verifier::external_body]
    pub fn min_gas_cost(&self) -> (r: usize) ensures r == gas_cost(*self) { unimplemented!() }
}
/// A-CALLEE (opaque stand-ins for `dyn Opcode` / `dyn Any` and marker types for the two jump instructions): the downcast chain
/// `instr.as_any().is::<T>()` (downcast_rs::Downcast::as_any, Any::is) is a pure test of the instruction's concrete type; nothing
/// else is assumed about it - in particular NOT which errors an instruction of a given type can return.  The loop as it stands
/// does not use it; it is declared so that an edit that dispatches on the instruction's type reaches the contracts.
#[verifier::external_body]
pub struct OpcodeObject { _opaque: u8 }
#[verifier::external_body]
pub struct AnyObject { _opaque: u8 }
pub struct Jump;
pub struct JumpI;
pub uninterp spec fn object_of(o: DynOpcode) -> OpcodeObject;
pub uninterp spec fn any_of(o: OpcodeObject) -> AnyObject;
pub uninterp spec fn any_is<T>(a: AnyObject) -> bool;
impl DynOpcode {
    #[verifier::external_body]
    pub fn as_ref(&self) -> (r: &OpcodeObject) ensures *r == object_of(*self) { unimplemented!() }
    #[verifier::external_body]
    pub fn as_any(&self) -> (r: &AnyObject) ensures *r == any_of(object_of(*self)) { unimplemented!() }
}
impl OpcodeObject {
    #[verifier::external_body]
    pub fn as_any(&self) -> (r: &AnyObject) ensures *r == any_of(*self) { unimplemented!() }
}
impl AnyObject {
    #[verifier::external_body]
    pub fn is<T: 'static>(&self) -> (r: bool) ensures r == any_is::<T>(*self) { unimplemented!() }
}
//@extract file=src/opcode/mod.rs path="type ExecuteResult" kind=type
//@end

//@extract file=src/disassembly/mod.rs path="struct ExecutionThread" kind=type
//@end
impl ExecutionThread {
    pub closed spec fn ip(&self) -> u32 { self.instruction_pointer }
    pub closed spec fn code(&self) -> Seq<DynOpcode> { self.instructions@ }
}
// A-STD: core's `impl From<u32> for i64` is the lossless widening conversion (as in unit threads)
pub broadcast axiom fn axiom_i64_from_u32_obeys()
    ensures #[trigger] <i64 as vstd::std_specs::convert::FromSpec<u32>>::obeys_from_spec();
pub broadcast axiom fn axiom_i64_from_u32(x: u32)
    ensures #[trigger] <i64 as vstd::std_specs::convert::FromSpec<u32>>::from_spec(x) == x as i64;
/// where a relative movement by `jump` would land (mathematical integer)
pub open spec fn target(ip: u32, jump: i64) -> int { ip as int + jump as int }
//@extract file=src/disassembly/mod.rs path="impl ExecutionThread" kind=header
//@end
//@extract file=src/disassembly/mod.rs path="impl ExecutionThread|fn instruction_pointer"
//@ret r
//@spec
        ensures r == self.ip(),
//@end
//@extract file=src/disassembly/mod.rs path="impl ExecutionThread|fn current"
//@ret r
//@spec
        requires (self.ip() as int) < self.code().len(),
        ensures r == self.code()[self.ip() as int],
//@end
//@extract file=src/disassembly/mod.rs path="impl ExecutionThread|fn step"
//@ret r
//@spec
        ensures
            final(self).code() == old(self).code(),
            old(self).ip() + 1 < old(self).code().len() && old(self).code().len() <= u32::MAX ==> final(self).ip() == old(self).ip() + 1,
            old(self).ip() + 1 >= old(self).code().len() ==> final(self).ip() == old(self).ip(),
//@end
//@extract file=src/disassembly/mod.rs path="impl ExecutionThread|fn jump_by"
//@ret r
//@spec
        requires target(old(self).ip(), jump) <= i64::MAX,
        ensures
            final(self).code() == old(self).code(),
            0 <= target(old(self).ip(), jump) < old(self).code().len() && target(old(self).ip(), jump) <= u32::MAX ==> final(self).ip() == target(old(self).ip(), jump),
            !(0 <= target(old(self).ip(), jump) < old(self).code().len() && target(old(self).ip(), jump) <= u32::MAX) ==> final(self).ip() == old(self).ip(),
//@proof entry
        broadcast use axiom_i64_from_u32, axiom_i64_from_u32_obeys;
//@end
}

// ---- the per-thread visit counter ---------------------------------------------------------------------------
/// A-CALLEE (opaque stand-in for `VisitedOpcodes`, src/vm/data.rs).  The contracts of the two methods are the ones PROVED
/// on the real text in unit limits (C03.limits.mark_visited.*, C03.limits.at_visit_limit.exact_comparison), copied verbatim.
#[verifier::external_body]
pub struct VisitedOpcodes { _opaque: u8 }
pub open spec fn is_oob(r: LocatedError, ip: u32, len: u32) -> bool {
    r.location == ip && r.payload == (Error::InstructionPointerOutOfBounds { requested: ip as usize, available: len as usize })
}
impl VisitedOpcodes {
    /// how often `ip` has been counted
    pub uninterp spec fn count(&self, ip: u32) -> nat;
    pub uninterp spec fn max(&self) -> nat;
    pub uninterp spec fn len(&self) -> u32;
    #[verifier::external_body]
    pub fn mark_visited(&mut self, instruction_pointer: u32) -> (r: Result<()>)
        ensures
            final(self).max() == old(self).max(), final(self).len() == old(self).len(),
            instruction_pointer < old(self).len() ==> r is Ok
                && final(self).count(instruction_pointer) == (if old(self).count(instruction_pointer) == usize::MAX { usize::MAX as nat } else { old(self).count(instruction_pointer) + 1 }),
            forall|o: u32| o != instruction_pointer ==> final(self).count(o) == old(self).count(o),
            instruction_pointer >= old(self).len() ==> r is Err && is_oob(r->Err_0, instruction_pointer, old(self).len())
                && forall|o: u32| final(self).count(o) == old(self).count(o),
    { unimplemented!() }
    #[verifier::external_body]
    pub fn at_visit_limit(&self, instruction_pointer: u32) -> (r: Result<bool>)
        ensures
            instruction_pointer < self.len() ==> r is Ok && r->Ok_0 == (self.count(instruction_pointer) >= self.max()),
            instruction_pointer >= self.len() ==> r is Err && is_oob(r->Err_0, instruction_pointer, self.len()),
    { unimplemented!() }
}

// ---- thread state ---------------------------------------------------------------------------------------------
/// A-CALLEE (opaque): everything of a `VMState` but its visit counters (stack, memory, storage, recorded and logged values, fork point)
#[verifier::external_body]
pub struct OtherState { _opaque: u8 }
/// A-CALLEE (type stand-in for `VMState`): the one field the loop reaches, under its real name, and the rest as one opaque value
pub struct VMState {
    visited_instructions: VisitedOpcodes,
    other: OtherState,
}
// A-DERIVE: #[derive(Clone)] on VisitedOpcodes / VMState returns an equal value (not used by the loop as it stands; declared so
// that an edit that copies a state reaches the contracts instead of stopping at "no method named clone")
impl Clone for VMState {
    #[verifier::external_body]
    fn clone(&self) -> (r: Self) ensures r == *self { unimplemented!() }
}
impl VMState {
    pub closed spec fn visited(&self) -> VisitedOpcodes { self.visited_instructions }
    pub closed spec fn rest(&self) -> OtherState { self.other }
}
//@extract file=src/vm/state/mod.rs path="impl VMState" kind=header
//@end
//@extract file=src/vm/state/mod.rs path="impl VMState|fn visited_instructions"
//@ret r
//@spec
        ensures *r == self.visited(),
//@end
//@extract file=src/vm/state/mod.rs path="impl VMState|fn visited_instructions_mut"
//@ret r
//@spec
        ensures *r == old(self).visited(), final(self).visited() == *final(r), final(self).rest() == old(self).rest(),
//@end
}

//@extract file=src/vm/thread.rs path="struct VMThread" kind=type
//@end
impl VMThread {
    pub closed spec fn st(&self) -> VMState { self.state }
    pub closed spec fn et(&self) -> ExecutionThread { self.thread }
    pub closed spec fn gas(&self) -> usize { self.gas_usage }
    /// instruction pointer / code / visit counter of the thread
    pub open spec fn ip(&self) -> u32 { self.et().ip() }
    pub open spec fn code(&self) -> Seq<DynOpcode> { self.et().code() }
    pub open spec fn count(&self, o: u32) -> nat { self.st().visited().count(o) }
    /// the type invariants of a thread of a VM over `len` instructions: the pointer names an instruction (ExecutionThread),
    /// the thread runs the VM's code, and its visit counter was made for it (VMState::new: VisitedOpcodes::new(instructions_len, ..))
    pub open spec fn wf(&self, len: u32) -> bool {
        &&& self.code().len() == len
        &&& self.ip() < len
        &&& self.st().visited().len() == len
    }
}
//@extract file=src/vm/thread.rs path="impl VMThread" kind=header
//@end
//@extract file=src/vm/thread.rs path="impl VMThread|fn state"
//@ret r
//@spec
        ensures *r == self.st(),
//@end
//@extract file=src/vm/thread.rs path="impl VMThread|fn state_mut"
//@ret r
//@spec
        ensures *r == old(self).st(), final(self).st() == *final(r), final(self).et() == old(self).et(), final(self).gas() == old(self).gas(),
//@end
//@extract file=src/vm/thread.rs path="impl VMThread|fn instructions"
//@ret r
//@spec
        ensures *r == self.et(),
//@end
//@extract file=src/vm/thread.rs path="impl VMThread|fn instructions_mut"
//@ret r
//@spec
        ensures *r == old(self).et(), final(self).et() == *final(r), final(self).st() == old(self).st(), final(self).gas() == old(self).gas(),
//@end
//@extract file=src/vm/thread.rs path="impl VMThread|fn consume_gas"
//@spec
        requires old(self).gas() + gas <= usize::MAX,
        ensures final(self).gas() == old(self).gas() + gas, final(self).st() == old(self).st(), final(self).et() == old(self).et(),      //@ob C03.loop.consume_gas.adds_exactly
//@end
//@extract file=src/vm/thread.rs path="impl VMThread|fn gas_usage"
//@ret r
//@spec
        ensures r == self.gas(),
//@end
}
impl vstd::std_specs::convert::FromSpecImpl<VMThread> for VMState {
    open spec fn obeys_from_spec() -> bool { true }
    open spec fn from_spec(v: VMThread) -> VMState { v.st() }
}
//@extract file=src/vm/thread.rs path="impl From<VMThread> for VMState" kind=header
//@end
//@extract file=src/vm/thread.rs path="impl From<VMThread> for VMState|fn from"
//@ret r
//@spec
        ensures r == value.st(),      //@ob C06.loop.thread_into_state.keeps_the_state
//@end
}

// ---- the watchdog ------------------------------------------------------------------------------------------
/// what the k-th poll of the run answers: `true` = stop.  Arbitrary: the contracts hold for every oracle.
pub uninterp spec fn answer(k: nat) -> bool;
/// A-CALLEE (opaque stand-in for `DynWatchdog = Rc<dyn Watchdog>`).  THE WATCHDOG IS AN EXTERNAL, TIME-VARYING ORACLE; as in
/// unit watchdog it is modelled by GHOST POLL HISTORY (`polls()` = polls made so far; the k-th poll answers `answer(k)`).
/// The same opaque value carries the rest of the GHOST RUN HISTORY this unit needs (auxiliary variables: they are written
/// only by the stand-ins below and read only by specifications, so they cannot influence what the code does):
///   `inner_polls()`  how many of the polls were made from INSIDE an opcode (the bulk-copy loops of unit watchdog)
///   `executed()`     how many opcodes have been executed so far
///   `before_op()`, `after_op()`, `op_result()`, `last_op()`   the VM the LAST executed opcode was started on, the VM it
///                    left behind, what it returned, and which instruction it was
#[verifier::external_body]
pub struct DynWatchdog { _opaque: u8 }
impl DynWatchdog {
    pub uninterp spec fn polls(&self) -> nat;
    pub uninterp spec fn interval(&self) -> usize;
    pub uninterp spec fn inner_polls(&self) -> nat;
    pub uninterp spec fn executed(&self) -> nat;
    pub uninterp spec fn before_op(&self) -> VM;
    pub uninterp spec fn after_op(&self) -> VM;
    pub uninterp spec fn op_result(&self) -> ExecuteResult;
    pub uninterp spec fn last_op(&self) -> DynOpcode;
    /// everything but the poll counter
    pub open spec fn same_but_polls(&self, o: &DynWatchdog) -> bool {
        &&& self.interval() == o.interval()
        &&& self.inner_polls() == o.inner_polls()
        &&& self.executed() == o.executed()
        &&& self.before_op() == o.before_op()
        &&& self.after_op() == o.after_op()
        &&& self.op_result() == o.op_result()
        &&& self.last_op() == o.last_op()
    }
    // A-CALLEE: Watchdog::should_stop answers what the oracle answers to this poll, and the poll is counted.  (`&mut`: the
    // repository's method takes `&self`, the oracle's state is external; the call text `self.watchdog.should_stop()` is unchanged.)
    #[verifier::external_body]
    pub fn should_stop(&mut self) -> (r: bool)
        ensures r == answer(old(self).polls()), final(self).polls() == old(self).polls() + 1, final(self).same_but_polls(old(self)),
    { unimplemented!() }
    // A-CALLEE: Watchdog::poll_every returns the fixed interval and is not a poll
    #[verifier::external_body]
    pub fn poll_every(&self) -> (r: usize)
        ensures r == self.interval(),
    { unimplemented!() }
}

/// A-CALLEE (opaque stand-ins for `JumpTargets`, `ValueBuilder`): not touched by the loop
#[verifier::external_body]
pub struct JumpTargets { _opaque: u8 }
#[verifier::external_body]
pub struct ValueBuilder { _opaque: u8 }
//@extract file=src/vm/mod.rs path="struct Config" kind=type
//@end

/// A-CALLEE (type stand-in for `VM`): the real field names and types, except `instructions: InstructionStream`, which is
/// reduced to its length `instructions_len: u32`
pub struct VM {
    pub instructions_len: u32,
    pub jump_targets: JumpTargets,
    pub thread_queue: VecDeque<VMThread>,
    pub stored_states: Vec<VMState>,
    pub config: Config,
    pub current_thread_killed: bool,
    pub errors: Errors,
    pub builder: ValueBuilder,
    pub watchdog: DynWatchdog,
}
impl VM {
    /// the thread queue, current thread first
    pub open spec fn q(&self) -> Seq<VMThread> { self.thread_queue@ }
    /// the collected states of the threads that have ended, oldest first
    pub open spec fn stored(&self) -> Seq<VMState> { self.stored_states@ }
    /// the error log
    pub open spec fn log(&self) -> Seq<LocatedError> { self.errors.log() }
    /// the type invariant of the queue: every thread is a thread of this VM's code (see VMThread::wf)
    pub open spec fn wf(&self) -> bool { threads_wf(self.q(), self.instructions_len) }
    /// everything but the thread queue, the stored states, the error log and the kill flag
    pub open spec fn same_rest(&self, o: &VM) -> bool {
        &&& self.instructions_len == o.instructions_len
        &&& self.jump_targets == o.jump_targets
        &&& self.config == o.config
        &&& self.builder == o.builder
        &&& self.watchdog == o.watchdog
    }
    /// GHOST: polls made so far (all / by the main loop itself), opcodes executed so far
    pub open spec fn polls(&self) -> nat { self.watchdog.polls() }
    pub open spec fn own_polls(&self) -> int { self.watchdog.polls() - self.watchdog.inner_polls() }
    pub open spec fn executed(&self) -> nat { self.watchdog.executed() }
    /// C03: no queued thread has used more gas than the limit (VM::new: one thread that has used none)
    pub open spec fn gas_within(&self) -> bool { threads_gas_within(self.q(), self.config.gas_limit, 0) }
    /// ... the same for the threads waiting behind the current one
    pub open spec fn gas_within_behind_front(&self) -> bool { threads_gas_within(self.q(), self.config.gas_limit, 1) }
    // A-CALLEE: VM::instructions_len = `self.instructions.len().try_into().unwrap_or_else(|_| panic!(..))`; the stand-in keeps
    // the length itself (an InstructionStream never holds more than u32::MAX instructions: the disassembler refuses)
    fn instructions_len(&self) -> (r: u32) ensures r == self.instructions_len { self.instructions_len }
}

/// every thread of the queue is well-formed for a code of `len` instructions.  Kept OPAQUE to the solver (the quantifier is costly
/// in the loop body, where a dozen VM states are alive); what the loop needs of it are the four proved lemmas below.
#[verifier::opaque]
pub open spec fn threads_wf(q: Seq<VMThread>, len: u32) -> bool { forall|i: int| 0 <= i < q.len() ==> (#[trigger] q[i]).wf(len) }
/// every thread of the queue from position `from` on has used no more gas than `limit`
#[verifier::opaque]
pub open spec fn threads_gas_within(q: Seq<VMThread>, limit: usize, from: int) -> bool { forall|i: int| from <= i < q.len() ==> (#[trigger] q[i]).gas() <= limit }
pub broadcast proof fn lemma_threads_wf_front(q: Seq<VMThread>, len: u32)
    requires #[trigger] threads_wf(q, len), q.len() > 0,
    ensures q[0].wf(len),
{ reveal(threads_wf); }
pub broadcast proof fn lemma_threads_wf_update_front(q: Seq<VMThread>, t: VMThread, len: u32)
    requires threads_wf(q, len), t.wf(len),
    ensures #[trigger] threads_wf(q.update(0, t), len),
{ reveal(threads_wf); }
pub broadcast proof fn lemma_threads_gas_front(q: Seq<VMThread>, limit: usize)
    requires #[trigger] threads_gas_within(q, limit, 0), q.len() > 0,
    ensures q[0].gas() <= limit, threads_gas_within(q, limit, 1),
{ reveal(threads_gas_within); }
pub broadcast proof fn lemma_threads_gas_update_front(q: Seq<VMThread>, t: VMThread, limit: usize)
    requires threads_gas_within(q, limit, 1),
    ensures #[trigger] threads_gas_within(q.update(0, t), limit, 1),
{ reveal(threads_gas_within); }
pub broadcast proof fn lemma_threads_gas_update_front_within(q: Seq<VMThread>, t: VMThread, limit: usize)
    requires threads_gas_within(q, limit, 1), t.gas() <= limit,
    ensures #[trigger] threads_gas_within(q.update(0, t), limit, 0),
{ reveal(threads_gas_within); }
/// replacing the front of a queue does not change what is behind it
pub broadcast proof fn lemma_update_front_skip(q: Seq<VMThread>, t: VMThread)
    requires q.len() > 0,
    ensures #[trigger] q.update(0, t).skip(1) == q.skip(1),
{ assert(q.update(0, t).skip(1) =~= q.skip(1)); }
pub broadcast group group_queue_lemmas {
    lemma_update_front_skip, lemma_threads_wf_front, lemma_threads_wf_update_front, lemma_threads_gas_front, lemma_threads_gas_update_front, lemma_threads_gas_update_front_within,
}

/// the thread `t` after one step: same state, same gas, same code, pointer moved on by exactly one
pub open spec fn stepped(t: VMThread, s: VMThread) -> bool {
    s.st() == t.st() && s.gas() == t.gas() && s.code() == t.code() && s.ip() == t.ip() + 1
}
/// C03: the four reasons for which the current thread ends at `advance`
pub open spec fn next_is_outside_code(vm: &VM) -> bool { vm.q()[0].ip() + 1 >= vm.instructions_len }
pub open spec fn next_is_at_visit_limit(vm: &VM) -> bool { vm.q()[0].count((vm.q()[0].ip() + 1) as u32) >= vm.q()[0].st().visited().max() }
pub open spec fn gas_exceeded(vm: &VM) -> bool { vm.q()[0].gas() > vm.config.gas_limit }
pub open spec fn thread_ends(vm: &VM) -> bool {
    next_is_outside_code(vm) || next_is_at_visit_limit(vm) || gas_exceeded(vm) || vm.current_thread_killed
}
/// the current thread of `pre` is retired in `post`: the queue loses exactly its front, exactly one state more is stored
/// and it is that thread's state (C06: nothing is dropped)
pub open spec fn retired(pre: &VM, post: &VM) -> bool {
    &&& post.q() =~= pre.q().skip(1)
    &&& post.stored() =~= pre.stored().push(pre.q()[0].st())
}
/// the current thread of `pre` goes on in `post`: it is still the front, moved on by one instruction; nothing is stored
pub open spec fn goes_on(pre: &VM, post: &VM) -> bool {
    &&& post.q().len() == pre.q().len()
    &&& stepped(pre.q()[0], post.q()[0])
    &&& forall|i: int| 1 <= i < pre.q().len() ==> post.q()[i] == pre.q()[i]
    &&& post.stored() =~= pre.stored()
}


// ======================================================================================================
// The one call the verifier cannot follow: `instruction.execute(self)` through `Rc<dyn Opcode>`.
// ======================================================================================================
/// the four error kinds that describe a bad jump target (tolerated in permissive mode)
pub open spec fn is_jump_target_kind(e: Error) -> bool {
    e is InvalidOffsetForJump || e is InvalidJumpTarget || e is NonExistentJumpTarget || e is NoConcreteJumpDestination
}
/// the outcome is the stopped-by-watchdog error
pub open spec fn stopped(r: ExecuteResult) -> bool { r is Err && r->Err_0.payload is StoppedByWatchdog }
/// every poll with index in [from, to) answered continue
pub open spec fn every_poll_continued(from: nat, to: nat) -> bool { forall|k: nat| from <= k < to ==> !answer(k) }
/// the error list ends with the watchdog's stop / consists of nothing but the watchdog's stop
pub open spec fn lists_the_stop(l: Seq<LocatedError>) -> bool { l.len() > 0 && l.last().payload is StoppedByWatchdog }
pub open spec fn lists_only_the_stop(l: Seq<LocatedError>) -> bool { l.len() == 1 && l[0].payload is StoppedByWatchdog }
/// every poll with index in [from, to) except the last one answered continue (no poll is made after a stop answer)
pub open spec fn every_poll_but_the_last_continued(from: nat, to: nat) -> bool { forall|k: nat| from <= k && k + 1 < to ==> !answer(k) }
/// what an opcode leaves of the CURRENT thread `t`: its gas and visit counters are not the opcode's business, it stays in its
/// code, and its pointer (JUMP moves it) still names an instruction
pub open spec fn current_after_opcode(t: VMThread, s: VMThread) -> bool {
    &&& s.gas() == t.gas()
    &&& s.st().visited() == t.st().visited()
    &&& s.code() == t.code()
    &&& (t.ip() as int) < t.code().len() ==> (s.ip() as int) < s.code().len()
}
/// a thread an opcode adds to the queue is a fork of the current thread `t` (JUMPI: `fork_current_thread`): it inherits gas
/// usage and visit counters, runs the same code and starts at an instruction of it
pub open spec fn is_fork_of(f: VMThread, t: VMThread) -> bool {
    &&& f.gas() == t.gas()
    &&& f.st().visited() == t.st().visited()
    &&& f.code() == t.code()
    &&& (t.ip() as int) < t.code().len() ==> (f.ip() as int) < f.code().len()
}
/// A-CALLEE: THE FRAME ASSUMED FOR EVERY OPCODE (`impl Opcode for * :: execute`, src/opcode/*.rs), checked by reading them:
/// an opcode reaches the VM through `state()`, `stack_handle()`, `instruction_pointer()`, `build()`, `config()`, `watchdog()`,
/// `execution_thread_mut()` (JUMP: `jump(target)`), `jump_targets_mut()` + `fork_current_thread()` (JUMPI), `kill_current_thread()`
/// (STOP, INVALID, RETURN, REVERT, SELFDESTRUCT, JUMP on an unresolved target) and `store_error()` (JUMPI on a bad target).  So:
///   * code length, configuration and the stored states are not touched;
///   * the error log only grows (`store_error` appends);
///   * the kill flag may be set, never cleared;
///   * the current thread stays the front of the queue (`current_after_opcode`); the threads waiting behind it are not touched;
///     threads may be added at the back, each a fork of the current thread (`is_fork_of`); none is removed; without a current
///     thread the queue stays empty.
/// Not assumed: anything about stack, memory, storage, recorded values, jump-target counters, the builder.
#[verifier::opaque]
pub open spec fn opcode_frame(pre: &VM, post: &VM) -> bool {
    &&& post.instructions_len == pre.instructions_len
    &&& post.config == pre.config
    &&& post.stored() == pre.stored()
    &&& pre.log().is_prefix_of(post.log())
    &&& pre.current_thread_killed ==> post.current_thread_killed
    &&& pre.q().len() == 0 ==> post.q() == pre.q()
    &&& pre.q().len() > 0 ==> {
        &&& post.q().len() >= pre.q().len()
        &&& current_after_opcode(pre.q()[0], post.q()[0])
        &&& forall|i: int| 1 <= i < pre.q().len() ==> #[trigger] post.q()[i] == pre.q()[i]
        &&& forall|i: int| pre.q().len() <= i < post.q().len() ==> is_fork_of(#[trigger] post.q()[i], pre.q()[0])
    }
}
/// what the loop needs of the frame (PROVED from its definition; the definition itself is kept opaque to the solver)
pub broadcast proof fn lemma_opcode_frame(pre: &VM, post: &VM)
    requires #[trigger] opcode_frame(pre, post),
    ensures
        post.instructions_len == pre.instructions_len, post.config == pre.config, post.stored() == pre.stored(),
        pre.current_thread_killed ==> post.current_thread_killed,
        pre.q().len() > 0 ==> post.q().len() >= pre.q().len() && current_after_opcode(pre.q()[0], post.q()[0]),
        // an opcode keeps the queue well-formed and within the gas limit (forks inherit the current thread's gas)
        pre.wf() ==> post.wf(),
        pre.gas_within() ==> post.gas_within(),
{
    reveal(opcode_frame);
    reveal(threads_wf);
    reveal(threads_gas_within);
    if pre.wf() {
        assert forall|i: int| 0 <= i < post.q().len() implies (#[trigger] post.q()[i]).wf(post.instructions_len) by {
            if pre.q().len() > 0 {
                if i == 0 { assert(pre.q()[0].wf(pre.instructions_len)); }
                else if i < pre.q().len() { assert(post.q()[i] == pre.q()[i]); assert(pre.q()[i].wf(pre.instructions_len)); }
                else { assert(is_fork_of(post.q()[i], pre.q()[0])); assert(pre.q()[0].wf(pre.instructions_len)); }
            }
        }
    }
    if pre.gas_within() {
        assert forall|i: int| 0 <= i < post.q().len() implies (#[trigger] post.q()[i]).gas() <= post.config.gas_limit by {
            if pre.q().len() > 0 {
                if i == 0 { assert(pre.q()[0].gas() <= pre.config.gas_limit); }
                else if i < pre.q().len() { assert(post.q()[i] == pre.q()[i]); assert(pre.q()[i].gas() <= pre.config.gas_limit); }
                else { assert(is_fork_of(post.q()[i], pre.q()[0])); assert(pre.q()[0].gas() <= pre.config.gas_limit); }
            }
        }
    }
}
/// R-CALL stand-in for `instruction.execute(self)`.  A-CALLEE, three parts:
/// (1) GHOST RUN HISTORY: the execution is counted and recorded (see DynWatchdog);
/// (2) THE WATCHDOG (the contract PROVED for the five polling bodies in unit watchdog, clauses C13.wd.*.stopped_at_the_first_stop_answer
///     / every_poll_continued_unless_stopped; every other opcode neither polls nor builds this error): the opcode returns
///     StoppedByWatchdog only if the last poll it made answered stop and every earlier one answered continue, and any other outcome
///     only if every poll it made answered continue; polls made here are inner polls; the interval does not change;
/// (3) THE FRAME `opcode_frame`.
/// A-RESOURCE: fewer than 2^64 - 1 opcodes are executed in one run (at 1 ns each that is 584 years).  This is what keeps the
/// loop counter `counter += 1` (a usize, overflow-checked in every profile) from overflowing; nothing in the code bounds it.
#[verifier::external_body]
pub fn exec_opcode(instruction: &DynOpcode, vm: &mut VM) -> (r: ExecuteResult)
    ensures
        final(vm).watchdog.executed() == old(vm).watchdog.executed() + 1,
        final(vm).watchdog.executed() < usize::MAX,
        final(vm).watchdog.before_op() == *old(vm),
        final(vm).watchdog.after_op() == *final(vm),
        final(vm).watchdog.op_result() == r,
        final(vm).watchdog.last_op() == *instruction,
        final(vm).watchdog.interval() == old(vm).watchdog.interval(),
        final(vm).polls() >= old(vm).polls(),
        final(vm).own_polls() == old(vm).own_polls(),
        stopped(r) ==> final(vm).polls() > old(vm).polls() && answer((final(vm).polls() - 1) as nat) && every_poll_but_the_last_continued(old(vm).polls(), final(vm).polls()),
        !stopped(r) ==> every_poll_continued(old(vm).polls(), final(vm).polls()),
        opcode_frame(old(vm), final(vm)),
{ unimplemented!() }

// ======================================================================================================
// Arithmetic of "once per `every` iterations, starting with the first" = ceil(n / every)  (as in unit watchdog)
// ======================================================================================================
#[verifier::opaque]
pub open spec fn polls_due(iterations: nat, every: nat) -> nat { if every == 0 { 0 } else { ((iterations + every - 1) as nat) / every } }
/// one more iteration costs one more poll exactly when its index is a multiple of the interval
pub proof fn lemma_polls_due_step(c: nat, e: nat)
    requires e >= 1,
    ensures polls_due(c + 1, e) == polls_due(c, e) + (if c % e == 0 { 1nat } else { 0nat }),
{
    reveal(polls_due);
    let q = (c / e) as int;
    let r = (c % e) as int;
    let d = e as int;
    vstd::arithmetic::div_mod::lemma_fundamental_div_mod(c as int, d);
    assert(c as int == q * d + r) by (nonlinear_arith) requires c as int == d * q + r;
    assert((q + 1) * d == q * d + d) by (nonlinear_arith);
    if r == 0 {
        vstd::arithmetic::div_mod::lemma_fundamental_div_mod_converse(c as int + d - 1, d, q, d - 1);
        vstd::arithmetic::div_mod::lemma_fundamental_div_mod_converse(c as int + d, d, q + 1, 0);
    } else {
        vstd::arithmetic::div_mod::lemma_fundamental_div_mod_converse(c as int + d - 1, d, q + 1, r - 1);
        vstd::arithmetic::div_mod::lemma_fundamental_div_mod_converse(c as int + d, d, q + 1, r);
    }
    assert(((c + e - 1) as nat) as int == c as int + d - 1);
    assert(((c + 1 + e - 1) as nat) as int == c as int + d);
}
pub proof fn lemma_polls_due_zero(e: nat)
    requires e >= 1,
    ensures polls_due(0, e) == 0,
{
    reveal(polls_due);
    vstd::arithmetic::div_mod::lemma_fundamental_div_mod_converse((e - 1) as int, e as int, 0, (e - 1) as int);
}

// ======================================================================================================
// One iteration of the main loop, written from the property statements.  `pre` = the VM at the loop head, `b` = the VM the
// opcode was started on, `a` = the VM the opcode left behind, `res` = what it returned, `post` = the VM after `advance`.
// ======================================================================================================
/// the visit counter of `ip` is one higher (it saturates at usize::MAX), every other counter is unchanged
pub open spec fn marked(v0: VisitedOpcodes, v1: VisitedOpcodes, ip: u32) -> bool {
    &&& v1.count(ip) == (if v0.count(ip) == usize::MAX { usize::MAX as nat } else { v0.count(ip) + 1 })
    &&& forall|o: u32| o != ip ==> v1.count(o) == v0.count(o)
    &&& v1.max() == v0.max() && v1.len() == v0.len()
}
/// C03: the instruction is marked visited BEFORE it is executed (so that a fork made by it inherits the mark) ...
pub open spec fn marks_current_instruction(pre: &VM, b: &VM) -> bool {
    &&& b.q().len() == pre.q().len()
    &&& marked(pre.q()[0].st().visited(), b.q()[0].st().visited(), pre.q()[0].ip())
    &&& b.q()[0].st().rest() == pre.q()[0].st().rest() && b.q()[0].et() == pre.q()[0].et() && b.q()[0].gas() == pre.q()[0].gas()
}
/// ... and nothing else happens before the opcode runs
pub open spec fn nothing_else_before_opcode(pre: &VM, b: &VM) -> bool {
    &&& forall|i: int| 1 <= i < pre.q().len() ==> #[trigger] b.q()[i] == pre.q()[i]
    &&& b.stored() == pre.stored() && b.log() == pre.log() && b.current_thread_killed == pre.current_thread_killed
    &&& b.config == pre.config && b.instructions_len == pre.instructions_len
}
/// gas the current thread has used once the opcode's result is accounted for: `min_gas_cost` is consumed on Ok only
pub open spec fn gas_after(a: &VM, res: ExecuteResult, op: DynOpcode) -> int { a.q()[0].gas() + (if res is Ok { gas_cost(op) as int } else { 0 }) }
/// C17: the error an opcode returns is tolerated - not recorded - exactly in permissive mode for the four jump-target kinds
pub open spec fn tolerated(a: &VM, res: ExecuteResult) -> bool { a.config.permissive_errors && is_jump_target_kind(res->Err_0.payload) }
/// C17: the error log once the opcode's result is dealt with: an error is appended, unless it is tolerated; Ok records nothing
pub open spec fn log_after_opcode_result(a: &VM, res: ExecuteResult) -> Seq<LocatedError> {
    if res is Err && !tolerated(a, res) { a.log().push(res->Err_0) } else { a.log() }
}
/// C03/C08: the current thread ends in this iteration iff ...
pub open spec fn ends_now(a: &VM, res: ExecuteResult, op: DynOpcode) -> bool {
    ||| res is Err                                  // the opcode failed (in EVERY mode, tolerated or not: a failed jump never falls through)
    ||| a.current_thread_killed                     // the opcode halted the path
    ||| next_is_outside_code(a)                     // it ran off the end of the code
    ||| next_is_at_visit_limit(a)                   // the next instruction is at its visit limit
    ||| gas_after(a, res, op) > a.config.gas_limit  // it is out of gas (in both modes)
}
/// the current thread of `a` goes on in `post` with gas usage `gas`
pub open spec fn goes_on_with_gas(a: &VM, gas: int, post: &VM) -> bool {
    &&& post.q().len() == a.q().len()
    &&& post.q()[0].st() == a.q()[0].st() && post.q()[0].code() == a.q()[0].code() && post.q()[0].ip() == a.q()[0].ip() + 1 && post.q()[0].gas() == gas
    &&& forall|i: int| 1 <= i < a.q().len() ==> #[trigger] post.q()[i] == a.q()[i]
    &&& post.stored() =~= a.stored()
}

/// the VM `m` as the main loop hands it to `advance`, in terms of the VM `a` the opcode left behind: the current thread has
/// consumed the opcode's gas (on Ok), the opcode's error is recorded (unless tolerated), the thread is killed on EVERY error;
/// nothing else has changed
pub open spec fn ready_to_advance(a: &VM, res: ExecuteResult, op: DynOpcode, m: &VM) -> bool {
    &&& a.q().len() > 0 && m.q().len() == a.q().len()
    &&& m.q()[0].st() == a.q()[0].st() && m.q()[0].et() == a.q()[0].et() && m.q()[0].gas() == gas_after(a, res, op)
    &&& forall|i: int| 1 <= i < a.q().len() ==> #[trigger] m.q()[i] == a.q()[i]
    &&& m.stored() == a.stored()
    &&& m.log() == log_after_opcode_result(a, res)
    &&& m.current_thread_killed == (a.current_thread_killed || res is Err)
    &&& m.config == a.config && m.instructions_len == a.instructions_len
}
/// the clauses of one iteration that speak about the VM after `advance` (see the loop invariant of `execute`): C08 / C03 / C06 the
/// current thread ENDS - is retired, its state stored (`retired`) - for each of these reasons, and for no other; C17 what is recorded
pub open spec fn iter_failed_opcode_ends(a: &VM, res: ExecuteResult, post: &VM) -> bool { res is Err ==> retired(a, post) }
pub open spec fn iter_halting_opcode_ends(a: &VM, post: &VM) -> bool { a.current_thread_killed ==> retired(a, post) }
pub open spec fn iter_limits_end(a: &VM, post: &VM) -> bool { next_is_outside_code(a) || next_is_at_visit_limit(a) ==> retired(a, post) }
pub open spec fn iter_out_of_gas_ends(a: &VM, res: ExecuteResult, op: DynOpcode, post: &VM) -> bool { gas_after(a, res, op) > a.config.gas_limit ==> retired(a, post) }
pub open spec fn iter_goes_on(a: &VM, res: ExecuteResult, op: DynOpcode, post: &VM) -> bool {
    !ends_now(a, res, op) ==> goes_on_with_gas(a, gas_after(a, res, op), post) && !retired(a, post)
}
pub open spec fn iter_records(a: &VM, res: ExecuteResult, op: DynOpcode, post: &VM) -> bool {
    gas_after(a, res, op) <= a.config.gas_limit ==> post.log() == log_after_opcode_result(a, res)
}
pub open spec fn iteration_summary(a: &VM, res: ExecuteResult, op: DynOpcode, post: &VM) -> bool {
    &&& iter_failed_opcode_ends(a, res, post)
    &&& iter_halting_opcode_ends(a, post)
    &&& iter_limits_end(a, post)
    &&& iter_out_of_gas_ends(a, res, op, post)
    &&& iter_goes_on(a, res, op, post)
    &&& iter_records(a, res, op, post)
    &&& iter_records_gas_exhaustion(a, res, op, post)
}
pub open spec fn iter_records_gas_exhaustion(a: &VM, res: ExecuteResult, op: DynOpcode, post: &VM) -> bool {
    gas_after(a, res, op) > a.config.gas_limit ==> post.log().to_multiset()
        == log_after_opcode_result(a, res).to_multiset().insert(Located { location: a.q()[0].ip(), payload: Error::GasLimitExceeded })
}

//@extract file=src/vm/mod.rs path="impl VM" kind=header
//@end
//@extract file=src/vm/mod.rs path="impl VM|fn current_thread"
//@ret r
//@spec
        ensures
            self.q().len() > 0 ==> r is Ok && *r->Ok_0 == self.q()[0],
            self.q().len() == 0 ==> r == Err::<&VMThread, LocatedError>(Located { location: self.instructions_len, payload: Error::NoSuchThread }),
//@end
//@extract file=src/vm/mod.rs path="impl VM|fn current_thread_mut"
//@ret r
//@spec
        ensures
            old(self).q().len() > 0 ==> r is Ok && *r->Ok_0 == old(self).q()[0] && final(self).q() == old(self).q().update(0, *final(r->Ok_0)),
            old(self).q().len() == 0 ==> r is Err && r->Err_0 == (Located { location: old(self).instructions_len, payload: Error::NoSuchThread }) && final(self).q() == old(self).q(),
            final(self).same_rest(old(self)), final(self).stored_states == old(self).stored_states, final(self).errors == old(self).errors,
            final(self).current_thread_killed == old(self).current_thread_killed,
//@end
//@extract file=src/vm/mod.rs path="impl VM|fn current_instruction"
//@ret r
// R-MAP (desugaring, same shape as R-MAPERR): Verus infers no postcondition for an unannotated closure handed to `Result::map`;
// `E.map(|x| F)` is written out as `match E { Ok(x) => Ok(F), Err(e) => Err(e) }`, x and F ($1, $2) carried over verbatim
//@rw R-MAP
//@old
self.current_thread().map(|$1| $2)
}
//@new
match self.current_thread() { Ok($1) => Ok($2), Err(e) => Err(e) }
}
//@spec
        requires self.wf(),
        ensures
            self.q().len() > 0 ==> r == Ok::<DynOpcode, LocatedError>(self.q()[0].code()[self.q()[0].ip() as int]),      //@ob C08.loop.current_instruction.is_the_one_at_the_current_pointer
            self.q().len() == 0 ==> r is Err,
//@proof entry
        broadcast use group_queue_lemmas;
//@end
//@extract file=src/vm/mod.rs path="impl VM|fn kill_current_thread"
//@spec
        ensures *final(self) == (VM { current_thread_killed: true, ..*old(self) }),      //@ob C08.loop.kill_current_thread.sets_only_the_flag
//@end
// TERMINATION OF THE MAIN LOOP IS NOT CLAIMED HERE: it rests on the interplay of the visit limit, the fork budget and the gas
// limit over every control-flow shape (C03's first sentence; bounded stand-in: witness driver c03).  The attribute below
// exempts the loop from Verus' `decreases` obligation; everything proved about `execute` is PARTIAL correctness.
#[verifier::exec_allows_no_decreases_clause]
//@extract file=src/vm/mod.rs path="impl VM|fn execute" props=C03,C06,C08,C13,C17,C01
//@ret r
// R-TRY (desugaring): Verus applies the contract of the `From` impl that `?` converts the error with only for conversions it can
// express as a spec function (`Errors` owns a Vec: it cannot).  The one `?` whose converted error the contract speaks about is
// written out as what `?` means: `match X { Ok(v) => v, Err(e) => return Err(From::from(e)) }`; X's operand (its argument) is carried over
// verbatim.  `optional`: if the statement is edited away the text goes to Verus as it is.
// R-CALL: the dynamic dispatch `instruction.execute(self)` (Rc<dyn Opcode>; Verus rejects the VM -> dyn Opcode -> &mut VM cycle)
// is replaced by the stand-in `exec_opcode` with the assumed contract above; nothing else of the loop is rewritten
//@rw R-CALL
//@old
instruction.execute(self)
//@new
exec_opcode(&instruction, self)
//@rw R-TRY optional
//@old
Err(Error::StoppedByWatchdog).locate($1)?;
//@new
match Err(Error::StoppedByWatchdog).locate($1) { Ok(()) => (), Err(e) => return Err(Errors::from(e)) };
//@spec
        requires
            old(self).wf(),
            old(self).gas_within(),
            // C01 premises: `counter % poll_interval` (nothing in the repository rejects `FlagWatchdog::polling_every(0)`) ...
            old(self).watchdog.interval() >= 1,
            // ... and `gas_usage += gas` in consume_gas (overflow-checked): the gas limit leaves room for one more instruction
            forall|o: DynOpcode| old(self).config.gas_limit + #[trigger] gas_cost(o) <= usize::MAX,
        ensures
            // C17: the run succeeds only if no error was recorded; any recorded error fails it; an error result lists every
            // recorded error, or is the watchdog's stop
            r is Ok ==> final(self).log().len() == 0,                                                                  //@ob C17.loop.execute.ok_only_if_no_error_was_recorded
            final(self).log().len() > 0 ==> r is Err,                                                                  //@ob C17.loop.execute.any_recorded_error_fails_the_run
            r is Err ==> r->Err_0.log().len() > 0 && (r->Err_0.log() == final(self).log() || lists_only_the_stop(r->Err_0.log())),      //@ob C17.loop.execute.err_lists_every_recorded_error
            // C06: the run succeeds only when every thread has run to its end; stored states are never dropped; every thread is queued or stored
            r is Ok ==> final(self).q().len() == 0,                                                                    //@ob C06.loop.execute.ok_only_if_every_thread_ran_to_its_end
            old(self).stored().is_prefix_of(final(self).stored()),                                                     //@ob C06.loop.execute.stored_states_are_never_dropped
            final(self).stored().len() + final(self).q().len() >= old(self).stored().len() + old(self).q().len(),      //@ob C06.loop.execute.every_thread_is_queued_or_stored
            // C13: a stop answer at any poll - of the loop itself or inside an opcode - makes the run return the stop error; after a
            // stop answer no further poll is made; the loop polls exactly once per `poll_every` iterations, starting with the first
            (exists|k: nat| old(self).polls() <= k < final(self).polls() && answer(k)) ==> r is Err && lists_the_stop(r->Err_0.log()),      //@ob C13.loop.execute.stop_answer_is_reported
            every_poll_but_the_last_continued(old(self).polls(), final(self).polls()),                                  //@ob C13.loop.execute.no_poll_after_a_stop_answer
            r is Ok ==> final(self).own_polls() - old(self).own_polls() == polls_due((final(self).executed() - old(self).executed()) as nat, old(self).watchdog.interval() as nat),      //@ob C13.loop.execute.polls_once_per_interval
            final(self).own_polls() - old(self).own_polls() >= polls_due((final(self).executed() - old(self).executed()) as nat, old(self).watchdog.interval() as nat),      //@ob C13.loop.execute.never_fewer_polls_than_promised
            final(self).own_polls() - old(self).own_polls() <= polls_due((final(self).executed() - old(self).executed() + 1) as nat, old(self).watchdog.interval() as nat),      //@ob C13.loop.execute.never_more_polls_than_promised
            // C17 / C06: nothing is done to the VM after the last iteration - unless the watchdog said stop, the VM returned is the VM
            // the last `advance` left (what was recorded stays recorded, what was stored stays stored)
            final(self).executed() > old(self).executed() && every_poll_continued(old(self).polls(), final(self).polls())
                ==> iteration_summary(&final(self).watchdog.after_op(), final(self).watchdog.op_result(), final(self).watchdog.last_op(), final(self)),      //@ob C17.loop.execute.nothing_is_undone_after_the_last_iteration C06.loop.execute.nothing_is_undone_after_the_last_iteration
            final(self).config == old(self).config, final(self).instructions_len == old(self).instructions_len, final(self).wf(),
//@loop 1 kind=while
            invariant
                poll_interval == old(self).watchdog.interval(), poll_interval >= 1, self.watchdog.interval() == poll_interval,
                self.wf(), self.gas_within(), self.config == old(self).config, self.instructions_len == old(self).instructions_len,
                forall|o: DynOpcode| self.config.gas_limit + #[trigger] gas_cost(o) <= usize::MAX,
                // C13
                self.own_polls() - old(self).own_polls() == polls_due(counter as nat, poll_interval as nat),             //@ob C13.loop.execute.loop.polls_once_per_interval
                every_poll_continued(old(self).polls(), self.polls()), self.polls() >= old(self).polls(),               //@ob C13.loop.execute.loop.goes_on_only_if_every_poll_continued
                counter as nat == self.executed() - old(self).executed(),                                                //@ob C13.loop.execute.loop.one_opcode_per_iteration
                counter > 0 ==> self.executed() < usize::MAX,
                // C06
                old(self).stored().is_prefix_of(self.stored()),                                                          //@ob C06.loop.execute.loop.stored_states_are_never_dropped
                self.stored().len() + self.q().len() >= old(self).stored().len() + old(self).q().len(),                  //@ob C06.loop.execute.loop.every_thread_is_queued_or_stored
                // ONE ITERATION (prev = the VM at the head of the iteration that just ended; the run history names the rest)
                counter > 0 ==> prev.q().len() > 0 && self.watchdog.before_op().q().len() > 0 && self.watchdog.after_op().q().len() > 0,
                counter > 0 ==> self.executed() == prev.executed() + 1,
                counter > 0 ==> prev.q().len() > 0 && self.watchdog.last_op() == prev.q()[0].code()[prev.q()[0].ip() as int],      //@ob C08.loop.execute.iter.executes_the_current_instruction
                counter > 0 ==> marks_current_instruction(&prev, &self.watchdog.before_op()),                           //@ob C03.loop.execute.iter.marks_the_instruction_visited_before_executing_it
                counter > 0 ==> nothing_else_before_opcode(&prev, &self.watchdog.before_op()),                          //@ob C03.loop.execute.iter.nothing_else_happens_before_the_opcode
                // (WHICH iterations poll is pinned by the invariant `loop.polls_once_per_interval` above; this says when in the iteration)
                counter > 0 ==> self.watchdog.before_op().own_polls() == self.own_polls(),                              //@ob C13.loop.execute.iter.polls_before_executing_the_opcode
                // C08 / C03 / C06: the current thread ENDS - is retired, its state stored - when the opcode failed (in EVERY mode) or halted
                // the path, when it runs off the end of the code or into the visit limit, or when it is out of gas (`ends_now`) ...
                counter > 0 ==> iter_failed_opcode_ends(&self.watchdog.after_op(), self.watchdog.op_result(), self),                  //@ob C08.loop.execute.iter.failed_opcode_ends_the_thread_in_every_mode C05.loop.execute.iter.nothing_runs_behind_a_failed_opcode
                counter > 0 ==> iter_halting_opcode_ends(&self.watchdog.after_op(), self),                                            //@ob C08.loop.execute.iter.halting_opcode_ends_the_path
                counter > 0 ==> iter_limits_end(&self.watchdog.after_op(), self),                                                     //@ob C03.loop.execute.iter.thread_ends_at_the_end_of_the_code_or_the_visit_limit
                counter > 0 ==> iter_out_of_gas_ends(&self.watchdog.after_op(), self.watchdog.op_result(), self.watchdog.last_op(), self),      //@ob C03.loop.execute.iter.thread_ends_when_out_of_gas_in_both_modes
                // ... and for no other reason: otherwise it goes on by exactly one instruction, having consumed the opcode's minimum gas on Ok
                counter > 0 ==> iter_goes_on(&self.watchdog.after_op(), self.watchdog.op_result(), self.watchdog.last_op(), self),      //@ob C03.loop.execute.iter.otherwise_goes_on_and_ok_consumes_min_gas
                // C17: what is recorded - the opcode's error unless tolerated, and gas exhaustion in both modes; nothing else
                counter > 0 ==> iter_records(&self.watchdog.after_op(), self.watchdog.op_result(), self.watchdog.last_op(), self),      //@ob C17.loop.execute.iter.opcode_error_is_recorded_unless_tolerated
                counter > 0 ==> iter_records_gas_exhaustion(&self.watchdog.after_op(), self.watchdog.op_result(), self.watchdog.last_op(), self),      //@ob C17.loop.execute.iter.gas_exhaustion_is_recorded_in_both_modes
            ensures
                self.q().len() == 0,      // the loop is left only when no thread is left
//@proof entry
        broadcast use lemma_opcode_frame, group_queue_lemmas;
        let ghost mut prev: VM = *self;
        proof { lemma_polls_due_zero(self.watchdog.interval() as nat); }
//@proof loopstart #1
            broadcast use lemma_opcode_frame, group_queue_lemmas;
            proof {
                prev = *self;
                lemma_polls_due_step(counter as nat, poll_interval as nat);
                lemma_polls_due_step((counter + 1) as nat, poll_interval as nat);
            }
//@proof afterloop #1
        proof { lemma_polls_due_step(counter as nat, self.watchdog.interval() as nat); }
//@end
//@extract file=src/vm/mod.rs path="impl VM|fn advance" props=C03,C06,C08,C17,C01
//@ret r
//@spec
        requires old(self).wf(),
        ensures
            // nothing to advance: InvalidStep, nothing changes
            old(self).q().len() == 0 ==> r == Err::<(), LocatedError>(Located { location: old(self).instructions_len, payload: Error::InvalidStep }) && *final(self) == *old(self),      //@ob C03.loop.advance.empty_queue_is_invalid_step
            old(self).q().len() > 0 ==> r is Ok,                                                                    //@ob C01.loop.advance.total_on_a_well_formed_vm
            // the current thread ENDS for each of the four reasons, judged at ITS pointer at the time of the call ...
            old(self).q().len() > 0 && next_is_outside_code(old(self)) ==> retired(old(self), final(self)),            //@ob C03.loop.advance.ends_at_the_end_of_the_code C06.loop.advance.thread_running_off_the_end_is_stored
            old(self).q().len() > 0 && next_is_at_visit_limit(old(self)) ==> retired(old(self), final(self)),          //@ob C03.loop.advance.ends_at_the_visit_limit_of_the_next_instruction
            old(self).q().len() > 0 && gas_exceeded(old(self)) ==> retired(old(self), final(self)),                    //@ob C03.loop.advance.ends_when_gas_exceeds_the_limit_in_both_modes
            old(self).q().len() > 0 && old(self).current_thread_killed ==> retired(old(self), final(self)),            //@ob C08.loop.advance.killed_thread_ends
            // ... and for no other reason: otherwise it steps by exactly one and nothing else changes
            old(self).q().len() > 0 && !thread_ends(old(self)) ==> goes_on(old(self), final(self)),                    //@ob C03.loop.advance.otherwise_steps_by_exactly_one
            // C06: an ended thread's state is collected - exactly one more stored state, equal to the thread's; the queue loses exactly its front
            old(self).q().len() > 0 ==> retired(old(self), final(self)) || goes_on(old(self), final(self)),            //@ob C06.loop.advance.state_is_stored_or_thread_goes_on
            // C17/C03: gas exhaustion is an error, located at the thread's pointer, in BOTH modes and whatever else ended the thread
            old(self).q().len() > 0 && gas_exceeded(old(self)) ==> final(self).log().to_multiset()
                == old(self).log().to_multiset().insert(Located { location: old(self).q()[0].ip(), payload: Error::GasLimitExceeded }),      //@ob C17.loop.advance.gas_exhaustion_recorded_in_both_modes
            old(self).q().len() > 0 && !gas_exceeded(old(self)) ==> final(self).log() == old(self).log(),             //@ob C17.loop.advance.no_other_error_recorded
            // C03: no thread continues once the gas it has consumed exceeds the limit
            old(self).gas_within_behind_front() ==> final(self).gas_within(),                                           //@ob C03.loop.advance.no_thread_continues_beyond_the_gas_limit
            // the kill flag is consumed
            old(self).q().len() > 0 ==> !final(self).current_thread_killed,                                            //@ob C08.loop.advance.kill_flag_reset
            final(self).same_rest(old(self)),
            final(self).wf(),
            // THE CLAUSES ABOVE COMPOSED WITH WHAT THE MAIN LOOP DOES BETWEEN AN OPCODE AND THIS CALL (proved here, where the context is
            // small, and used by the loop invariant of `execute`): if the VM is as the loop leaves it once the opcode's result is
            // dealt with (`ready_to_advance`, in terms of the ghost run history), the iteration ends as the properties say
            ready_to_advance(&old(self).watchdog.after_op(), old(self).watchdog.op_result(), old(self).watchdog.last_op(), old(self))
                ==> iteration_summary(&old(self).watchdog.after_op(), old(self).watchdog.op_result(), old(self).watchdog.last_op(), final(self)),      //@ob C03.loop.advance.composes_with_the_main_loop
//@proof entry
        broadcast use lemma_update_front_skip;
        proof {
            reveal(threads_wf); reveal(threads_gas_within);
            let a = self.watchdog.after_op();
            if ready_to_advance(&a, self.watchdog.op_result(), self.watchdog.last_op(), self) {
                assert(self.q().skip(1) =~= a.q().skip(1));
            }
        }
//@end
}
} // verus!
}
fn main() {}
