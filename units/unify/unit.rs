//@unit props=C14,C13,C03,C01
// Unit unify — `unify` (src/tc/unification.rs): the WHOLE function (forest population, the two loops that turn `Equal`
// judgements into unions and everything else into class data, and the fixpoint `loop { .. }` that folds every class's
// inference set through `merge`, inserts fresh variables, applies the emitted equalities as unions and the emitted
// judgements as class data, and stops when a round made no progress) under a PARTIAL-CORRECTNESS contract written from
// properties C14 / C13 / C01.
//
// TERMINATION IS NOT PROVED AND NOT CLAIMED (C03 / C14 "unification terminates").  Recorded finding D13: a packed encoding
// that contains its own class together with a sized special-usage word makes the fixpoint loop run forever, so there is no
// ranking function to state.  The function carries `#[verifier::exec_allows_no_decreases_clause]`; the fixpoint `loop` has
// NO `decreases` clause; every OTHER loop of the function has one and it is checked (the population loops, the class
// enumeration, the fold and the three application loops each terminate).  Everything below is "IF `unify` returns ...".
//
// Contract (labels C14.unify.* / C13.unify.* / C03.unify.* / C01.unify.*), for `F` = the forest handed to `state.set_result(..)`:
//   one_equality_free_type_per_class   r is Ok ==> every variable of F is in a class whose data is Some(s), |s| <= 1, no `Equal` in s
//   every_variable_registered          r is Ok ==> every variable of the INITIAL state is in F; every variable of the FINAL
//                                      state (= initial + what the merges reported in `ty_vars`, A-CALLEE) is in F
//   declared_equal_same_class          r is Ok ==> for every `Equal{id}` judgement on v in the initial state: v, id in F and root(v) == root(id)
//                                      (unions are never undone: `grows` — classes only grow — is carried through every loop)
//   emitted_equalities_same_class      every equality any merge emitted (ghost ledger `vx_emitted`, all rounds) is honoured by the forest
//                                      at the end of the round that emitted it and ever after (C14: component variables are unified as well)
//   emitted_judgements_recorded        every judgement the merges of a round emitted is part of its variable's class data at the end of that round
//   stops_only_at_a_fixpoint           every exit of the fixpoint loop leaves every class root with <= 1 expression (assertion on the state at the
//                                      `break`; a cap on rounds / a break on progress cannot establish it)
//   merge_precondition                 `merge` is only called with non-`Equal` operands (the call-site obligation unit merge leaves open)
//   no_equal_enters_class_data         invariant of all nine loops: no class datum is an `Equal`
//   stop_returns_error_without_result  (C13) r is Err ==> exactly one error, StoppedByWatchdog, raised at the very poll that answered
//                                      stop (the LAST poll made; all earlier ones answered continue), and `set_result` was not called
//   ok_only_if_every_poll_continued    (C13) r is Ok ==> every poll made answered continue;  r is Err <==> some poll answered stop
//   polls_when_counter_is_a_multiple_of_the_interval
//                                      (C13) a poll is made at a class visit exactly when the count of FOLDED (non-empty) classes so far is a
//                                      multiple of poll_every() (ghost `vx_due` counts those visits; polls made == vx_due)
//   never_fewer_polls_than_one_per_interval_of_folded_classes
//                                      (C13) polls made >= ceil(folded classes / poll_every()).  NOT provable, and not true of the code:
//                                      "== ceil(class visits / poll_every())" — visits of EMPTY classes do not advance the counter, so they
//                                      are polled every time while the counter sits on a multiple and never otherwise (reported as suspicious)
//   modulus_not_zero                   (C01) `counter % polling_interval` under the precondition poll_every() >= 1
//   *_terminate(s)                     (C03, local) every loop except the fixpoint loop has a checked `decreases`
//
// The watchdog is an external time-varying oracle, modelled by ghost poll history exactly as in unit watchdog.
//
// Proof anchors: structural only (entry, loopstart #4/#5, afterloop #1..#5).  The `for` loops are rewritten at their HEADER only
// (R-FOREACH), so every loop body reaches the verifier verbatim.  Invariants name the function's own state (`forest`, `state`,
// `watchdog`, `counter`, `polling_interval`, `made_progress`, `all_equalities`, `all_judgements`, `all_new_ty_vars`, `current`,
// `inferred_expressions`, `type_var`): renaming or removing one of those is a rustc-stage error = UNDECIDED (never a violation).
// The three application loops (insert fresh variables / unions / judgements) drain ghost ledgers (`vx_pv`, `vx_pe`, `vx_pj`), so
// the proof does not depend on the order in which they run; their invariants travel with the R-FOREACH rewrite of their header
// (`optional`), so that removing one of them reaches the verifier as a failed obligation instead of a lost loop ordinal.
// The HEADER text of each rewritten `for` loop is matched exactly: renaming a loop variable of such a header is UNDECIDED.
use vstd::prelude::*;
use std::collections::VecDeque;
//@dropped TERMINATION of the fixpoint loop of `unify` (C03 "unification finishes", C14 "unification terminates"): NOT proved, known NOT to hold (D13); the loop is exempted from the termination check by #[verifier::exec_allows_no_decreases_clause] on `unify` and has no decreases clause
//@dropped `merge` is a stand-in here: its contract is the one proved in unit merge for the non-Packed fragment (requires no Equal operand; result never Equal; no judgements / ty_vars) and ASSUMED (read from the code, not proved anywhere) for operand pairs with a Packed side: result and emitted judgement expressions are never `Equal`; the state's variables afterwards are the ones before plus `ty_vars`; the stored unification result is untouched
//@dropped `DisjointSet::sets` is a stand-in with an ASSUMED contract (iterator adapters with closures over VectorMap::iter; not under contract in any unit): every class root exactly once with its data, a data-less root gets the empty set installed
//@dropped the forest `DisjointSet<TypeVariable, InferenceSet>` is a stand-in: insert / union / add_data / set_data carry the contracts PROVED in unit disjoint_set, restated over TypeVariable instead of its unique index and with Data = HashSet (combine = set union, identity = empty set)
//@dropped `HashSet` / iteration: `std::collections::HashSet` is a stand-in viewed as a finite set; `for x in <collection>` loops are desugared (R-FOREACH) into index loops over a vector that enumerates the collection ("every element once, some order"), the fold over the `VecDeque` into a `pop_front` loop; loop BODIES are untouched
//@dropped `state.value_unchecked(ty_var)` unwraps the value registry (it panics for a variable without a registered value): that every class root has a registered value (closedness of all type expressions over the state's variables) is NOT under contract — the stand-in has no precondition
//@dropped `counter += 1` cannot overflow only because a run never visits 2^64 classes: assumed through the ghost enumeration budget on the `sets` stand-in (A-RESOURCE)
//@dropped `watchdog: &DynWatchdog` / `Watchdog::should_stop(&self)` take shared references in the repository (the oracle's state is external); the stand-in takes `&mut` so that the ghost poll counter can advance (R-SIG on the parameter type; the call text `watchdog.should_stop()` is unchanged) — same modelling as unit watchdog
//@dropped the content of the unified types (C15/C16: WHAT the single expression is) is not under contract here: unit merge
//@dropped unification.rs: merge (unit merge), Merge/Equality/Judgement constructors, Display impls; tc/state/mod.rs: everything (TypeCheckerState is a stand-in reduced to: the set of variables, their inference sets, the value registry, the stored unification result)

// A-ETHNUM: stand-in for ethnum::U256 (payload of TypeExpression::FixedArray; untouched here)
mod ext {
    #[derive(Clone, Copy, PartialEq, Eq)]
    pub struct U256(pub [u128; 2]);
}
use ext::U256;

pub mod container {
use vstd::prelude::*;
verus! {
//@include stack/container_items.rs
// `Err(e)?` converts the error with `<Errors<E> as From<E>>::from` — extracted below and PROVED to return a container
// whose log is exactly [e].
// A-STD (link axiom, as in unit type_of): vstd specifies the conversion inside `?` only as the uninterpreted relation
// `spec_from(value, ret)` and does not connect it to the `From` impl that runs; this axiom states that connection for the
// one impl used here, with exactly the contract proved for it.
impl<E> vstd::std_specs::convert::FromSpecImpl<E> for Errors<E> {
    open spec fn obeys_from_spec() -> bool { false }
    open spec fn from_spec(v: E) -> Errors<E> { arbitrary() }
}
pub broadcast axiom fn axiom_question_mark_converts_with_from<E>(v: E, r: Errors<E>)
    requires #[trigger] vstd::std_specs::control_flow::spec_from::<Errors<E>, E>(v, r),
    ensures r.log() == seq![v];
//@extract file=src/error/container.rs path="impl<E> Default for Errors<E>" kind=header
//@end
//@extract file=src/error/container.rs path="impl<E> Default for Errors<E>|fn default" id=container::Errors::default
//@ret r
//@spec
        ensures r.log() == Seq::<E>::empty(),
//@end
}
//@extract file=src/error/container.rs path="impl<E> From<E> for Errors<E>" kind=header
//@rw R-SIG
//@old
E: std::error::Error,
//@new
E: Sized,
//@end
//@extract file=src/error/container.rs path="impl<E> From<E> for Errors<E>|fn from" id=container::Errors::from_one
//@ret r
//@spec
        ensures r.log() == seq![value],
//@end
}
} // verus!
}

verus! {
#[verifier::external_type_specification]
#[verifier::external_body]
pub struct ExU256(U256);

// ---- data types (extracted verbatim) --------------------------------------------------------------------
// A-DERIVE: #[derive(Copy, Clone, Eq, PartialEq)] on a struct of scalars is structural
#[derive(Copy, Clone, Eq, PartialEq, Structural)]
//@extract file=src/tc/state/type_variable.rs path="struct TypeVariable" kind=type
//@end
#[derive(Copy, Clone, Eq, PartialEq, Structural)]
//@extract file=src/tc/expression.rs path="enum WordUse" kind=type
//@end
#[derive(Copy, Clone, Eq, PartialEq, Structural)]
//@extract file=src/tc/expression.rs path="struct Span" kind=type
//@end
//@extract file=src/tc/expression.rs path="type TE" kind=type
//@end
//@extract file=src/tc/expression.rs path="enum TypeExpression" kind=type
//@end
// A-DERIVE: #[derive(Clone)] on TypeExpression returns an equal value
impl Clone for TypeExpression {
    #[verifier::external_body]
    fn clone(&self) -> (r: Self) ensures r == *self { unimplemented!() }
}
//@extract file=src/tc/expression.rs path="type InferenceSet" kind=type
//@end
//@extract file=src/tc/unification.rs path="struct Merge" kind=type
//@end
#[derive(Copy, Clone, Eq, PartialEq, Structural)]
//@extract file=src/tc/unification.rs path="struct Equality" kind=type
//@end
//@extract file=src/tc/unification.rs path="struct Judgement" kind=type
//@end
//@extract file=src/tc/unification.rs path="type UnificationForest" kind=type
//@end

// ---- collections outside Verus ---------------------------------------------------------------------------
// A-STD (type stand-in for `std::collections::HashSet<T>`): viewed as the finite set of its elements.
// A-DERIVE: Hash/Eq of the element types used here (TypeExpression, Equality, Judgement, TypeVariable) are structural,
// so set membership is membership of the value.
#[verifier::external_body]
#[verifier::reject_recursive_types(T)]
pub struct HashSet<T> { _p: core::marker::PhantomData<T> }
impl<T> HashSet<T> {
    pub uninterp spec fn view(&self) -> Set<T>;
    // A-STD: HashSet::new is empty
    #[verifier::external_body]
    pub fn new() -> (r: Self) ensures r@ == Set::<T>::empty() { unimplemented!() }
    // A-STD: `HashSet::from([x])` (From<[T; 1]>) is the singleton
    #[verifier::external_body]
    pub fn from(items: [T; 1]) -> (r: Self) ensures r@ == Set::<T>::empty().insert(items@[0]) { unimplemented!() }
    // A-STD: HashSet::is_empty
    #[verifier::external_body]
    pub fn is_empty(&self) -> (r: bool) ensures r == (self@.len() == 0) { unimplemented!() }
    // A-STD (robustness shim, not used by the pinned text): HashSet::len is the number of elements
    #[verifier::external_body]
    pub fn len(&self) -> (r: usize) ensures r == self@.len() { unimplemented!() }
    // A-STD: `Extend::extend` with a Vec adds exactly the vector's elements
    #[verifier::external_body]
    pub fn extend(&mut self, items: Vec<T>)
        ensures forall|e: T| #[trigger] final(self)@.contains(e) == (old(self)@.contains(e) || items@.contains(e)),
    { unimplemented!() }
}
// A-STD (R-FOREACH stand-in): by-value iteration over a HashSet yields every element exactly once, in SOME order.
#[verifier::external_body]
pub fn vx_into_vec<T>(s: HashSet<T>) -> (r: Vec<T>)
    ensures
        r@.len() == s@.len(),
        forall|k: int| 0 <= k < r@.len() ==> s@.contains(#[trigger] r@[k]),
        forall|e: T| #[trigger] s@.contains(e) ==> exists|k: int| 0 <= k < r@.len() && #[trigger] r@[k] == e,
{ unimplemented!() }
// A-STD (R-FOREACH stand-in): iteration over `&HashSet` yields a reference to every element exactly once, in SOME order.
#[verifier::external_body]
pub fn vx_refs<'a, T>(s: &'a HashSet<T>) -> (r: Vec<&'a T>)
    ensures
        forall|k: int| 0 <= k < r@.len() ==> s@.contains(*#[trigger] r@[k]),
        forall|e: T| s@.contains(e) ==> exists|k: int| 0 <= k < r@.len() && *#[trigger] r@[k] == e,
{ unimplemented!() }
// A-STD (R-CALL stand-in): `set.into_iter().collect::<VecDeque<_>>()` — every element exactly once, in SOME order.
#[verifier::external_body]
pub fn vx_collect_deque<T>(s: HashSet<T>) -> (r: VecDeque<T>)
    ensures
        r@.len() == s@.len(),
        forall|k: int| 0 <= k < r@.len() ==> s@.contains(#[trigger] r@[k]),
{ unimplemented!() }
// A-STD (R-FOREACH stand-in): by-value iteration over a Vec hands out its elements in index order (a move in the real
// loop; the stand-in returns the element itself).
#[verifier::external_body]
pub fn vx_nth<T>(v: &Vec<T>, i: usize) -> (r: T)
    requires i < v@.len(),
    ensures r == v@[i as int],
{ unimplemented!() }

// ---- the forest --------------------------------------------------------------------------------------------
pub open spec fn eq_free(s: Set<TypeExpression>) -> bool { forall|e: TypeExpression| #[trigger] s.contains(e) ==> !(e is Equal) }

// A-CALLEE (type stand-in for `DisjointSet<TypeVariable, InferenceSet>`).  Views: dom / root / dat as in unit
// disjoint_set (`dat` = the view of the HashSet stored at that element), keyed by the TypeVariable itself instead of
// its unique index (A-KEY: `TypeVariable { id } <-> id` is a bijection: ToUniqueIndex::index returns `id`,
// FromUniqueIndex::from_index wraps it).
#[verifier::external_body]
#[verifier::reject_recursive_types(V)]
#[verifier::reject_recursive_types(D)]
pub struct DisjointSet<V, D> { _p: core::marker::PhantomData<(V, D)> }
impl DisjointSet<TypeVariable, InferenceSet> {
    pub uninterp spec fn wf(&self) -> bool;
    pub uninterp spec fn dom(&self, v: TypeVariable) -> bool;
    pub uninterp spec fn root(&self, v: TypeVariable) -> TypeVariable;
    pub uninterp spec fn dat(&self, v: TypeVariable) -> Option<Set<TypeExpression>>;
    /// A-RESOURCE ghost: how many classes `sets` has handed out so far from this forest
    pub uninterp spec fn enumerated(&self) -> nat;
    pub open spec fn is_root(&self, v: TypeVariable) -> bool { self.dom(v) && self.root(v) == v }
    pub open spec fn root_or_self(&self, v: TypeVariable) -> TypeVariable { if self.dom(v) { self.root(v) } else { v } }
    /// A-COMBINE instance (`impl Combine for HashSet`): identity() = HashSet::default() = the empty set
    pub open spec fn dat_or_id(&self, v: TypeVariable) -> Set<TypeExpression> { match self.dat(v) { Some(d) => d, None => Set::empty() } }

    // ---- contracts, as predicates over (before, after) so that consequences can be derived once, by lemma ----
    /// C19.ds.insert.{wf, domain, partition_unchanged, singleton_when_absent, data_unchanged}
    pub open spec fn insert_post(a: &Self, b: &Self, x: TypeVariable) -> bool {
        &&& b.wf()
        &&& forall|v: TypeVariable| #[trigger] b.dom(v) == (a.dom(v) || v == x)
        &&& forall|v: TypeVariable| #![trigger b.root(v)] #![trigger a.root(v)] a.dom(v) ==> b.root(v) == a.root(v)
        &&& !a.dom(x) ==> b.root(x) == x
        &&& forall|v: TypeVariable| #[trigger] b.dat(v) == a.dat(v)
        &&& b.enumerated() == a.enumerated()
    }
    /// C19.ds.union.{wf, domain, root_is_first, second_joins_first, partition, data_combined_once, same_class_data_unchanged},
    /// C14.ds.union.{declared_equal_same_class, same_class, transitive}; combine = set union (A-COMBINE instance)
    pub open spec fn union_post(a: &Self, b: &Self, x1: TypeVariable, x2: TypeVariable) -> bool {
        &&& b.wf()
        &&& forall|v: TypeVariable| #[trigger] b.dom(v) == (a.dom(v) || v == x1 || v == x2)
        &&& b.root(x1) == a.root_or_self(x1)
        &&& b.root(x2) == a.root_or_self(x1)
        &&& forall|v: TypeVariable| #![trigger b.root(v)] #![trigger a.root(v)] a.dom(v) ==> b.root(v) ==
                (if a.root(v) == a.root_or_self(x2) { a.root_or_self(x1) } else { a.root(v) })
        &&& a.root_or_self(x1) != a.root_or_self(x2) ==> forall|v: TypeVariable| #[trigger] b.dat(v) == (
                if v == a.root_or_self(x1) { Some(a.dat_or_id(a.root_or_self(x1)).union(a.dat_or_id(a.root_or_self(x2)))) }
                else if v == a.root_or_self(x2) { None } else { a.dat(v) })
        &&& a.root_or_self(x1) == a.root_or_self(x2) ==> forall|v: TypeVariable| #[trigger] b.dat(v) == a.dat(v)
        &&& b.enumerated() == a.enumerated()
    }
    /// C19.ds.add_data.{wf, domain, partition_unchanged, singleton_when_absent, accumulates_at_root}
    pub open spec fn add_data_post(a: &Self, b: &Self, x: TypeVariable, d: Set<TypeExpression>) -> bool {
        &&& b.wf()
        &&& forall|v: TypeVariable| #[trigger] b.dom(v) == (a.dom(v) || v == x)
        &&& forall|v: TypeVariable| #![trigger b.root(v)] #![trigger a.root(v)] a.dom(v) ==> b.root(v) == a.root(v)
        &&& b.root(x) == a.root_or_self(x)
        &&& forall|v: TypeVariable| #[trigger] b.dat(v) == (if v == b.root(x) { Some(a.dat_or_id(v).union(d)) } else { a.dat(v) })
        &&& b.enumerated() == a.enumerated()
    }
    /// C19.ds.set_data.{wf, domain, partition_unchanged, singleton_when_absent, replaces_at_root}
    pub open spec fn set_data_post(a: &Self, b: &Self, x: TypeVariable, d: Set<TypeExpression>) -> bool {
        &&& b.wf()
        &&& forall|v: TypeVariable| #[trigger] b.dom(v) == (a.dom(v) || v == x)
        &&& forall|v: TypeVariable| #![trigger b.root(v)] #![trigger a.root(v)] a.dom(v) ==> b.root(v) == a.root(v)
        &&& b.root(x) == a.root_or_self(x)
        &&& forall|v: TypeVariable| #[trigger] b.dat(v) == (if v == b.root(x) { Some(d) } else { a.dat(v) })
        &&& b.enumerated() == a.enumerated()
    }
    /// ASSUMED (no unit proves it), read from `DisjointSet::sets`: the elements that are their own representative are
    /// listed once each, in index order, with a clone of their data; a root without data gets `Data::default()` (the empty
    /// set) stored and listed.  Partition and domain are untouched.
    pub open spec fn sets_post(a: &Self, b: &Self, r: Seq<(TypeVariable, InferenceSet)>) -> bool {
        &&& b.wf()
        &&& forall|v: TypeVariable| #[trigger] b.dom(v) == a.dom(v)
        &&& forall|v: TypeVariable| #![trigger b.root(v)] #![trigger a.root(v)] a.dom(v) ==> b.root(v) == a.root(v)
        &&& forall|v: TypeVariable| #[trigger] b.dat(v) == (if a.is_root(v) && a.dat(v) is None { Some(Set::<TypeExpression>::empty()) } else { a.dat(v) })
        &&& forall|k: int| 0 <= k < r.len() ==> a.is_root((#[trigger] r[k]).0) && b.dat(r[k].0) == Some(r[k].1@)
        &&& forall|v: TypeVariable| a.is_root(v) ==> exists|k: int| 0 <= k < r.len() && (#[trigger] r[k]).0 == v
        &&& forall|j: int, k: int| 0 <= j < k < r.len() ==> (#[trigger] r[j]).0 != (#[trigger] r[k]).0
        // A-RESOURCE: a process never enumerates 2^64 classes (at one class per nanosecond that is 584 years)
        &&& b.enumerated() == a.enumerated() + r.len()
        &&& b.enumerated() <= usize::MAX
    }

    // A-CALLEE: C19.ds.with_capacity.{wf, empty, no_data} (unit disjoint_set)
    #[verifier::external_body]
    pub fn with_capacity(capacity: usize) -> (r: Self)
        ensures r.wf(), forall|v: TypeVariable| !r.dom(v), forall|v: TypeVariable| r.dat(v) is None, r.enumerated() == 0,
    { unimplemented!() }
    // A-CALLEE: proved in unit disjoint_set (labels at insert_post)
    #[verifier::external_body]
    pub fn insert(&mut self, value: TypeVariable)
        requires old(self).wf(),
        ensures Self::insert_post(old(self), final(self), value),
    { unimplemented!() }
    // A-CALLEE: proved in unit disjoint_set (labels at union_post)
    #[verifier::external_body]
    pub fn union(&mut self, v1: &TypeVariable, v2: &TypeVariable)
        requires old(self).wf(),
        ensures Self::union_post(old(self), final(self), *v1, *v2),
    { unimplemented!() }
    // A-CALLEE: proved in unit disjoint_set (labels at add_data_post)
    #[verifier::external_body]
    pub fn add_data(&mut self, value: &TypeVariable, data: InferenceSet)
        requires old(self).wf(),
        ensures Self::add_data_post(old(self), final(self), *value, data@),
    { unimplemented!() }
    // A-CALLEE: proved in unit disjoint_set (labels at set_data_post)
    #[verifier::external_body]
    pub fn set_data(&mut self, value: &TypeVariable, data: InferenceSet)
        requires old(self).wf(),
        ensures Self::set_data_post(old(self), final(self), *value, data@),
    { unimplemented!() }
    // A-CALLEE: ASSUMED, see sets_post
    #[verifier::external_body]
    pub fn sets(&mut self) -> (r: Vec<(TypeVariable, InferenceSet)>)
        requires old(self).wf(),
        ensures Self::sets_post(old(self), final(self), r@),
    { unimplemented!() }
}
// A-CALLEE: the representative of an element is an element and is its own representative — `lemma_root_props` of unit
// disjoint_set (proved there from the representation invariant `wf`; not exported as a labelled clause)
pub broadcast axiom fn axiom_root_is_a_root(f: &UnificationForest, v: TypeVariable)
    requires f.wf(), #[trigger] f.dom(v),
    ensures f.is_root(f.root(v));

/// two variables are elements of one class
pub open spec fn same_class(f: &UnificationForest, a: TypeVariable, b: TypeVariable) -> bool { f.dom(a) && f.dom(b) && f.root(a) == f.root(b) }
/// unions are never undone: elements stay, classes only grow
pub open spec fn grows(a: &UnificationForest, b: &UnificationForest) -> bool {
    &&& forall|v: TypeVariable| #[trigger] a.dom(v) ==> b.dom(v)
    &&& forall|x: TypeVariable, y: TypeVariable| #[trigger] same_class(a, x, y) ==> same_class(b, x, y)
}
/// no class datum is an equality
pub open spec fn data_eq_free(f: &UnificationForest) -> bool { forall|v: TypeVariable| (#[trigger] f.dat(v)) is Some ==> eq_free(f.dat(v)->Some_0) }
/// the class root `v` holds its data and that is at most one expression
pub open spec fn resolved_at(f: &UnificationForest, v: TypeVariable) -> bool { f.dat(v) is Some && f.dat(v)->Some_0.len() <= 1 }
/// every class holds at most one expression
pub open spec fn all_resolved(f: &UnificationForest) -> bool { forall|v: TypeVariable| #[trigger] f.is_root(v) ==> resolved_at(f, v) }

// consequences of the forest contracts (proved here from the predicates above; instantiated by the ground `*_post` facts
// the callee contracts put in the context)
pub broadcast proof fn lemma_insert(a: &UnificationForest, b: &UnificationForest, x: TypeVariable)
    requires #[trigger] UnificationForest::insert_post(a, b, x),
    ensures grows(a, b), data_eq_free(a) ==> data_eq_free(b), b.dom(x),
        forall|j: Judgement| #[trigger] recorded(a, j) ==> recorded(b, j),
{
    assert(b.dom(x) == (a.dom(x) || x == x));
    assert forall|j: Judgement| #[trigger] recorded(a, j) implies recorded(b, j) by {
        assert(b.dom(j.tv) == (a.dom(j.tv) || j.tv == x));
        assert(b.root(j.tv) == a.root(j.tv));
        assert(b.dat(b.root(j.tv)) == a.dat(b.root(j.tv)));
    }
    assert forall|p: TypeVariable, q: TypeVariable| #[trigger] same_class(a, p, q) implies same_class(b, p, q) by {
        assert(b.dom(p) == (a.dom(p) || p == x)); assert(b.dom(q) == (a.dom(q) || q == x));
    }
    assert forall|v: TypeVariable| a.dom(v) implies #[trigger] b.dom(v) by {}
}
pub broadcast proof fn lemma_union(a: &UnificationForest, b: &UnificationForest, x1: TypeVariable, x2: TypeVariable)
    requires #[trigger] UnificationForest::union_post(a, b, x1, x2),
    ensures grows(a, b), data_eq_free(a) ==> data_eq_free(b), same_class(b, x1, x2),
        forall|j: Judgement| #[trigger] recorded(a, j) ==> recorded(b, j),
{
    assert forall|j: Judgement| #[trigger] recorded(a, j) implies recorded(b, j) by {
        let (r1, r2) = (a.root_or_self(x1), a.root_or_self(x2));
        assert(b.dom(j.tv) == (a.dom(j.tv) || j.tv == x1 || j.tv == x2));
        assert(b.root(j.tv) == (if a.root(j.tv) == r2 { r1 } else { a.root(j.tv) }));
        if r1 != r2 {
            assert(b.dat(b.root(j.tv)) == (if b.root(j.tv) == r1 { Some(a.dat_or_id(r1).union(a.dat_or_id(r2))) } else if b.root(j.tv) == r2 { None } else { a.dat(b.root(j.tv)) }));
        } else {
            assert(b.dat(b.root(j.tv)) == a.dat(b.root(j.tv)));
        }
    }
    assert(b.dom(x1) == (a.dom(x1) || x1 == x1 || x1 == x2));
    assert(b.dom(x2) == (a.dom(x2) || x2 == x1 || x2 == x2));
    assert forall|p: TypeVariable, q: TypeVariable| #[trigger] same_class(a, p, q) implies same_class(b, p, q) by {
        assert(b.dom(p) == (a.dom(p) || p == x1 || p == x2)); assert(b.dom(q) == (a.dom(q) || q == x1 || q == x2));
    }
    assert forall|v: TypeVariable| a.dom(v) implies #[trigger] b.dom(v) by {}
    if data_eq_free(a) {
        assert forall|v: TypeVariable| (#[trigger] b.dat(v)) is Some implies eq_free(b.dat(v)->Some_0) by {
            let (r1, r2) = (a.root_or_self(x1), a.root_or_self(x2));
            if r1 != r2 {
                if v == r1 {
                    assert(a.dat(r1) is Some ==> eq_free(a.dat(r1)->Some_0));
                    assert(a.dat(r2) is Some ==> eq_free(a.dat(r2)->Some_0));
                    assert(eq_free(a.dat_or_id(r1)) && eq_free(a.dat_or_id(r2)));
                } else { assert(b.dat(v) == a.dat(v)); }
            } else { assert(b.dat(v) == a.dat(v)); }
        }
    }
}
pub broadcast proof fn lemma_add_data(a: &UnificationForest, b: &UnificationForest, x: TypeVariable, d: Set<TypeExpression>)
    requires #[trigger] UnificationForest::add_data_post(a, b, x, d),
    ensures grows(a, b), data_eq_free(a) && eq_free(d) ==> data_eq_free(b), b.dom(x),
        forall|j: Judgement| #[trigger] recorded(a, j) ==> recorded(b, j),
        forall|j: Judgement| j.tv == x && d.contains(j.expr) ==> #[trigger] recorded(b, j),
{
    assert(b.dom(x) == (a.dom(x) || x == x));
    assert forall|j: Judgement| #[trigger] recorded(a, j) implies recorded(b, j) by {
        assert(b.dom(j.tv) == (a.dom(j.tv) || j.tv == x));
        assert(b.root(j.tv) == a.root(j.tv));
    }
    assert forall|p: TypeVariable, q: TypeVariable| #[trigger] same_class(a, p, q) implies same_class(b, p, q) by {
        assert(b.dom(p) == (a.dom(p) || p == x)); assert(b.dom(q) == (a.dom(q) || q == x));
    }
    assert forall|v: TypeVariable| a.dom(v) implies #[trigger] b.dom(v) by {}
    if data_eq_free(a) && eq_free(d) {
        assert forall|v: TypeVariable| (#[trigger] b.dat(v)) is Some implies eq_free(b.dat(v)->Some_0) by {
            if v == b.root(x) { assert(a.dat(v) is Some ==> eq_free(a.dat(v)->Some_0)); assert(eq_free(a.dat_or_id(v))); } else { assert(b.dat(v) == a.dat(v)); }
        }
    }
}
pub broadcast proof fn lemma_set_data(a: &UnificationForest, b: &UnificationForest, x: TypeVariable, d: Set<TypeExpression>)
    requires #[trigger] UnificationForest::set_data_post(a, b, x, d),
    ensures grows(a, b), data_eq_free(a) && eq_free(d) ==> data_eq_free(b),
        a.dom(x) ==> forall|v: TypeVariable| #[trigger] b.is_root(v) == a.is_root(v),
{
    if a.dom(x) { assert forall|v: TypeVariable| #[trigger] b.is_root(v) == a.is_root(v) by { assert(b.dom(v) == (a.dom(v) || v == x)); } }
    assert forall|p: TypeVariable, q: TypeVariable| #[trigger] same_class(a, p, q) implies same_class(b, p, q) by {
        assert(b.dom(p) == (a.dom(p) || p == x)); assert(b.dom(q) == (a.dom(q) || q == x));
    }
    assert forall|v: TypeVariable| a.dom(v) implies #[trigger] b.dom(v) by { assert(b.dom(v) == (a.dom(v) || v == x)); }
    if data_eq_free(a) && eq_free(d) {
        assert forall|v: TypeVariable| (#[trigger] b.dat(v)) is Some implies eq_free(b.dat(v)->Some_0) by {
            if v != b.root(x) { assert(b.dat(v) == a.dat(v)); }
        }
    }
}
pub broadcast proof fn lemma_sets(a: &UnificationForest, b: &UnificationForest, r: Seq<(TypeVariable, InferenceSet)>)
    requires #[trigger] UnificationForest::sets_post(a, b, r),
    ensures grows(a, b), data_eq_free(a) ==> data_eq_free(b),
        forall|v: TypeVariable| #[trigger] b.is_root(v) == a.is_root(v),
{
    assert forall|p: TypeVariable, q: TypeVariable| #[trigger] same_class(a, p, q) implies same_class(b, p, q) by {
        assert(b.dom(p) == a.dom(p)); assert(b.dom(q) == a.dom(q));
    }
    assert forall|v: TypeVariable| a.dom(v) implies #[trigger] b.dom(v) by { assert(b.dom(v) == a.dom(v)); }
    assert forall|v: TypeVariable| #[trigger] b.is_root(v) == a.is_root(v) by { assert(b.dom(v) == a.dom(v)); }
    if data_eq_free(a) {
        assert forall|v: TypeVariable| (#[trigger] b.dat(v)) is Some implies eq_free(b.dat(v)->Some_0) by {
            if !(a.is_root(v) && a.dat(v) is None) { assert(b.dat(v) == a.dat(v)); }
        }
    }
}
pub proof fn lemma_grows_trans(a: &UnificationForest, b: &UnificationForest, c: &UnificationForest)
    requires grows(a, b), grows(b, c),
    ensures grows(a, c),
{
    assert forall|p: TypeVariable, q: TypeVariable| #[trigger] same_class(a, p, q) implies same_class(c, p, q) by { assert(same_class(b, p, q)); }
    assert forall|v: TypeVariable| #[trigger] a.dom(v) implies c.dom(v) by { assert(b.dom(v)); }
}

// ---- the typing state ------------------------------------------------------------------------------------
// A-CALLEE (type stand-in): a boxed value of the type checker; only its instruction pointer is read.
#[verifier::external_body]
pub struct TCBoxedVal { _p: u8 }
impl TCBoxedVal {
    pub uninterp spec fn ip(&self) -> u32;
    #[verifier::external_body]
    pub fn instruction_pointer(&self) -> (r: u32) ensures r == self.ip() { unimplemented!() }
}
// A-CALLEE (type stand-in): `TypeCheckerState` reduced to the set of registered variables (`inferences.keys()`), their
// inference sets, the value registry, and the stored unification result.
#[verifier::external_body]
pub struct TypeCheckerState { _p: u8 }
impl TypeCheckerState {
    /// `v` is a key of the state's `inferences` map
    pub uninterp spec fn is_var(&self, v: TypeVariable) -> bool;
    /// the typing judgements recorded for `v`
    pub uninterp spec fn infs(&self, v: TypeVariable) -> Set<TypeExpression>;
    /// the stored unification result (`set_result` / `result`)
    pub uninterp spec fn forest(&self) -> UnificationForest;
    pub uninterp spec fn value_of(&self, v: TypeVariable) -> TCBoxedVal;
    // A-CALLEE: `tyvar_count` (a capacity hint only)
    #[verifier::external_body]
    pub fn tyvar_count(&self) -> (r: usize) { unimplemented!() }
    // A-CALLEE / A-STD: `variables()` = `self.inferences.keys().copied().collect()`: every key once, in SOME order
    #[verifier::external_body]
    pub fn variables(&self) -> (r: Vec<TypeVariable>)
        ensures
            forall|k: int| 0 <= k < r@.len() ==> self.is_var(#[trigger] r@[k]),
            forall|v: TypeVariable| self.is_var(v) ==> r@.contains(v),
    { unimplemented!() }
    // A-CALLEE: `inferences(v)` = `self.inferences.get(&v).unwrap()`: PANICS for an unregistered variable — hence the
    // precondition (C01), discharged in `unify` because the variable comes out of `variables()`.  (R-IMPL-INTO: the
    // `impl Into<TypeVariable>` parameter monomorphised.)
    #[verifier::external_body]
    pub fn inferences(&self, variable: TypeVariable) -> (r: &InferenceSet)
        requires self.is_var(variable),
        ensures r@ == self.infs(variable),
    { unimplemented!() }
    // A-CALLEE: `value_unchecked(v)` = `self.value(v).unwrap()`.  NO precondition here: see //@dropped.
    #[verifier::external_body]
    pub fn value_unchecked(&self, variable: TypeVariable) -> (r: &TCBoxedVal)
        ensures *r == self.value_of(variable),
    { unimplemented!() }
    // A-CALLEE: `set_result(f)` = `self.unification_result = f`
    #[verifier::external_body]
    pub fn set_result(&mut self, result: UnificationForest)
        ensures
            final(self).forest() == result,
            forall|v: TypeVariable| #[trigger] final(self).is_var(v) == old(self).is_var(v),
    { unimplemented!() }
}

// ---- the watchdog: an external oracle with ghost poll history (as in unit watchdog) --------------------------
/// what the k-th poll of the run answers: `true` = stop.  Arbitrary: the contract holds for every oracle.
pub uninterp spec fn answer(k: nat) -> bool;
/// A-CALLEE (opaque stand-in for `DynWatchdog = Rc<dyn Watchdog>`)
#[verifier::external_body]
pub struct DynWatchdog { _opaque: u8 }
impl DynWatchdog {
    /// GHOST: the number of polls made so far
    pub uninterp spec fn polls(&self) -> nat;
    /// the interval the watchdog asks for
    pub uninterp spec fn interval(&self) -> usize;
    // A-CALLEE: Watchdog::should_stop answers what the oracle answers to this poll, and the poll is counted.
    #[verifier::external_body]
    pub fn should_stop(&mut self) -> (r: bool)
        ensures r == answer(old(self).polls()), final(self).polls() == old(self).polls() + 1, final(self).interval() == old(self).interval(),
    { unimplemented!() }
    // A-CALLEE: Watchdog::poll_every returns the fixed interval and is not a poll
    #[verifier::external_body]
    pub fn poll_every(&self) -> (r: usize)
        ensures r == self.interval(),
    { unimplemented!() }
}
/// "stopped at the first stop answer": the LAST poll made answered stop, every earlier one answered continue
pub open spec fn stopped_at_first_stop(before: &DynWatchdog, after: &DynWatchdog) -> bool {
    &&& after.polls() > before.polls()
    &&& answer((after.polls() - 1) as nat)
    &&& forall|k: nat| before.polls() <= k < after.polls() - 1 ==> !answer(k)
}
/// every poll made between the two states answered continue
pub open spec fn every_poll_continued(before: &DynWatchdog, after: &DynWatchdog) -> bool {
    &&& after.polls() >= before.polls()
    &&& forall|k: nat| before.polls() <= k < after.polls() ==> !answer(k)
}
pub open spec fn some_poll_answered_stop(before: &DynWatchdog, after: &DynWatchdog) -> bool {
    exists|k: nat| before.polls() <= k < after.polls() && answer(k)
}

// ---- arithmetic of "once per `every` folded classes, starting with the first" = ceil(n / every) (copied from unit watchdog, proved here too) ----
/// polls a loop makes over `iterations` counted iterations when it polls on the counts 0, every, 2 * every, ..
pub open spec fn polls_due(iterations: nat, every: nat) -> nat { if every == 0 { 0 } else { ((iterations + every - 1) as nat) / every } }
/// one more counted iteration costs one more poll exactly when its index is a multiple of the interval
pub proof fn lemma_polls_due_step(c: nat, e: nat)
    requires e >= 1,
    ensures polls_due(c + 1, e) == polls_due(c, e) + (if c % e == 0 { 1nat } else { 0nat }),
{
    let q = (c / e) as int;
    let r = (c % e) as int;
    let d = e as int;
    vstd::arithmetic::div_mod::lemma_fundamental_div_mod(c as int, d);
    assert(c as int == q * d + r) by (nonlinear_arith) requires c as int == d * q + r;
    assert((q + 1) * d == q * d + d) by (nonlinear_arith);
    if r == 0 {
        vstd::arithmetic::div_mod::lemma_fundamental_div_mod_converse(c as int + d - 1, d, q, d - 1);
        vstd::arithmetic::div_mod::lemma_fundamental_div_mod_converse(c as int + d, d, q + 1, 0);
    } else {
        vstd::arithmetic::div_mod::lemma_fundamental_div_mod_converse(c as int + d - 1, d, q + 1, r - 1);
        vstd::arithmetic::div_mod::lemma_fundamental_div_mod_converse(c as int + d, d, q + 1, r);
    }
    assert(((c + e - 1) as nat) as int == c as int + d - 1);
    assert(((c + 1 + e - 1) as nat) as int == c as int + d);
}
pub proof fn lemma_polls_due_zero(e: nat)
    requires e >= 1,
    ensures polls_due(0, e) == 0,
{
    vstd::arithmetic::div_mod::lemma_fundamental_div_mod_converse((e - 1) as int, e as int, 0, (e - 1) as int);
}

// ---- errors (extracted) ----
//@extract file=src/error/unification.rs path="enum Error" kind=type id=unification::Error
//@end
// A-DERIVE: #[derive(Clone)] on Error returns an equal value (needed by `Located<E: Clone>`)
impl Clone for Error {
    #[verifier::external_body]
    fn clone(&self) -> (r: Self) ensures r == *self { unimplemented!() }
}
//@extract file=src/error/unification.rs path="type LocatedError" kind=type
//@end
//@extract file=src/error/unification.rs path="type Errors" kind=type
//@end
//@extract file=src/error/unification.rs path="type Result" kind=type
//@end
use container::Locatable;
//@extract file=src/error/unification.rs path="impl container::Locatable for Error" kind=header
//@end
    type Located = LocatedError;
//@extract file=src/error/unification.rs path="impl container::Locatable for Error|fn locate" id=unification::Error::locate props=C17,C01
//@ret r
//@spec
        ensures r.location == instruction_pointer, r.payload == self,
//@end
}
/// the outcome is exactly one error, and it is the stopped-by-watchdog error
pub open spec fn stopped(r: Result<()>) -> bool { r is Err && r->Err_0.log().len() == 1 && r->Err_0.log()[0].payload is StoppedByWatchdog }

// ---- merge: the callee (unit merge) ------------------------------------------------------------------------
// A-CALLEE.  PROVED in unit merge: the precondition (C14.mg.merge.no_equal_operand) and, for operand pairs without a
// `Packed` side, `!(m.expression is Equal)` (C14.mg.merge.never_equal), no judgements and no ty_vars
// (C16.mg.merge.no_side_output).  ASSUMED (the three `Packed x _` arms are opaque in unit merge; read from the code:
// they return a Packed / Bytes / Conflict / one of the operands, their judgements carry a `packed_of(..)` or the word
// operand, and the only state mutation of `merge` is `allocate_ty_var`, whose results are all reported in `ty_vars`):
// the same for pairs with a Packed side; the state's variables afterwards; the stored unification result is untouched.
#[verifier::external_body]
pub fn merge(left: TE, right: TE, parent_tv: TypeVariable, state: &mut TypeCheckerState) -> (m: Merge)
    requires
        !(left is Equal) && !(right is Equal),                                                                //@ob C14.unify.merge_precondition
    ensures
        !(m.expression is Equal),
        forall|k: int| 0 <= k < m.judgements@.len() ==> !((#[trigger] m.judgements@[k]).expr is Equal),
        forall|v: TypeVariable| #[trigger] final(state).is_var(v) ==> old(state).is_var(v) || m.ty_vars@.contains(v),
        final(state).forest() == old(state).forest(),
{ unimplemented!() }

// ---- the contract's vocabulary -----------------------------------------------------------------------------
/// the state carries the judgement `v = id`
pub open spec fn declared_equal(s: &TypeCheckerState, v: TypeVariable, id: TypeVariable) -> bool {
    s.is_var(v) && s.infs(v).contains(TypeExpression::Equal { id })
}
/// C14 (c): every declared equality is honoured by the forest
pub open spec fn honours_equalities(s: &TypeCheckerState, f: &UnificationForest) -> bool {
    forall|v: TypeVariable, id: TypeVariable| #[trigger] declared_equal(s, v, id) ==> same_class(f, v, id)
}
/// every equality declared on `v` is honoured by the forest
pub open spec fn honoured_for(s: &TypeCheckerState, f: &UnificationForest, v: TypeVariable) -> bool {
    forall|id: TypeVariable| #[trigger] declared_equal(s, v, id) ==> same_class(f, v, id)
}
/// C14 (b): every variable of the state is an element of the forest
pub open spec fn registers_all(s: &TypeCheckerState, f: &UnificationForest) -> bool {
    forall|v: TypeVariable| #[trigger] s.is_var(v) ==> f.dom(v)
}
/// C14 (a): every variable of the forest is in a class that holds at most one expression, and that is not an equality
pub open spec fn one_equality_free_type_per_class(f: &UnificationForest) -> bool {
    forall|v: TypeVariable| #[trigger] f.dom(v) ==> resolved_at(f, f.root(v)) && eq_free(f.dat(f.root(v))->Some_0)
}
/// C14 (component unification): every equality in `q` is honoured by the forest
pub open spec fn honours_emitted(q: Set<Equality>, f: &UnificationForest) -> bool {
    forall|e: Equality| #[trigger] q.contains(e) ==> same_class(f, e.left, e.right)
}
/// the judgement `j` is part of the data of its variable's class
pub open spec fn recorded(f: &UnificationForest, j: Judgement) -> bool {
    f.dom(j.tv) && f.dat(f.root(j.tv)) is Some && f.dat(f.root(j.tv))->Some_0.contains(j.expr)
}
/// every judgement in `q` is part of the data of its variable's class
pub open spec fn records_judgements(q: Set<Judgement>, f: &UnificationForest) -> bool {
    forall|j: Judgement| #[trigger] q.contains(j) ==> recorded(f, j)
}
pub open spec fn judgements_eq_free(s: Set<Judgement>) -> bool { forall|j: Judgement| #[trigger] s.contains(j) ==> !(j.expr is Equal) }

pub broadcast proof fn lemma_fixpoint_is_the_postcondition(f: &UnificationForest)
    requires f.wf(), all_resolved(f), data_eq_free(f),
    ensures #[trigger] one_equality_free_type_per_class(f),
{
    assert forall|v: TypeVariable| #[trigger] f.dom(v) implies resolved_at(f, f.root(v)) && eq_free(f.dat(f.root(v))->Some_0) by {
        axiom_root_is_a_root(f, v);
        assert(f.is_root(f.root(v)));
    }
}

// ---- the function under contract -----------------------------------------------------------------------------
// TERMINATION NOT CLAIMED: the fixpoint `loop` (loop 4) has no `decreases`; all other loops have one.
#[verifier::exec_allows_no_decreases_clause]
#[verifier::loop_isolation(false)]
//@extract file=src/tc/unification.rs path="fn unify"
//@ret r
// R-SIG: the oracle's poll counter is ghost state of the stand-in, so the parameter is `&mut` (see //@dropped)
// R-FOREACH (header only; the body and its closing brace are untouched): `for x in <Vec>` is an index loop over the vector
// R-FOREACH: iteration over `&HashSet` yields a reference to every element once, in some order (A-STD stand-in vx_refs)
// R-FOREACH: by-value iteration over the Vec returned by `sets()`; `continue` in the body is why the index is bumped first
// R-CALL: collecting a HashSet into a VecDeque (iterator adapter) -> A-STD stand-in
// R-FOREACH: by-value iteration over a VecDeque is a pop_front loop
// R-FOREACH (+ the loop's invariant, carried by the rewrite instead of a loop ordinal so that removing one of the three
// application loops does not misplace the invariants of the others; `optional`: an absent loop is simply not rewritten)
//@rw R-SIG
//@old
watchdog: &DynWatchdog
//@new
watchdog: &mut DynWatchdog
//@rw R-FOREACH
//@old
for var in state.variables() {
//@new
let vx_vars1 = state.variables(); let mut vx_i1: usize = 0;
    while vx_i1 < vx_vars1.len() { let var = vx_vars1[vx_i1]; vx_i1 += 1;
//@rw R-FOREACH
//@old
for type_var in state.variables() {
//@new
let vx_vars2 = state.variables(); let mut vx_i2: usize = 0;
    while vx_i2 < vx_vars2.len() { let type_var = vx_vars2[vx_i2]; vx_i2 += 1;
//@rw R-FOREACH
//@old
for type_expr in state.inferences(type_var) {
//@new
let vx_exprs3 = vx_refs(state.inferences(type_var)); let mut vx_i3: usize = 0;
        while vx_i3 < vx_exprs3.len() { let type_expr = vx_exprs3[vx_i3]; vx_i3 += 1;
//@rw R-FOREACH
//@old
for (ty_var, inferences) in forest.sets() {
//@new
let vx_sets5 = forest.sets(); let mut vx_i5: usize = 0;
        while vx_i5 < vx_sets5.len() { let (ty_var, inferences) = vx_nth(&vx_sets5, vx_i5); vx_i5 += 1;
//@rw R-CALL
//@old
inferences.into_iter().collect()
//@new
vx_collect_deque(inferences)
//@rw R-FOREACH
//@old
for expression in inferred_expressions {
//@new
loop { let expression = match inferred_expressions.pop_front() { Some(vx_e) => vx_e, None => { break; } };
//@rw R-FOREACH optional
//@old
for var in all_new_ty_vars {
//@new
let vx_new7 = vx_into_vec(all_new_ty_vars); let mut vx_i7: usize = 0;
        while vx_i7 < vx_new7.len()
            invariant
                vx_i7 <= vx_new7.len(),
                forest.wf(),
                grows(&vx_f4, &forest),
                data_eq_free(&forest),                                                                                                //@ob C14.unify.no_equal_enters_class_data
                // what this round still has to apply (ghost ledgers, drained by the three application loops in whatever order they run)
                forall|v: TypeVariable| #[trigger] state.is_var(v) ==> forest.dom(v) || vx_pv.contains(v),                            //@ob C14.unify.every_variable_registered
                forall|e: Equality| #[trigger] vx_emitted.contains(e) ==> same_class(&forest, e.left, e.right) || vx_pe.contains(e),  //@ob C14.unify.emitted_equalities_same_class
                forall|j: Judgement| #[trigger] vx_last_js.contains(j) ==> recorded(&forest, j) || vx_pj.contains(j),                 //@ob C14.unify.emitted_judgements_recorded
                !made_progress ==> all_resolved(&forest),                                                                             //@ob C14.unify.stops_only_at_a_fixpoint
                counter as nat <= forest.enumerated(),
                forall|v: TypeVariable| #[trigger] vx_pv.contains(v) ==> exists|k: int| vx_i7 <= k < vx_new7.len() && #[trigger] vx_new7@[k] == v,
                !made_progress ==> vx_new7.len() == 0,                                                                                //@ob C14.unify.stops_only_at_a_fixpoint
            decreases vx_new7.len() - vx_i7,                                                                                          //@ob C03.unify.application_loops_terminate
        { let var = vx_new7[vx_i7]; vx_i7 += 1; proof { vx_pv = vx_pv.remove(vx_new7@[vx_i7 - 1]); }
//@rw R-FOREACH optional
//@old
for Equality { left, right } in all_equalities {
//@new
let vx_eqs8 = vx_into_vec(all_equalities); let mut vx_i8: usize = 0;
        while vx_i8 < vx_eqs8.len()
            invariant
                vx_i8 <= vx_eqs8.len(),
                forest.wf(),
                grows(&vx_f4, &forest),
                data_eq_free(&forest),                                                                                                //@ob C14.unify.no_equal_enters_class_data
                // what this round still has to apply (ghost ledgers, drained by the three application loops in whatever order they run)
                forall|v: TypeVariable| #[trigger] state.is_var(v) ==> forest.dom(v) || vx_pv.contains(v),                            //@ob C14.unify.every_variable_registered
                forall|e: Equality| #[trigger] vx_emitted.contains(e) ==> same_class(&forest, e.left, e.right) || vx_pe.contains(e),  //@ob C14.unify.emitted_equalities_same_class
                forall|j: Judgement| #[trigger] vx_last_js.contains(j) ==> recorded(&forest, j) || vx_pj.contains(j),                 //@ob C14.unify.emitted_judgements_recorded
                !made_progress ==> all_resolved(&forest),                                                                             //@ob C14.unify.stops_only_at_a_fixpoint
                counter as nat <= forest.enumerated(),
                forall|e: Equality| #[trigger] vx_pe.contains(e) ==> exists|k: int| vx_i8 <= k < vx_eqs8.len() && #[trigger] vx_eqs8@[k] == e,
                !made_progress ==> vx_eqs8.len() == 0,                                                                                //@ob C14.unify.stops_only_at_a_fixpoint
            decreases vx_eqs8.len() - vx_i8,                                                                                          //@ob C03.unify.application_loops_terminate
        { let Equality { left, right } = vx_nth(&vx_eqs8, vx_i8); vx_i8 += 1; proof { vx_pe = vx_pe.remove(vx_eqs8@[vx_i8 - 1]); }
//@rw R-FOREACH optional
//@old
for Judgement { tv, expr } in all_judgements {
//@new
let vx_js9 = vx_into_vec(all_judgements); let mut vx_i9: usize = 0;
        while vx_i9 < vx_js9.len()
            invariant
                vx_i9 <= vx_js9.len(),
                forest.wf(),
                grows(&vx_f4, &forest),
                data_eq_free(&forest),                                                                                                //@ob C14.unify.no_equal_enters_class_data
                // what this round still has to apply (ghost ledgers, drained by the three application loops in whatever order they run)
                forall|v: TypeVariable| #[trigger] state.is_var(v) ==> forest.dom(v) || vx_pv.contains(v),                            //@ob C14.unify.every_variable_registered
                forall|e: Equality| #[trigger] vx_emitted.contains(e) ==> same_class(&forest, e.left, e.right) || vx_pe.contains(e),  //@ob C14.unify.emitted_equalities_same_class
                forall|j: Judgement| #[trigger] vx_last_js.contains(j) ==> recorded(&forest, j) || vx_pj.contains(j),                 //@ob C14.unify.emitted_judgements_recorded
                !made_progress ==> all_resolved(&forest),                                                                             //@ob C14.unify.stops_only_at_a_fixpoint
                counter as nat <= forest.enumerated(),
                forall|j: Judgement| #[trigger] vx_pj.contains(j) ==> exists|k: int| vx_i9 <= k < vx_js9.len() && #[trigger] vx_js9@[k] == j,
                forall|k: int| 0 <= k < vx_js9@.len() ==> !((#[trigger] vx_js9@[k]).expr is Equal),                                   //@ob C14.unify.no_equal_enters_class_data
                !made_progress ==> vx_js9.len() == 0,                                                                                 //@ob C14.unify.stops_only_at_a_fixpoint
            decreases vx_js9.len() - vx_i9,                                                                                           //@ob C03.unify.application_loops_terminate
        { let Judgement { tv, expr } = vx_nth(&vx_js9, vx_i9); vx_i9 += 1; proof { vx_pj = vx_pj.remove(vx_js9@[vx_i9 - 1]); }
//@spec
        requires
            // C01: `counter % poll_every()` panics for 0; nothing in the repository rejects `polling_every(0)`
            old(watchdog).interval() >= 1,
        ensures
            // ---- C14 ----
            r is Ok ==> final(state).forest().wf() && one_equality_free_type_per_class(&final(state).forest()),          //@ob C14.unify.one_equality_free_type_per_class
            r is Ok ==> registers_all(old(state), &final(state).forest()),                                               //@ob C14.unify.every_variable_registered
            r is Ok ==> registers_all(final(state), &final(state).forest()),                                             //@ob C14.unify.every_variable_registered
            r is Ok ==> honours_equalities(old(state), &final(state).forest()),                                          //@ob C14.unify.declared_equal_same_class
            // ---- C13 ----
            r is Err ==> stopped(r) && stopped_at_first_stop(old(watchdog), final(watchdog))
                && final(state).forest() == old(state).forest(),                                                          //@ob C13.unify.stop_returns_error_without_result
            r is Ok ==> every_poll_continued(old(watchdog), final(watchdog)),                                             //@ob C13.unify.ok_only_if_every_poll_continued
            r is Err <==> some_poll_answered_stop(old(watchdog), final(watchdog)),                                        //@ob C13.unify.stopped_iff_some_poll_answered_stop
            final(watchdog).interval() == old(watchdog).interval(),
//@proof entry
    broadcast use container::axiom_question_mark_converts_with_from, lemma_insert, lemma_union, lemma_add_data, lemma_set_data, lemma_sets, lemma_fixpoint_is_the_postcondition;
    let ghost mut vx_due: nat = 0;        // class visits at which a poll was due
    proof { lemma_polls_due_zero(watchdog.interval() as nat); }
    let ghost mut vx_f4: UnificationForest = arbitrary();    // the forest at the start of the current round
    let ghost mut vx_emitted: Set<Equality> = Set::empty();  // every equality the merges have emitted so far (all rounds)
    let ghost mut vx_last_js: Set<Judgement> = Set::empty(); // the judgements the merges of the latest round emitted
    // what the current round still has to apply: fresh variables to insert, equalities to union, judgements to record
    let ghost mut vx_pv: Set<TypeVariable> = Set::empty();
    let ghost mut vx_pe: Set<Equality> = Set::empty();
    let ghost mut vx_pj: Set<Judgement> = Set::empty();
//@loop 1 kind=while
        invariant
            vx_i1 <= vx_vars1.len(),
            forest.wf(),
            forall|k: int| 0 <= k < vx_i1 ==> forest.dom(#[trigger] vx_vars1@[k]),
            forall|v: TypeVariable| forest.dat(v) is None,                                                               //@ob C14.unify.no_equal_enters_class_data
            forest.enumerated() == 0,
        decreases vx_vars1.len() - vx_i1,                                                                                //@ob C03.unify.population_loops_terminate
//@loop 2 kind=while
        invariant
            vx_i2 <= vx_vars2.len(),
            forest.wf(),
            registers_all(state, &forest),                                                                               //@ob C14.unify.every_variable_registered
            data_eq_free(&forest),                                                                                       //@ob C14.unify.no_equal_enters_class_data
            forall|k: int| 0 <= k < vx_i2 ==> honoured_for(state, &forest, #[trigger] vx_vars2@[k]),                       //@ob C14.unify.declared_equal_same_class
            forest.enumerated() == 0,
        decreases vx_vars2.len() - vx_i2,                                                                                //@ob C03.unify.population_loops_terminate
//@loop 3 kind=while
            invariant
                vx_i3 <= vx_exprs3.len(),
                forest.wf(),
                registers_all(state, &forest),                                                                           //@ob C14.unify.every_variable_registered
                data_eq_free(&forest),                                                                                   //@ob C14.unify.no_equal_enters_class_data
                0 < vx_i2 <= vx_vars2.len(), type_var == vx_vars2@[vx_i2 - 1],
                forall|k: int| 0 <= k < vx_i2 - 1 ==> honoured_for(state, &forest, #[trigger] vx_vars2@[k]),                 //@ob C14.unify.declared_equal_same_class
                forall|j: int| 0 <= j < vx_i3 && (*(#[trigger] vx_exprs3@[j])) is Equal
                    ==> same_class(&forest, type_var, (*vx_exprs3@[j])->Equal_id),                                       //@ob C14.unify.declared_equal_same_class
                forest.enumerated() == 0,
            decreases vx_exprs3.len() - vx_i3,                                                                           //@ob C03.unify.population_loops_terminate
//@proof afterloop #1
    proof {
        assert forall|v: TypeVariable| #[trigger] state.is_var(v) implies forest.dom(v) by {
            let k = choose|k: int| 0 <= k < vx_vars1@.len() && vx_vars1@[k] == v;
            assert(forest.dom(vx_vars1@[k]));
        }
    }
//@proof afterloop #3
        proof {
            assert forall|id: TypeVariable| #[trigger] declared_equal(state, type_var, id) implies same_class(&forest, type_var, id) by {
                let e = TypeExpression::Equal { id };
                assert(state.infs(type_var).contains(e));
                let j = choose|j: int| 0 <= j < vx_exprs3@.len() && *(#[trigger] vx_exprs3@[j]) == e;
                assert((*vx_exprs3@[j]) is Equal && (*vx_exprs3@[j])->Equal_id == id);
            }
        }
//@proof afterloop #2
    proof {
        assert forall|v: TypeVariable, id: TypeVariable| #[trigger] declared_equal(state, v, id) implies same_class(&forest, v, id) by {
            let k = choose|k: int| 0 <= k < vx_vars2@.len() && vx_vars2@[k] == v;
            assert(honoured_for(state, &forest, vx_vars2@[k]));
        }
    }
//@loop 4 kind=loop
        invariant
            polling_interval == old(watchdog).interval(), watchdog.interval() == old(watchdog).interval(),
            forest.wf(),
            data_eq_free(&forest),                                                                                       //@ob C14.unify.no_equal_enters_class_data
            registers_all(old(state), &forest),                                                                          //@ob C14.unify.every_variable_registered
            registers_all(state, &forest),                                                                               //@ob C14.unify.every_variable_registered
            honours_equalities(old(state), &forest),                                                                     //@ob C14.unify.declared_equal_same_class
            honours_emitted(vx_emitted, &forest),                                                                        //@ob C14.unify.emitted_equalities_same_class
            records_judgements(vx_last_js, &forest),                                                                     //@ob C14.unify.emitted_judgements_recorded
            every_poll_continued(old(watchdog), watchdog),                                                               //@ob C13.unify.goes_on_only_if_every_poll_continued
            watchdog.polls() == old(watchdog).polls() + vx_due,                                                          //@ob C13.unify.polls_when_counter_is_a_multiple_of_the_interval
            vx_due >= polls_due(counter as nat, polling_interval as nat),                                                //@ob C13.unify.never_fewer_polls_than_one_per_interval_of_folded_classes
            state.forest() == old(state).forest(),                                                                       //@ob C13.unify.stop_returns_error_without_result
            counter as nat <= forest.enumerated(),
//@proof afterloop #4
    // (d) every exit of the fixpoint loop — with loop_isolation(false) the state after the loop is the state at the `break` —
    // leaves a forest in which no class holds more than one expression: only a round without a merge can establish this
    proof { assert(all_resolved(&forest)); }                                                                            //@ob C14.unify.stops_only_at_a_fixpoint C03.unify.stops_only_at_a_fixpoint
//@proof loopstart #4
        proof { vx_f4 = forest; }
//@loop 5 kind=while
            invariant
                vx_i5 <= vx_sets5.len(),
                polling_interval == old(watchdog).interval(), watchdog.interval() == old(watchdog).interval(),
                forest.wf(),
                grows(&vx_f4, &forest),
                data_eq_free(&forest),                                                                                   //@ob C14.unify.no_equal_enters_class_data
                // the vector enumerates the class roots, once each
                forall|k: int| 0 <= k < vx_sets5@.len() ==> forest.is_root((#[trigger] vx_sets5@[k]).0),
                forall|v: TypeVariable| forest.is_root(v) ==> exists|k: int| 0 <= k < vx_sets5@.len() && (#[trigger] vx_sets5@[k]).0 == v,     //@ob C14.unify.one_equality_free_type_per_class
                forall|j: int, k: int| 0 <= j < k < vx_sets5@.len() ==> (#[trigger] vx_sets5@[j]).0 != (#[trigger] vx_sets5@[k]).0,
                // classes not visited yet still hold what `sets()` listed; visited classes hold at most one expression
                forall|k: int| vx_i5 <= k < vx_sets5@.len() ==> forest.dat((#[trigger] vx_sets5@[k]).0) == Some(vx_sets5@[k].1@),
                forall|k: int| 0 <= k < vx_i5 ==> resolved_at(&forest, (#[trigger] vx_sets5@[k]).0),                          //@ob C14.unify.one_equality_free_type_per_class
                // fresh variables reported by the merges of this round wait in all_new_ty_vars
                forall|v: TypeVariable| #[trigger] state.is_var(v) ==> forest.dom(v) || all_new_ty_vars@.contains(v),       //@ob C14.unify.every_variable_registered
                judgements_eq_free(all_judgements@),                                                                     //@ob C14.unify.no_equal_enters_class_data
                // a round without a merge leaves nothing to apply
                !made_progress ==> all_equalities@.len() == 0 && all_judgements@.len() == 0 && all_new_ty_vars@.len() == 0,     //@ob C14.unify.stops_only_at_a_fixpoint
                every_poll_continued(old(watchdog), watchdog),                                                           //@ob C13.unify.goes_on_only_if_every_poll_continued
                watchdog.polls() == old(watchdog).polls() + vx_due,                                                      //@ob C13.unify.polls_when_counter_is_a_multiple_of_the_interval
                vx_due >= polls_due(counter as nat, polling_interval as nat),                                            //@ob C13.unify.never_fewer_polls_than_one_per_interval_of_folded_classes
                state.forest() == old(state).forest(),                                                                   //@ob C13.unify.stop_returns_error_without_result
                forest.enumerated() <= usize::MAX,
                counter as nat + (vx_sets5@.len() - vx_i5) <= forest.enumerated(),
            decreases vx_sets5.len() - vx_i5,                                                                            //@ob C03.unify.class_enumeration_terminates
//@proof loopstart #5
            proof {
                assert(polling_interval >= 1);                                                                           //@ob C01.unify.modulus_not_zero
                // C13: a poll is due at this class visit exactly when the count of folded classes is a multiple of the interval
                if counter as nat % polling_interval as nat == 0 { vx_due = vx_due + 1; }
                lemma_polls_due_step(counter as nat, polling_interval as nat);
            }
//@loop 6 kind=loop
                invariant
                    forest.wf(),
                    !(current is Equal),                                                                                 //@ob C14.unify.merge_precondition
                    forall|k: int| 0 <= k < inferred_expressions@.len() ==> !((#[trigger] inferred_expressions@[k]) is Equal),      //@ob C14.unify.merge_precondition
                    forall|v: TypeVariable| #[trigger] state.is_var(v) ==> forest.dom(v) || all_new_ty_vars@.contains(v),   //@ob C14.unify.every_variable_registered
                    judgements_eq_free(all_judgements@),                                                                 //@ob C14.unify.no_equal_enters_class_data
                    !made_progress ==> all_equalities@.len() == 0 && all_judgements@.len() == 0 && all_new_ty_vars@.len() == 0,     //@ob C14.unify.stops_only_at_a_fixpoint
                    state.forest() == old(state).forest(),                                                               //@ob C13.unify.stop_returns_error_without_result
                decreases inferred_expressions@.len(),                                                                   //@ob C03.unify.fold_terminates
//@proof afterloop #5
        proof {
            assert forall|v: TypeVariable| #[trigger] forest.is_root(v) implies resolved_at(&forest, v) by {
                let k = choose|k: int| 0 <= k < vx_sets5@.len() && (#[trigger] vx_sets5@[k]).0 == v;
                assert(resolved_at(&forest, vx_sets5@[k].0));
            }
            assert(all_resolved(&forest));
            // the equalities this round's merges emitted (component unification, C14) join the ledger: they must be
            // honoured by the end of the round and ever after
            vx_emitted = vx_emitted.union(all_equalities@);
            // ... and the judgements they emitted must be part of their class's data by the end of the round
            vx_last_js = all_judgements@;
            vx_pv = all_new_ty_vars@; vx_pe = all_equalities@; vx_pj = all_judgements@;
        }
//@end
} // verus!
fn main() {}
