//@unit props=C17,C01
// Unit errors — src/error/container.rs: the error buffer `Errors<E>` that strict mode reports from
// (C17: "any error raised while executing any path makes the analysis return an error that lists it").
// Contract: the container NEVER LOSES an error. `add`/`add_located` grow the multiset of recorded
// errors by exactly the new one (no de-duplication, no truncation), `add_many*` by all of the given
// ones, `sort` is a stable permutation ordered by bytecode location, `len`/`payloads` expose them all.
// `Located`, `Locatable`, `Errors::{new, len, is_empty, add}` come with their contracts from the shared
// include stack/container_items.rs (labels C17.err.*); this unit adds `payloads`, `add_many` and the
// located variant `Errors<Located<E>>::{add_located, add_many_located, sort}` (labels C17.errors.*).
#![feature(allocator_api)]   // only to name `Vec<T, A>` in the no-contract shims below (assume_specification must match std's signature)
use vstd::prelude::*;
//@dropped container.rs: Display for Located / Errors (hex::encode, write!, writeln!), derived Clone/Debug/Eq/PartialEq/thiserror::Error
//@dropped the callers that fill the buffer (VM::execute, JumpI::execute: `self.errors.add(..)`) are not under contract here; see units control / limits
//@dropped the `Ord` instance of the sort key (`u32`) is ASSUMED to be the numeric order (ord_le_u32)

pub mod container {
use vstd::prelude::*;
verus! {
//@include stack/container_items.rs

// ---- views ---------------------------------------------------------------------------------------------
/// the errors of `s` recorded at bytecode offset `loc`, in the order they appear in `s`
pub open spec fn at_loc<E: Clone>(s: Seq<Located<E>>, loc: u32) -> Seq<Located<E>> {
    s.filter(|e: Located<E>| e.location == loc)
}
/// ordered by bytecode location
pub open spec fn by_location<E: Clone>(s: Seq<Located<E>>) -> bool {
    forall|i: int, j: int| 0 <= i < j < s.len() ==> s[i].location <= s[j].location
}

// ---- A-STD: what the two std calls of this file do ---------------------------------------------------------
// A-STD (R-CALL stand-in): `Vec::extend(iter)` with a `Vec` as the iterator appends its elements in order
// (vstd ships no specification of `Extend::extend`).
#[verifier::external_body]
pub fn vec_extend<T>(v: &mut Vec<T>, items: Vec<T>)
    ensures final(v)@ == old(v)@ + items@,
{ v.extend(items) }

/// `a <= b` in the `Ord` instance of K
pub uninterp spec fn ord_le<K>(a: K, b: K) -> bool;
// A-STD: core's `Ord` for u32 is the numeric order
pub broadcast axiom fn ord_le_u32(a: u32, b: u32)
    ensures #[trigger] ord_le(a, b) == (a <= b);
pub open spec fn has_key<T, K, F: FnMut(&T,) -> K>(f: F, x: T) -> bool { exists|k: K| f.ensures((&x,), k) }
/// the elements of `s` whose key is `k`, in the order they appear in `s`
pub open spec fn key_class<T, K, F: FnMut(&T,) -> K>(s: Seq<T>, f: F, k: K) -> Seq<T> { s.filter(|x: T| f.ensures((&x,), k)) }
// A-STD: `slice::sort_by_key` is a STABLE sort (std documents it): the result is a permutation of the
// input, ordered by `Ord` on the keys the closure yields, and elements with the same key keep their
// relative order (the subsequence of every key class is unchanged).
pub assume_specification<T, K, F> [<[T]>::sort_by_key] (s: &mut [T], f: F)
    where F: FnMut(&T,) -> K, K: core::cmp::Ord,
    requires forall|x: &T| #[trigger] f.requires((x,)),
    ensures
        final(s)@.to_multiset() == old(s)@.to_multiset(),
        final(s)@.len() == old(s)@.len(),
        forall|i: int, j: int, ki: K, kj: K|
            0 <= i < j < final(s)@.len() && #[trigger] f.ensures((&final(s)@[i],), ki) && #[trigger] f.ensures((&final(s)@[j],), kj) ==> ord_le(ki, kj),
        forall|i: int| 0 <= i < final(s)@.len() ==> #[trigger] has_key::<T, K, F>(f, final(s)@[i]),   // the key function returned for every element
        forall|k: K| #[trigger] key_class::<T, K, F>(final(s)@, f, k) == key_class::<T, K, F>(old(s)@, f, k);   // stability

// Robustness shims (NO contract: anything may be left in the vector), so that an edit that thins the buffer out with
// one of these std calls reaches the postconditions instead of stopping the generated file at "not supported".
pub assume_specification<T, A: core::alloc::Allocator, F, K> [Vec::<T, A>::dedup_by_key] (v: &mut Vec<T, A>, f: F)
    where F: FnMut(&mut T,) -> K, K: core::cmp::PartialEq;
pub assume_specification<T, A: core::alloc::Allocator, F> [Vec::<T, A>::dedup_by] (v: &mut Vec<T, A>, f: F)
    where F: FnMut(&mut T, &mut T,) -> bool;
pub assume_specification<T, A: core::alloc::Allocator, F> [Vec::<T, A>::retain] (v: &mut Vec<T, A>, f: F)
    where F: FnMut(&T,) -> bool;

// ---- Errors<E>: the accessors and add_many ------------------------------------------------------------
//@extract file=src/error/container.rs path="impl<E> Errors<E>#1" kind=header
//@end
//@extract file=src/error/container.rs path="impl<E> Errors<E>#1|fn payloads" id=container::Errors::payloads
//@ret r
//@spec
        ensures r@ == self.log(),       //@ob C17.errors.payloads.lists_every_recorded_error
//@end
}
//@extract file=src/error/container.rs path="impl<E> Errors<E>#2" kind=header
// std::error::Error (Debug + Display) is outside Verus; the bound plays no role in the body
//@rw R-SIG
//@old
E: std::error::Error,
//@new
E: Sized,
//@end
//@extract file=src/error/container.rs path="impl<E> Errors<E>#2|fn add_many" id=container::Errors::add_many
// callers pass a Vec<E> (`Into` is the identity) or an `Errors<E>` (`From<Errors<E>> for Vec<E>`, under contract below)
//@rw R-IMPL-INTO
//@old
errors: impl Into<Vec<E>>
//@new
errors: Vec<E>
//@rw R-IMPL-INTO
//@old
errors.into()
//@new
errors
//@rw R-CALL
//@old
self.payloads.extend($1);
//@new
vec_extend(&mut self.payloads, $1);
//@spec
        ensures
            final(self).log() == old(self).log() + errors@,                                                   //@ob C17.errors.add_many.appends_all_in_order
            final(self).log().to_multiset() == old(self).log().to_multiset().add(errors@.to_multiset()),      //@ob C17.errors.add_many.keeps_every_error
            final(self).log().len() == old(self).log().len() + errors@.len(),                                 //@ob C17.errors.add_many.len
//@proof exit
        proof { vstd::seq_lib::lemma_multiset_commutative(old(self).log(), errors@); }
//@end
}

// ---- ghost lemmas about `filter` (proved) ----------------------------------------------------------------
/// filtering by two predicates that agree on every element gives the same subsequence
pub proof fn lemma_filter_ext<T>(s: Seq<T>, p: spec_fn(T) -> bool, q: spec_fn(T) -> bool)
    requires forall|i: int| 0 <= i < s.len() ==> p(#[trigger] s[i]) == q(s[i]),
    ensures s.filter(p) == s.filter(q),
    decreases s.len(),
{
    reveal(Seq::filter);
    if s.len() > 0 { lemma_filter_ext(s.drop_last(), p, q); }
}
pub proof fn lemma_at_loc_push<E: Clone>(s: Seq<Located<E>>, e: Located<E>, loc: u32)
    ensures at_loc(s.push(e), loc) == (if e.location == loc { at_loc(s, loc).push(e) } else { at_loc(s, loc) }),
{
    reveal(Seq::filter);
    assert(s.push(e).drop_last() =~= s);
}
pub proof fn lemma_at_loc_add<E: Clone>(a: Seq<Located<E>>, b: Seq<Located<E>>, loc: u32)
    ensures at_loc(a + b, loc) == at_loc(a, loc) + at_loc(b, loc),
    decreases b.len(),
{
    if b.len() == 0 {
        reveal(Seq::filter);
        assert(a + b =~= a);
        assert(at_loc(b, loc) =~= Seq::<Located<E>>::empty());
        assert(at_loc(a, loc) + at_loc(b, loc) =~= at_loc(a, loc));
    } else {
        lemma_at_loc_add(a, b.drop_last(), loc);
        assert(a + b =~= (a + b.drop_last()).push(b.last()));
        assert(b =~= b.drop_last().push(b.last()));
        lemma_at_loc_push(a + b.drop_last(), b.last(), loc);
        lemma_at_loc_push(b.drop_last(), b.last(), loc);
        if b.last().location == loc {
            assert((at_loc(a, loc) + at_loc(b.drop_last(), loc)).push(b.last()) =~= at_loc(a, loc) + at_loc(b.drop_last(), loc).push(b.last()));
        }
    }
}

// ---- Errors<Located<E>>: the located variant --------------------------------------------------------------
//@extract file=src/error/container.rs path="impl<E> Errors<Located<E>>" kind=header
// std::error::Error (Debug + Display) is outside Verus; the bound plays no role in the bodies
//@rw R-SIG
//@old
E: std::error::Error + Clone,
//@new
E: Clone,
//@end
//@extract file=src/error/container.rs path="impl<E> Errors<Located<E>>|fn add_located" id=container::Errors::add_located
//@spec
        ensures
            // the new error is recorded, every earlier one is kept (no de-duplication, no truncation)
            final(self).log().to_multiset() == old(self).log().to_multiset().insert(Located { location: instruction_pointer, payload }),   //@ob C17.errors.add_located.keeps_every_error_adds_exactly_one
            final(self).log().len() == old(self).log().len() + 1,                                                                          //@ob C17.errors.add_located.len
            // "located at a byte offset": it is filed under the offset handed in, after the errors already recorded there
            forall|loc: u32| #[trigger] at_loc(final(self).log(), loc) == (if loc == instruction_pointer { at_loc(old(self).log(), loc).push(Located { location: instruction_pointer, payload }) } else { at_loc(old(self).log(), loc) }),   //@ob C17.errors.add_located.filed_under_its_location_in_order_of_occurrence
            by_location(final(self).log()),                                                                                                //@ob C17.errors.add_located.ordered_by_location
//@proof exit
        proof {
            let e = Located { location: instruction_pointer, payload };
            broadcast use vstd::seq_lib::group_to_multiset_ensures;
            assert forall|loc: u32| #[trigger] at_loc(old(self).log().push(e), loc) == (if loc == instruction_pointer { at_loc(old(self).log(), loc).push(e) } else { at_loc(old(self).log(), loc) }) by {
                lemma_at_loc_push(old(self).log(), e, loc);
            }
        }
//@end
//@extract file=src/error/container.rs path="impl<E> Errors<Located<E>>|fn add_many_located" id=container::Errors::add_many_located
// callers pass a Vec (`Into` is the identity) or an `Errors<Located<E>>` (src/tc/mod.rs; `From<Errors<E>> for Vec<E>`, under contract below)
//@rw R-IMPL-INTO
//@old
errors: impl Into<Vec<Located<E>>>
//@new
errors: Vec<Located<E>>
//@rw R-IMPL-INTO
//@old
errors.into()
//@new
errors
//@rw R-CALL
//@old
self.payloads.extend($1);
//@new
vec_extend(&mut self.payloads, $1);
//@spec
        ensures
            final(self).log().to_multiset() == old(self).log().to_multiset().add(errors@.to_multiset()),      //@ob C17.errors.add_many_located.keeps_every_error_adds_all
            final(self).log().len() == old(self).log().len() + errors@.len(),                                 //@ob C17.errors.add_many_located.len
            forall|loc: u32| #[trigger] at_loc(final(self).log(), loc) == at_loc(old(self).log(), loc) + at_loc(errors@, loc),   //@ob C17.errors.add_many_located.filed_under_their_locations_in_order_of_occurrence
            by_location(final(self).log()),                                                                   //@ob C17.errors.add_many_located.ordered_by_location
//@proof exit
        proof {
            vstd::seq_lib::lemma_multiset_commutative(old(self).log(), errors@);
            assert forall|loc: u32| #[trigger] at_loc(old(self).log() + errors@, loc) == at_loc(old(self).log(), loc) + at_loc(errors@, loc) by {
                lemma_at_loc_add(old(self).log(), errors@, loc);
            }
        }
//@end
//@extract file=src/error/container.rs path="impl<E> Errors<Located<E>>|fn sort" id=container::Errors::sort
// R-SIG: the key closure gets a declared postcondition (Verus infers none); its body `$1` stays repository text and
// is verified against `k == item.location` ("sorts the errors based on their bytecode location")
//@rw R-SIG
//@old
self.payloads.sort_by_key(|$2| $1);
//@new
let sort_key_fn = |$2: &Located<E>| -> (k: u32) ensures k == $2.location { $1 };
        self.payloads.sort_by_key(sort_key_fn);
//@spec
        ensures
            final(self).log().to_multiset() == old(self).log().to_multiset(),                              //@ob C17.errors.sort.permutation_loses_nothing
            final(self).log().len() == old(self).log().len(),                                              //@ob C17.errors.sort.len
            by_location(final(self).log()),                                                                //@ob C17.errors.sort.ordered_by_location
            forall|loc: u32| #[trigger] at_loc(final(self).log(), loc) == at_loc(old(self).log(), loc),    //@ob C17.errors.sort.stable
//@proof exit
        proof {
            broadcast use ord_le_u32;
            broadcast use vstd::seq_lib::group_to_multiset_ensures;
            let s0 = old(self).payloads@;
            let s1 = self.payloads@;
            // every element (of the result, hence of the input: same multiset) has the key `location`
            assert forall|i: int| 0 <= i < s1.len() implies #[trigger] sort_key_fn.ensures((&s1[i],), s1[i].location) by {
                assert(has_key::<Located<E>, u32, _>(sort_key_fn, s1[i]));
            }
            assert forall|i: int| 0 <= i < s0.len() implies #[trigger] sort_key_fn.ensures((&s0[i],), s0[i].location) by {
                assert(s0.contains(s0[i]));
                assert(s1.to_multiset().count(s0[i]) > 0);
                assert(s1.contains(s0[i]));
                let j = choose|j: int| 0 <= j < s1.len() && s1[j] == s0[i];
                assert(sort_key_fn.ensures((&s1[j],), s1[j].location));
            }
            assert forall|i: int, j: int| 0 <= i < j < s1.len() implies s1[i].location <= s1[j].location by {
                assert(sort_key_fn.ensures((&s1[i],), s1[i].location) && sort_key_fn.ensures((&s1[j],), s1[j].location));
                assert(ord_le(s1[i].location, s1[j].location));
            }
            assert forall|loc: u32| #[trigger] at_loc(s1, loc) == at_loc(s0, loc) by {
                let p = |x: Located<E>| sort_key_fn.ensures((&x,), loc);
                let q = |e: Located<E>| e.location == loc;
                lemma_filter_ext(s1, p, q);
                lemma_filter_ext(s0, p, q);
                assert(key_class::<Located<E>, u32, _>(s1, sort_key_fn, loc) == key_class::<Located<E>, u32, _>(s0, sort_key_fn, loc));
            }
        }
//@end
}

// ---- conversions: nothing is lost on the way in or out (callers hand an `Errors<_>` to add_many_located through these) ----
impl<E> vstd::std_specs::convert::FromSpecImpl<Errors<E>> for Vec<E> {
    open spec fn obeys_from_spec() -> bool { false }
    open spec fn from_spec(v: Errors<E>) -> Vec<E> { arbitrary() }
}
impl<E> vstd::std_specs::convert::FromSpecImpl<Vec<E>> for Errors<E> {
    open spec fn obeys_from_spec() -> bool { false }
    open spec fn from_spec(v: Vec<E>) -> Errors<E> { arbitrary() }
}
//@extract file=src/error/container.rs path="impl<E> Default for Errors<E>" kind=header
//@end
//@extract file=src/error/container.rs path="impl<E> Default for Errors<E>|fn default" id=container::Errors::default
//@ret r
//@spec
        ensures r.log() == Seq::<E>::empty(),        //@ob C17.errors.default.empty
//@end
}
//@extract file=src/error/container.rs path="impl<E> From<Errors<E>> for Vec<E>" kind=header
//@rw R-SIG
//@old
E: std::error::Error,
//@new
E: Sized,
//@end
//@extract file=src/error/container.rs path="impl<E> From<Errors<E>> for Vec<E>|fn from" id=container::Vec::from_errors
//@ret r
//@spec
        ensures r@ == value.log(),                   //@ob C17.errors.into_vec.lists_every_recorded_error
//@end
}
//@extract file=src/error/container.rs path="impl<E> From<Vec<E>> for Errors<E>" kind=header
//@rw R-SIG
//@old
E: std::error::Error,
//@new
E: Sized,
//@end
//@extract file=src/error/container.rs path="impl<E> From<Vec<E>> for Errors<E>|fn from" id=container::Errors::from_vec
//@ret r
//@spec
        ensures r.log() == value@,                   //@ob C17.errors.from_vec.keeps_every_error
//@end
}
impl<E> vstd::std_specs::convert::FromSpecImpl<E> for Errors<E> {
    open spec fn obeys_from_spec() -> bool { false }
    open spec fn from_spec(v: E) -> Errors<E> { arbitrary() }
}
//@extract file=src/error/container.rs path="impl<E> From<E> for Errors<E>" kind=header
//@rw R-SIG
//@old
E: std::error::Error,
//@new
E: Sized,
//@end
//@extract file=src/error/container.rs path="impl<E> From<E> for Errors<E>|fn from" id=container::Errors::from_one
//@ret r
//@spec
        ensures r.log() == seq![value],              //@ob C17.errors.from_one.lists_it
//@end
}
} // verus!
}
fn main() {}
