//@unit props=C12,C05,C06,C01
// Unit packed_lift — the packed-encoding lift and the two inference rules that carry span geometry from the
// value tree into the typing state: properties C12 "every entry lies inside its 256-bit slot" (slice: where a
// packed span's (offset, size) comes from, that it is validated, and that it is handed on unchanged), C05 / C06
// (slice: the lift neither invents a storage write nor drops one, nor changes its key; of the operands of the
// packed word only the self-copies are dropped) and C01 (slice: panic-freedom of these functions under the
// STATED tree invariant established by the two producer lifts of unit arith_sites).
//
//   src/tc/lift/packed_encoding.rs   unpick_ors, lift_packed_encodings (nested in PackedEncoding::run), run
//   src/tc/rule/packed_encoding.rs   PackedEncodingRule::infer
//   src/tc/rule/masked_word.rs       MaskedWordRule::infer
//   (+ PackedSpan::new, Span::new, TE::{word, numeric, bytes}, TCSV::type_var, TypeCheckerState::{var_unchecked, infer_for})
//
// Everything marked A-... is an ASSUMPTION. The iterator chains of lift_packed_encodings / PackedEncodingRule
// are desugared (R-FOREACH) into index loops that run the closure bodies VERBATIM (`$n` captures carry the
// repository text over; no comparison, constant, operator or branch is retyped).
use vstd::prelude::*;
use std::sync::Arc;
//@include common/value_tree_items.rs
#[allow(dead_code, unused)]
mod pl_ext {
    // A-ETHNUM: stand-in for ethnum::U256 (external crate); only a field type of `TypeExpression` here.
    #[derive(Clone, Copy, PartialEq, Eq)]
    pub struct U256(pub [u128; 2]);
    // A-EXT: the error container only appears in return types.
    pub struct Errors(pub u8);
}
use pl_ext::U256;
#[allow(dead_code, unused)]
mod error { pub mod unification { pub type Result<T> = std::result::Result<T, crate::pl_ext::Errors>; } }
use error::unification::Result;

verus! {

#[verifier::external_type_specification]
#[verifier::external_body]
pub struct ExU256(U256);
#[verifier::external_type_specification]
#[verifier::external_body]
pub struct ExErrors(pl_ext::Errors);

//@extract file=src/constant.rs path="const WORD_SIZE_BITS" kind=type
//@end

// =====================================================================================================
//                                       specification vocabulary
// =====================================================================================================

/// the operands of the OR-tree rooted at `v`, left to right ("all at the same semantic level")
pub open spec fn ors_of(v: RuntimeBoxedVal) -> Seq<RuntimeBoxedVal>
    decreases v,
{
    match v.dt() {
        RSVD::Or { left, right } => ors_of(left) + ors_of(right),
        _ => seq![v],
    }
}

/// a segment of a packed word: a sub-word, or a shift (whatever it shifts)
pub open spec fn is_seg(e: RuntimeBoxedVal) -> bool { e.dt() is Shifted || e.dt() is SubWord }

/// the span an operand describes. GEOMETRY (C12): a sub-word brings its own offset and size and stands for
/// itself; a shifted sub-word sits at the SHIFT's offset with the SUB-WORD's size and stands for the sub-word.
pub open spec fn span_of(e: RuntimeBoxedVal) -> Option<PackedSpan<()>> {
    match e.dt() {
        RSVD::SubWord { offset, size, .. } => Some(PackedSpan { offset, size, value: e }),
        RSVD::Shifted { offset, value } => match value.dt() {
            RSVD::SubWord { size, .. } => Some(PackedSpan { offset, size, value }),
            _ => None,
        },
        _ => None,
    }
}

/// A-CALLEE-established tree invariant (NOT proved here; its producers are under contract in unit
/// arith_sites): a `SubWord` node lies inside the word (C12.arith.sub_word.region_inside_slot), a `Shifted`
/// node shifts by at most a word (C12.arith.mul_shifted.shift_inside_slot) and wraps a `SubWord` node (what
/// `insert_multiplicative_shifts` matches on and then rebuilds through the traversal — that last fact is not
/// a labelled obligation anywhere: see //@dropped). Consequence used: `offset + size <= 512`, no overflow.
pub open spec fn seg_ok(e: RuntimeBoxedVal) -> bool {
    match e.dt() {
        RSVD::SubWord { offset, size, .. } => offset + size <= 256,
        RSVD::Shifted { offset, value } => offset <= 256
            && (value.dt() matches RSVD::SubWord { offset: o2, size: s2, .. } && o2 + s2 <= 256),
        _ => true,
    }
}

pub open spec fn end_of(s: PackedSpan<()>) -> int { s.offset + s.size }

/// A-DERIVE: `==` on values is derivative's PartialEq on `SymbolicValue` (instruction pointer and provenance
/// IGNORED, payload / aux data / size compared, through the `Arc`s): uninterpreted here.
pub uninterp spec fn val_eq(a: RSV, b: RSV) -> bool;

/// "unused": the span is a sub-word that directly reads the very slot being written
pub open spec fn self_copy(s: PackedSpan<()>, key: RuntimeBoxedVal) -> bool {
    s.value.dt() matches RSVD::SubWord { value, .. } && (value.dt() matches RSVD::SLoad { key: ik, .. } && val_eq(*key, *ik))
}

/// where the span before position `k` ends (0 before the first)
pub open spec fn end_before(s: Seq<PackedSpan<()>>, k: int) -> int {
    if k <= 0 { 0 } else { end_of(s[k - 1]) }
}
/// each of the first `n` spans starts no earlier than its predecessor ends
#[verifier::opaque]
pub open spec fn chain(s: Seq<PackedSpan<()>>, n: int) -> bool {
    forall|k: int| 0 <= k < n ==> end_before(s, k) <= (#[trigger] s[k]).offset
}
/// in order, inside the word, not overlapping
pub open spec fn ordered_inside(s: Seq<PackedSpan<()>>) -> bool {
    &&& forall|k: int| 0 <= k < s.len() ==> end_of(#[trigger] s[k]) <= 256
    &&& forall|a: int, b: int| 0 <= a < b < s.len() ==> end_of(#[trigger] s[a]) <= (#[trigger] s[b]).offset
}

proof fn lemma_chain(s: Seq<PackedSpan<()>>, n: int)
    requires 0 <= n <= s.len(), chain(s, n),
    ensures
        forall|k: int| 0 <= k < n ==> end_of(#[trigger] s[k]) <= end_before(s, n),
        forall|a: int, b: int| 0 <= a < b < n ==> end_of(#[trigger] s[a]) <= (#[trigger] s[b]).offset,
    decreases n,
{
    reveal(chain);
    if n > 0 {
        assert(chain(s, n - 1));
        lemma_chain(s, n - 1);
        assert(end_before(s, n - 1) <= s[n - 1].offset);
    }
}

/// the operand spans, all of them (the dropped ones too)
#[verifier::opaque]
pub open spec fn op_spans(ops: Seq<RuntimeBoxedVal>, m: Seq<PackedSpan<()>>) -> bool {
    m.len() == ops.len() && forall|i: int| 0 <= i < ops.len() ==> span_of(#[trigger] ops[i]) == Some(m[i])
}
pub open spec fn disjoint(a: PackedSpan<()>, b: PackedSpan<()>) -> bool { end_of(a) <= b.offset || end_of(b) <= a.offset }

/// `m` describes spans that all lie inside the word and do not overlap pairwise
pub open spec fn spans_valid(m: Seq<PackedSpan<()>>) -> bool {
    &&& forall|i: int| 0 <= i < m.len() ==> end_of(#[trigger] m[i]) <= 256
    &&& forall|i: int, j: int| 0 <= i < m.len() && 0 <= j < m.len() && i != j ==> disjoint(#[trigger] m[i], #[trigger] m[j])
}

/// the elements of the packed value of a lifted write
pub open spec fn packed_elems(d: RSVD) -> Seq<PackedSpan<()>> {
    match d {
        RSVD::StorageWrite { value, .. } => match value.dt() { RSVD::Packed { elements } => elements@, _ => Seq::empty() },
        _ => Seq::empty(),
    }
}

pub open spec fn w_ops(d: RSVD) -> Seq<RuntimeBoxedVal> {
    match d { RSVD::StorageWrite { value, .. } => ors_of(value), _ => Seq::empty() }
}
pub open spec fn w_key(d: RSVD) -> RuntimeBoxedVal { match d { RSVD::StorageWrite { key, .. } => key, _ => arbitrary() } }
pub open spec fn w_val(d: RSVD) -> RuntimeBoxedVal { match d { RSVD::StorageWrite { value, .. } => value, _ => arbitrary() } }
pub open spec fn the_span(e: RuntimeBoxedVal) -> PackedSpan<()> { match span_of(e) { Some(s) => s, None => arbitrary() } }
pub open spec fn spans_of(ops: Seq<RuntimeBoxedVal>) -> Seq<PackedSpan<()>> { Seq::new(ops.len(), |i: int| the_span(ops[i])) }
/// `s` is the span of one of the operands, geometry and value exactly
pub open spec fn from_operand(ops: Seq<RuntimeBoxedVal>, s: PackedSpan<()>) -> bool {
    exists|i: int| 0 <= i < ops.len() && span_of(#[trigger] ops[i]) == Some(s)
}
pub open spec fn all_segs(ops: Seq<RuntimeBoxedVal>) -> bool { forall|i: int| 0 <= i < ops.len() ==> is_seg(#[trigger] ops[i]) }
pub open spec fn all_positive(m: Seq<PackedSpan<()>>) -> bool { forall|i: int| 0 <= i < m.len() ==> (#[trigger] m[i]).size > 0 }

/// `used` = the spans among the first `n` of `s` that are not self-copies, in order (`from`: where each came from)
#[verifier::opaque]
pub open spec fn kept_from(s: Seq<PackedSpan<()>>, n: int, key: RuntimeBoxedVal, used: Seq<PackedSpan<()>>, from: Seq<int>) -> bool {
    &&& from.len() == used.len()
    &&& forall|k: int| 0 <= k < used.len() ==> 0 <= #[trigger] from[k] < n && used[k] == s[from[k]] && !self_copy(used[k], key)
    &&& forall|a: int, b: int| 0 <= a < b < used.len() ==> #[trigger] from[a] < #[trigger] from[b]
    &&& forall|m: int| 0 <= m < n ==> self_copy(#[trigger] s[m], key) || exists|k: int| 0 <= k < used.len() && #[trigger] from[k] == m
}

/// one turn of the validation loop
proof fn lemma_chain_step(s: Seq<PackedSpan<()>>, j: int)
    requires 0 <= j < s.len(),
    ensures
        chain(s, 0),
        chain(s, j + 1) == (chain(s, j) && end_before(s, j) <= s[j].offset),
{
    reveal(chain);
    if chain(s, j) && end_before(s, j) <= s[j].offset {
        assert forall|k: int| 0 <= k < j + 1 implies end_before(s, k) <= (#[trigger] s[k]).offset by { }
    }
    if chain(s, j + 1) {
        assert(end_before(s, j) <= s[j].offset);
    }
}
proof fn lemma_chain_empty(s: Seq<PackedSpan<()>>)
    ensures chain(s, 0),
{
    reveal(chain);
}

/// one turn of the mapping loop
proof fn lemma_map_step(ops: Seq<RuntimeBoxedVal>, n: int, m0: Seq<PackedSpan<()>>, sp: PackedSpan<()>)
    requires
        0 <= n < ops.len(),
        op_spans(ops.take(n), m0),
        span_of(ops[n]) == Some(sp),                                                              //@ob C12.pl.lift.span_geometry_is_the_operands
    ensures
        op_spans(ops.take(n + 1), m0.push(sp)),
{
    reveal(op_spans);
    let o2 = ops.take(n + 1);
    let m2 = m0.push(sp);
    assert forall|i: int| 0 <= i < o2.len() implies span_of(#[trigger] o2[i]) == Some(m2[i]) by {
        if i < n { assert(o2[i] == ops.take(n)[i]); }
    }
}
proof fn lemma_map_empty(ops: Seq<RuntimeBoxedVal>)
    ensures op_spans(ops.take(0), Seq::<PackedSpan<()>>::empty()),
{
    reveal(op_spans);
}

/// after the sort: all operands mapped; no span of the sorted sequence can overflow `offset + size`
proof fn lemma_after_sort(ops: Seq<RuntimeBoxedVal>, m: Seq<PackedSpan<()>>, s: Seq<PackedSpan<()>>)
    requires
        op_spans(ops.take(ops.len() as int), m),
        is_permutation(m, s),                                                                     //@ob C12.pl.lift.sorted_by_offset
        forall|k: int| 0 <= k < ops.len() ==> seg_ok(#[trigger] ops[k]),
    ensures
        op_spans(ops, m),
        s.len() == m.len(),
        forall|a: int| 0 <= a < s.len() ==> end_of(#[trigger] s[a]) <= 512,
{
    reveal(op_spans);
    reveal(is_permutation);
    assert(ops.take(ops.len() as int) =~= ops);
    assert forall|a: int| 0 <= a < s.len() implies end_of(#[trigger] s[a]) <= 512 by {
        let i = sort_src(m, s, a);
        assert(s[a] == m[i] && span_of(ops[i]) == Some(m[i]) && seg_ok(ops[i]));
    }
}
proof fn lemma_keep_empty(s: Seq<PackedSpan<()>>, key: RuntimeBoxedVal)
    ensures kept_from(s, 0, key, Seq::<PackedSpan<()>>::empty(), Seq::<int>::empty()),
{
    reveal(kept_from);
}

proof fn lemma_keep_step(s: Seq<PackedSpan<()>>, n: int, key: RuntimeBoxedVal, used: Seq<PackedSpan<()>>, from: Seq<int>, keep: bool)
    requires
        0 <= n < s.len(),
        kept_from(s, n, key, used, from),
        keep == !self_copy(s[n], key),                                                            //@ob C06.pl.lift.only_self_copies_dropped
    ensures
        keep ==> kept_from(s, n + 1, key, used.push(s[n]), from.push(n)),
        !keep ==> kept_from(s, n + 1, key, used, from),
{
    reveal(kept_from);
    if keep {
        let u2 = used.push(s[n]);
        let f2 = from.push(n);
        assert forall|m: int| 0 <= m < n + 1 implies self_copy(#[trigger] s[m], key) || exists|k: int| 0 <= k < u2.len() && #[trigger] f2[k] == m by {
            if m < n {
                if !self_copy(s[m], key) {
                    let k = choose|k: int| 0 <= k < used.len() && #[trigger] from[k] == m;
                    assert(f2[k] == m);
                }
            } else {
                assert(f2[used.len() as int] == m);
            }
        }
    } else {
        assert forall|m: int| 0 <= m < n + 1 implies self_copy(#[trigger] s[m], key) || exists|k: int| 0 <= k < used.len() && #[trigger] from[k] == m by {
            if m < n && !self_copy(s[m], key) {
                let k = choose|k: int| 0 <= k < used.len() && #[trigger] from[k] == m;
            }
        }
    }
}

/// everything the lift's postconditions need, from what its four phases established
proof fn lemma_lift(ops: Seq<RuntimeBoxedVal>, m: Seq<PackedSpan<()>>, s: Seq<PackedSpan<()>>, key: RuntimeBoxedVal,
                    used: Seq<PackedSpan<()>>, from: Seq<int>, valid: bool)
    requires
        op_spans(ops, m),
        is_permutation(m, s),                                                                     //@ob C12.pl.lift.sorted_by_offset
        forall|a: int, b: int| 0 <= a < b < s.len() ==> (#[trigger] s[a]).offset <= (#[trigger] s[b]).offset,   //@ob C12.pl.lift.sorted_by_offset
        kept_from(s, s.len() as int, key, used, from),
        valid == (chain(s, s.len() as int) && end_before(s, s.len() as int) <= 256),              //@ob C12.pl.lift.spans_end_inside_the_word
    ensures
        m =~= spans_of(ops),
        valid ==> ordered_inside(used),
        valid ==> spans_valid(m),
        forall|k: int| 0 <= k < used.len() ==> from_operand(ops, #[trigger] used[k]) && !self_copy(used[k], key),
        forall|i: int| 0 <= i < ops.len() ==> (span_of(#[trigger] ops[i]) matches Some(sp) && (self_copy(sp, key) || used.contains(sp))),
        spans_valid(m) && all_positive(m) ==> valid,
{
    reveal(op_spans);
    reveal(is_permutation);
    reveal(kept_from);
    reveal(chain);
    let n = s.len() as int;
    if valid {
        lemma_chain(s, n);
        assert(ordered_inside(s));
        assert forall|k: int| 0 <= k < used.len() implies end_of(#[trigger] used[k]) <= 256 by {
            assert(used[k] == s[from[k]]);
        }
        assert forall|a: int, b: int| 0 <= a < b < used.len() implies end_of(#[trigger] used[a]) <= (#[trigger] used[b]).offset by {
            assert(used[a] == s[from[a]] && used[b] == s[from[b]] && from[a] < from[b]);
        }
        assert forall|i: int, j: int| 0 <= i < m.len() && 0 <= j < m.len() && i != j implies disjoint(#[trigger] m[i], #[trigger] m[j]) by {
            let a = sort_dst(m, s, i);
            let b = sort_dst(m, s, j);
            assert(s[a] == m[i] && s[b] == m[j]);
            if a < b { assert(end_of(s[a]) <= s[b].offset); } else { assert(b < a); assert(end_of(s[b]) <= s[a].offset); }
        }
        assert forall|i: int| 0 <= i < m.len() implies end_of(#[trigger] m[i]) <= 256 by {
            let a = sort_dst(m, s, i);
            assert(s[a] == m[i]);
        }
    }
    assert forall|k: int| 0 <= k < used.len() implies from_operand(ops, #[trigger] used[k]) && !self_copy(used[k], key) by {
        let i = sort_src(m, s, from[k]);
        assert(span_of(ops[i]) == Some(used[k]));
    }
    assert forall|i: int| 0 <= i < ops.len() implies (span_of(#[trigger] ops[i]) matches Some(sp) && (self_copy(sp, key) || used.contains(sp))) by {
        assert(span_of(ops[i]) == Some(m[i]));
        let a = sort_dst(m, s, i);
        assert(s[a] == m[i]);
        if !self_copy(s[a], key) {
            let k = choose|k: int| 0 <= k < used.len() && #[trigger] from[k] == a;
            assert(used[k] == m[i]);
        }
    }
    if spans_valid(m) && all_positive(m) {
        assert forall|k: int| 0 <= k < n implies end_before(s, k) <= (#[trigger] s[k]).offset by {
            if k > 0 {
                let i = sort_src(m, s, k - 1);
                let j = sort_src(m, s, k);
                assert(s[k - 1] == m[i] && s[k] == m[j]);
                assert(i != j);
                assert(disjoint(m[i], m[j]));
                assert(s[k - 1].offset <= s[k].offset);
            }
        }
        if n > 0 {
            let i = sort_src(m, s, n - 1);
            assert(s[n - 1] == m[i]);
        }
    }
}

// =====================================================================================================
//                                       stand-ins (ASSUMPTIONS)
// =====================================================================================================

// A-STD: `Vec::extend(Vec)` appends the elements of the argument in order (alloc::vec; generic over
// IntoIterator, outside Verus' reach). R-CALL target.
#[verifier::external_body]
fn vx_extend(v: &mut Vec<RuntimeBoxedVal>, other: Vec<RuntimeBoxedVal>)
    ensures final(v)@ == old(v)@ + other@,
{ v.extend(other) }

// A-STD (itertools): `iter.sorted_by_key(f).collect::<Vec<_>>()` = the elements in a PERMUTATION of their
// order (given as a pair of mutually inverse index maps `sort_src` / `sort_dst`) in which the keys that `f`
// yields are ascending (`Ord` on usize is `<=`). Stability is NOT assumed. Style of unit layout's sort_by_key.
pub uninterp spec fn sort_src<T>(input: Seq<T>, output: Seq<T>, i: int) -> int;
pub uninterp spec fn sort_dst<T>(input: Seq<T>, output: Seq<T>, i: int) -> int;
#[verifier::opaque]
pub open spec fn is_permutation<T>(input: Seq<T>, output: Seq<T>) -> bool {
    &&& output.len() == input.len()
    &&& forall|a: int| 0 <= a < output.len() ==> 0 <= #[trigger] sort_src(input, output, a) < input.len()
            && output[a] == input[sort_src(input, output, a)] && sort_dst(input, output, sort_src(input, output, a)) == a
    &&& forall|i: int| 0 <= i < input.len() ==> 0 <= #[trigger] sort_dst(input, output, i) < output.len()
            && sort_src(input, output, sort_dst(input, output, i)) == i
}
pub open spec fn has_key<T, F: Fn(&T,) -> usize>(f: F, x: T) -> bool { exists|k: usize| f.ensures((&x,), k) }
#[verifier::external_body]
fn vx_sorted_by_key<T, F: Fn(&T,) -> usize>(v: Vec<T>, f: F) -> (r: Vec<T>)
    requires forall|x: &T| #[trigger] f.requires((x,)),
    ensures
        is_permutation(v@, r@),
        forall|i: int, j: int, ki: usize, kj: usize|
            0 <= i < j < r@.len() && #[trigger] f.ensures((&r@[i],), ki) && #[trigger] f.ensures((&r@[j],), kj) ==> ki <= kj,
        forall|i: int| 0 <= i < r@.len() ==> #[trigger] has_key::<T, F>(f, r@[i]),
{ unimplemented!() }

// A-DERIVE / A-STD: `a == b` on two `&Arc<SymbolicValue>` = `PartialEq for Arc<T>` (std: `**a == **b`) over
// derivative's PartialEq on `SymbolicValue` (see `val_eq`). vstd has no PartialEq model for `Arc`, and the orphan
// rule forbids giving one here, so the operator call itself is the R-CALL target (operands and their order kept).
#[verifier::external_body]
fn vx_same_value(a: &RuntimeBoxedVal, b: &RuntimeBoxedVal) -> (r: bool)
    ensures r == val_eq(**a, **b),
{ unimplemented!() }

impl RSV {
    // A-CALLEE: `RSV::new` — contract PROVED in unit value_size (C18.vs.new.no_limit_untouched, C18.vs.new.frame);
    // restated without its no-overflow precondition `child_size() + 1` (see //@dropped).
    #[verifier::external_body]
    pub fn new(instruction_pointer: u32, data: RSVD, provenance: Provenance, value_size_limit: Option<usize>) -> (r: RuntimeBoxedVal)
        ensures
            value_size_limit is None ==> r.dt() == data,
            r.ip() == instruction_pointer && r.prov() == provenance,
    { unimplemented!() }

    // A-CALLEE: the traversal combinator: uninterpreted per function item (determinism only).
    #[verifier::external_body]
    pub fn transform_data<F: Fn(&RSVD) -> Option<RSVD> + Copy>(&self, transform: F) -> (r: RuntimeBoxedVal)
        ensures *r == txf(*self, transform)
    { unimplemented!() }
}
pub uninterp spec fn txf<F>(v: RSV, f: F) -> RSV;

//@extract file=src/vm/value/mod.rs path="impl<AuxData> PackedSpan<AuxData>#1" kind=header
//@end
//@extract file=src/vm/value/mod.rs path="impl<AuxData> PackedSpan<AuxData>#1|fn new" props=C12
//@ret r
//@spec
        ensures r == (PackedSpan { offset, size, value }),                                        //@ob C12.pl.packed_span_new.fields
//@end
}

// =====================================================================================================
//                                   src/tc/lift/packed_encoding.rs
// =====================================================================================================
//@extract file=src/tc/lift/packed_encoding.rs path="impl Lift for PackedEncoding|fn run|fn unpick_ors" props=C06,C01
//@ret r
//@rw R-CALL optional
//@old
left_ors.extend(right_ors);
//@new
vx_extend(&mut left_ors, right_ors);
//@spec
    ensures
        r@ == ors_of(data),                                                                       //@ob C06.pl.unpick_ors.every_operand_once_in_order
    decreases data,
//@end

// Rewrites of lift_packed_encodings (all R-FOREACH desugarings run the closure bodies verbatim through `$n`):
//   1. `for PAT in &spans {`                       -> index loop, `let PAT = &spans[j];` (Verus has no pattern `for` over `&Vec`)
//   2. `let true = elements.iter().map(F).all(|r| r) else {`  -> index loop accumulating `vx_all && F(e)`, then `let true = vx_all else {`
//   3. `elements.into_iter().map(F).sorted_by_key(K).collect()` -> by-value loop pushing `F(e)`, then the assumed `vx_sorted_by_key(.., K)`
//   3'. the same chain WITHOUT `.sorted_by_key(..)` (optional, matches only when 3 does not): kept so that an edit that drops the
//       sort reaches the verifier — it then fails the "sorted permutation" preconditions of lemma_after_sort / lemma_lift
//       (label C12.pl.lift.sorted_by_offset) — instead of dying as a lost anchor
//   4. `PAT if A == B )` in the filter's `matches!` -> `vx_same_value(A, B)` (R-CALL: PartialEq on Arc, operands kept)
//   5. `spans.into_iter().filter(P).collect()`     -> by-value loop pushing the span when `P(&span)`
//@extract file=src/tc/lift/packed_encoding.rs path="impl Lift for PackedEncoding|fn run|fn lift_packed_encodings"
//@ret r
//@rw R-FOREACH
//@old
; for $1 in &spans {
//@new
;
            let mut vx_j: usize = 0;
            while vx_j < spans.len() { let $1 = &spans[vx_j]; vx_j += 1;
//@rw R-FOREACH
//@old
let true = elements
                .iter()
                .map(|e| $1)
                .all(|r| r)
            else {
//@new
let mut vx_all = true;
            let mut vx_i: usize = 0;
            while vx_i < elements.len()
                invariant
                    vx_i <= elements.len(),
                    vx_all == (forall|k: int| 0 <= k < vx_i ==> is_seg(#[trigger] elements@[k])),       //@ob C12.pl.lift.operands_are_segments
                decreases elements.len() - vx_i,
            {
                let e = &elements[vx_i];
                let r = $1;
                vx_all = vx_all && r;
                vx_i += 1;
            }
            let true = vx_all
            else {
//@rw R-FOREACH optional
//@old
let spans: Vec<PackedSpan<()>> = elements
                .into_iter()
                .map(|e| $1)
                .sorted_by_key(|elem| $2)
                .collect();
//@new
let ghost vx_ops = elements@;
            let mut vx_mapped: Vec<PackedSpan<()>> = Vec::new();
            proof { lemma_map_empty(vx_ops); }
            for e in vx_it: elements
                invariant
                    vx_it.seq() == vx_ops,
                    forall|k: int| 0 <= k < vx_ops.len() ==> is_seg(#[trigger] vx_ops[k]) && seg_ok(vx_ops[k]),
                    op_spans(vx_ops.take(vx_it.index@ as int), vx_mapped@),                      //@ob C12.pl.lift.span_geometry_is_the_operands
            {
                let ghost vx_m0 = vx_mapped@;
                let vx_s = $1;
                proof { lemma_map_step(vx_ops, vx_it.index@ as int, vx_m0, vx_s); }
                vx_mapped.push(vx_s);
            }
            let ghost vx_m = vx_mapped@;
            let vx_key = |elem: &PackedSpan<()>| -> (vx_k: usize) ensures vx_k == elem.offset { $2 };   //@ob C12.pl.lift.sorted_by_offset
            let spans: Vec<PackedSpan<()>> = vx_sorted_by_key(vx_mapped, vx_key);
            proof {
                assert forall|a: int, b: int| 0 <= a < b < spans@.len() implies (#[trigger] spans@[a]).offset <= (#[trigger] spans@[b]).offset by {
                    assert(has_key::<PackedSpan<()>, _>(vx_key, spans@[a]));
                    assert(has_key::<PackedSpan<()>, _>(vx_key, spans@[b]));
                    let ka = choose|k: usize| vx_key.ensures((&spans@[a],), k);
                    let kb = choose|k: usize| vx_key.ensures((&spans@[b],), k);
                    assert(ka <= kb);
                }
                lemma_after_sort(vx_ops, vx_m, spans@);
                lemma_chain_empty(spans@);
            }
//@rw R-FOREACH optional
//@old
let spans: Vec<PackedSpan<()>> = elements
                .into_iter()
                .map(|e| $1)
                .collect();
//@new
let ghost vx_ops = elements@;
            let mut vx_mapped: Vec<PackedSpan<()>> = Vec::new();
            proof { lemma_map_empty(vx_ops); }
            for e in vx_it: elements
                invariant
                    vx_it.seq() == vx_ops,
                    forall|k: int| 0 <= k < vx_ops.len() ==> is_seg(#[trigger] vx_ops[k]) && seg_ok(vx_ops[k]),
                    op_spans(vx_ops.take(vx_it.index@ as int), vx_mapped@),                      //@ob C12.pl.lift.span_geometry_is_the_operands
            {
                let ghost vx_m0 = vx_mapped@;
                let vx_s = $1;
                proof { lemma_map_step(vx_ops, vx_it.index@ as int, vx_m0, vx_s); }
                vx_mapped.push(vx_s);
            }
            let ghost vx_m = vx_mapped@;
            let spans: Vec<PackedSpan<()>> = vx_mapped;
            proof {
                lemma_after_sort(vx_ops, vx_m, spans@);
                lemma_chain_empty(spans@);
            }
//@rw R-CALL
//@old
RSVD::SLoad { key: $3, .. } if $1 == $2 )
//@new
RSVD::SLoad { key: $3, .. } if vx_same_value($1, $2) )
//@rw R-FOREACH
//@old
let used_spans: Vec<_> = spans
                .into_iter()
                .filter(|span| $1)
                .collect();
//@new
let ghost vx_sorted = spans@;
            let ghost mut vx_from: Seq<int> = Seq::empty();
            let mut used_spans: Vec<PackedSpan<()>> = Vec::new();
            proof { lemma_keep_empty(vx_sorted, *key); }
            for vx_span in vx_ft: spans
                invariant
                    vx_ft.seq() == vx_sorted,
                    kept_from(vx_sorted, vx_ft.index@ as int, *key, used_spans@, vx_from),       //@ob C06.pl.lift.only_self_copies_dropped
            {
                let span = &vx_span;
                let vx_keep = $1;
                proof { lemma_keep_step(vx_sorted, vx_ft.index@ as int, *key, used_spans@, vx_from, vx_keep); }
                if vx_keep {
                    used_spans.push(vx_span);
                    proof { vx_from = vx_from.push(vx_ft.index@ as int); }
                }
            }
//@spec
    requires
        // A-CALLEE-established tree invariant (see `seg_ok`): producers under contract in unit arith_sites
        forall|i: int| 0 <= i < w_ops(*data).len() ==> seg_ok(#[trigger] w_ops(*data)[i]),
    ensures
        r is Some ==> *data is StorageWrite,                                                      //@ob C05.pl.lift.only_on_storage_write
        r matches Some(d2) ==> (d2 matches RSVD::StorageWrite { key: k2, value: v2 } && k2 == w_key(*data) && v2.dt() is Packed
            && v2.ip() == w_val(*data).ip() && v2.prov() == w_val(*data).prov()),                //@ob C06.pl.lift.write_stays_write_same_key
        r matches Some(d2) ==> forall|k: int| 0 <= k < packed_elems(d2).len() ==> end_of(#[trigger] packed_elems(d2)[k]) <= 256,   //@ob C12.pl.lift.spans_end_inside_the_word
        r matches Some(d2) ==> forall|a: int, b: int| 0 <= a < b < packed_elems(d2).len() ==>
            end_of(#[trigger] packed_elems(d2)[a]) <= (#[trigger] packed_elems(d2)[b]).offset,    //@ob C12.pl.lift.spans_do_not_overlap
        r matches Some(d2) ==> forall|k: int| 0 <= k < packed_elems(d2).len() ==>
            from_operand(w_ops(*data), #[trigger] packed_elems(d2)[k]),                          //@ob C12.pl.lift.span_geometry_is_the_operands
        r matches Some(d2) ==> forall|i: int| 0 <= i < w_ops(*data).len() ==>
            (span_of(#[trigger] w_ops(*data)[i]) matches Some(s) && (self_copy(s, w_key(*data)) || packed_elems(d2).contains(s))),   //@ob C06.pl.lift.only_self_copies_dropped
        r matches Some(d2) ==> forall|k: int| 0 <= k < packed_elems(d2).len() ==> !self_copy(#[trigger] packed_elems(d2)[k], w_key(*data)),   //@ob C06.pl.lift.self_copies_are_dropped
        r is Some ==> spans_valid(spans_of(w_ops(*data))),                                        //@ob C12.pl.lift.invalid_spans_not_lifted
        (*data is StorageWrite && all_segs(w_ops(*data)) && spans_valid(spans_of(w_ops(*data))) && all_positive(spans_of(w_ops(*data))))
            ==> r is Some,                                                                        //@ob C12.pl.lift.valid_spans_are_lifted
//@loop 3 kind=while
                invariant
                    vx_j <= spans.len(),
                    forall|k: int| 0 <= k < spans@.len() ==> end_of(#[trigger] spans@[k]) <= 512,
                    last_position as int == end_before(spans@, vx_j as int),                      //@ob C12.pl.lift.spans_do_not_overlap
                    spans_are_valid == chain(spans@, vx_j as int),                                //@ob C12.pl.lift.spans_do_not_overlap
                decreases spans.len() - vx_j,
//@proof loopstart #3
                proof { lemma_chain_step(spans@, vx_j as int); }
//@proof before "if spans_are_valid {"
            proof {
                lemma_lift(vx_ops, vx_m, vx_sorted, *key, used_spans@, vx_from, spans_are_valid);
            }
//@end

//@extract file=src/tc/lift/packed_encoding.rs path="struct PackedEncoding" kind=type
//@end
// A-EXT: the `Lift` interface of src/tc/lift/mod.rs (supertraits Any + Debug + Downcast dropped; a
// declaration without executable content).
trait Lift {
    fn run(&mut self, value: RuntimeBoxedVal, state: &TypeCheckerState) -> crate::error::unification::Result<RuntimeBoxedVal>;
}
//@extract file=src/tc/lift/packed_encoding.rs path="impl Lift for PackedEncoding" kind=header
//@end
//@extract file=src/tc/lift/packed_encoding.rs path="impl Lift for PackedEncoding|fn run" props=C05,C06
//@ret r
//@hoist unpick_ors lift_packed_encodings
//@spec
        ensures
            r matches Ok(x) && *x == txf(*value, lift_packed_encodings),                          //@ob C05.pl.run.passes_the_lift
//@end
}

// =====================================================================================================
//                              the typing state and the rule interface
// =====================================================================================================
#[derive(Copy, Clone)]
//@extract file=src/tc/expression.rs path="struct Span" kind=type
//@end
//@extract file=src/tc/expression.rs path="type TE" kind=type
//@end
//@extract file=src/tc/expression.rs path="enum WordUse" kind=type
//@end
//@extract file=src/tc/expression.rs path="enum TypeExpression" kind=type
//@end

//@extract file=src/tc/expression.rs path="impl Span" kind=header
//@end
//@extract file=src/tc/expression.rs path="impl Span|fn new" props=C12
//@ret r
//@spec
        ensures r == (Span { typ, offset, size }),                                                //@ob C12.pl.span_new.fields
//@end
}

//@extract file=src/tc/expression.rs path="impl TypeExpression" kind=header
//@end
//@extract file=src/tc/expression.rs path="impl TypeExpression|fn word" props=C12
//@ret r
//@spec
        ensures r == (TypeExpression::Word { width, usage }),                                     //@ob C12.pl.te_word.fields
//@end
//@extract file=src/tc/expression.rs path="impl TypeExpression|fn numeric" props=C12
//@ret r
//@spec
        ensures r == (TypeExpression::Word { width, usage: WordUse::Numeric }),                   //@ob C12.pl.te_numeric.width_kept_usage_numeric
//@end
//@extract file=src/tc/expression.rs path="impl TypeExpression|fn bytes" props=C12
//@ret r
//@spec
        ensures r == (TypeExpression::Word { width, usage: WordUse::Bytes }),                     //@ob C12.pl.te_bytes.width_kept_usage_bytes
//@end
    // A-CALLEE: `packed_of` converts its elements with itertools' `map_into().collect()` (outside Verus'
    // subset); monomorphised to `Vec<Span>` (the only element type used by the code under contract, for
    // which `Into<Span>` is the identity). Assumed EXACTLY as its body reads: the same spans, in order,
    // not a struct. (Same stand-in as unit arith_sites.)
    #[verifier::external_body]
    pub fn packed_of(types: Vec<Span>) -> (r: Self)
        ensures r matches TypeExpression::Packed { types: t2, is_struct } && t2@ == types@ && !is_struct,
    { unimplemented!() }
}

//@extract file=src/vm/value/mod.rs path="impl TCSV" kind=header
//@end
//@extract file=src/vm/value/mod.rs path="impl TCSV|fn type_var" props=C01
//@ret r
//@spec
        ensures r == self.aux(),
//@end
}

// A-CALLEE: the unifier state is opaque (same stand-in as unit arith_sites). Its views here: the LOG of
// inference judgements `(variable, expression)` handed to `infer`, in call order, and the set of type
// variables it `knows` (has an inference set for).
#[verifier::external_body]
pub struct TypeCheckerState { _p: u8 }
pub uninterp spec fn inferred(s: &TypeCheckerState) -> Seq<(TypeVariable, TypeExpression)>;
pub uninterp spec fn knows(s: &TypeCheckerState, tv: TypeVariable) -> bool;
impl TypeCheckerState {
    // A-CALLEE: `infer(variable, expression)` (HashMap<_, HashSet<_>> bookkeeping; `impl Into` arguments
    // monomorphised). Written from its body: it PANICS (`get_mut(&variable).unwrap()`) when `variable` has
    // no inference set — the precondition; for an expression that is not an `Equal` it records exactly the
    // judgement it is handed. The set of known variables is unchanged.
    #[verifier::external_body]
    pub fn infer(&mut self, variable: TypeVariable, expression: TypeExpression)
        requires
            knows(old(self), variable),
            !(expression is Equal),
        ensures
            inferred(final(self)) == inferred(old(self)).push((variable, expression)),
            forall|tv: TypeVariable| #[trigger] knows(final(self), tv) == knows(old(self), tv),
    { unimplemented!() }

//@extract file=src/tc/state/mod.rs path="impl TypeCheckerState|fn var_unchecked" props=C01
//@ret r
//@spec
        ensures r == value.aux(),
//@end
//@extract file=src/tc/state/mod.rs path="impl TypeCheckerState|fn infer_for" props=C01
//@ret r
//@rw R-IMPL-INTO
//@old
expression: impl Into<TypeExpression>
//@new
expression: TypeExpression
//@spec
        requires
            knows(old(self), value.aux()),
            !(expression is Equal),
        ensures
            r == value.aux(),
            inferred(final(self)) == inferred(old(self)).push((value.aux(), expression)),
            forall|tv: TypeVariable| #[trigger] knows(final(self), tv) == knows(old(self), tv),
//@end
}

// A-EXT: the `InferenceRule` interface of src/tc/rule/mod.rs (supertraits dropped; a declaration without
// executable content). Its precondition is the documented invariant of the typing state ("the only source of
// new type variables is the state": a value handed to a rule was registered together with its whole sub-tree
// by `TypeCheckerState::register`), restricted to the nodes these two rules record judgements for.
trait InferenceRule {
    fn infer(&self, value: &TCBoxedVal, state: &mut TypeCheckerState) -> Result<()>
        requires forall|tv: TypeVariable| node_var(**value, tv) ==> #[trigger] knows(old(state), tv);
}
/// `tv` is the type variable of `v` or of the word a sub-word `v` is taken from
pub open spec fn node_var(v: TCSV, tv: TypeVariable) -> bool {
    ||| tv == v.aux()
    ||| (v.dt() matches TCSVD::SubWord { value, .. } && tv == value.aux())
}

/// `e` is the (non-struct) packed type whose spans are, position by position, those of `elements`: the
/// variable of the element's value, the element's offset, the element's size
pub open spec fn packs_elements(e: TypeExpression, elements: Seq<PackedSpan<TCAuxData>>) -> bool {
    e matches TypeExpression::Packed { types, is_struct } && !is_struct && types@.len() == elements.len()
        && forall|k: int| 0 <= k < elements.len() ==> #[trigger] types@[k] == (Span { typ: elements[k].value.aux(), offset: elements[k].offset, size: elements[k].size })
}
pub open spec fn packs_one(e: TypeExpression, typ: TypeVariable, offset: usize, size: usize) -> bool {
    e matches TypeExpression::Packed { types, is_struct } && !is_struct && types@.len() == 1
        && types@[0] == (Span { typ, offset, size })
}

// =====================================================================================================
//                                   src/tc/rule/packed_encoding.rs
// =====================================================================================================
//@extract file=src/tc/rule/packed_encoding.rs path="struct PackedEncodingRule" kind=type
//@end
//@extract file=src/tc/rule/packed_encoding.rs path="impl InferenceRule for PackedEncodingRule" kind=header
//@end
//@extract file=src/tc/rule/packed_encoding.rs path="impl InferenceRule for PackedEncodingRule|fn infer" props=C12,C01
//@ret r
//@rw R-FOREACH
//@old
let element_spans: Vec<Span> = elements
            .iter()
            .map(|span| $1)
            .collect();
//@new
let mut element_spans: Vec<Span> = Vec::new();
        let mut vx_i: usize = 0;
        while vx_i < elements.len()
            invariant
                vx_i <= elements.len(),
                element_spans@.len() == vx_i,
                forall|k: int| 0 <= k < vx_i ==> #[trigger] element_spans@[k]
                    == (Span { typ: elements@[k].value.aux(), offset: elements@[k].offset, size: elements@[k].size }),   //@ob C12.pl.rule.packed.span_geometry_passed_through
            decreases elements.len() - vx_i,
        {
            let span = &elements[vx_i];
            let vx_s = $1;
            element_spans.push(vx_s);
            vx_i += 1;
        }
//@spec
        ensures
            r is Ok,
            // exactly one judgement is appended, about the packed value's own variable
            value.dt() is Packed ==> inferred(final(state)).len() == inferred(old(state)).len() + 1
                && inferred(final(state)).subrange(0, inferred(old(state)).len() as int) =~= inferred(old(state))
                && inferred(final(state))[inferred(old(state)).len() as int].0 == value.aux(),                              //@ob C05.pl.rule.packed.exactly_one_judgement_for_the_value
            // its spans are the elements': variable of the element's value, the element's offset, the element's size, in order
            value.dt() matches TCSVD::Packed { elements } ==>
                packs_elements(inferred(final(state))[inferred(old(state)).len() as int].1, elements@),                     //@ob C12.pl.rule.packed.span_geometry_passed_through
            !(value.dt() is Packed) ==> inferred(final(state)) == inferred(old(state)),            //@ob C05.pl.rule.packed.only_on_packed_values
//@end
}

// =====================================================================================================
//                                   src/tc/rule/masked_word.rs
// =====================================================================================================
//@extract file=src/tc/rule/masked_word.rs path="struct MaskedWordRule" kind=type
//@end
//@extract file=src/tc/rule/masked_word.rs path="impl InferenceRule for MaskedWordRule" kind=header
//@end
//@extract file=src/tc/rule/masked_word.rs path="impl InferenceRule for MaskedWordRule|fn infer" props=C12,C01
//@ret r
//@spec
        ensures
            r is Ok,
            // exactly two judgements are appended, in this order: the sub-word's own type, then the packed type of the word it is taken from
            value.dt() is SubWord ==> inferred(final(state)).len() == inferred(old(state)).len() + 2
                && inferred(final(state)).subrange(0, inferred(old(state)).len() as int) =~= inferred(old(state)),          //@ob C05.pl.rule.masked.exactly_two_judgements
            // the sub-word is a word of exactly `size` bits, used as bytes; the judgement is about the sub-word's own variable
            value.dt() matches TCSVD::SubWord { size, .. } ==> inferred(final(state))[inferred(old(state)).len() as int]
                == (value.aux(), TypeExpression::Word { width: Some(size), usage: WordUse::Bytes }),                       //@ob C12.pl.rule.masked.word_width_is_size_usage_bytes
            // the word it is taken from packs ONE span: the sub-word's variable at the sub-word's offset with the sub-word's size
            value.dt() matches TCSVD::SubWord { value: sub_value, offset, size } ==> inferred(final(state))[inferred(old(state)).len() as int + 1].0 == sub_value.aux()
                && packs_one(inferred(final(state))[inferred(old(state)).len() as int + 1].1, value.aux(), offset, size),          //@ob C12.pl.rule.masked.span_geometry_passed_through
            !(value.dt() is SubWord) ==> inferred(final(state)) == inferred(old(state)),           //@ob C05.pl.rule.masked.only_on_sub_words
//@end
}

//@dropped SymbolicValue::transform_data (the traversal that calls lift_packed_encodings on every node): assumed callee, uninterpreted per function item; that the precondition of lift_packed_encodings (tree invariant `seg_ok` on the operands of every storage write it is shown) holds at every node it visits is ASSUMED — established by the producers insert_sub_words (C12.arith.sub_word.region_inside_slot) and insert_multiplicative_shifts (C12.arith.mul_shifted.shift_inside_slot) of unit arith_sites for every SubWord / Shifted node they create, and kept by the structural copy in SymbolicValueData::transform (unit transform); "a Shifted node wraps a SubWord node" (what makes `panic!("Shift of non-sub-word")` unreachable) is true of insert_multiplicative_shifts' output by reading (it matches the FOLDED operand against SubWord, the folder never changes a constructor other than to KnownData, and the traversal rebuilds a SubWord as a SubWord) but is NOT a labelled obligation of any unit
//@dropped hand-built value trees that violate that invariant: `offset + size` in the validation loop overflows usize (panic in debug builds, wrap-around in release builds: a wrapped `last_position` can pass both checks) and a Shifted around a non-sub-word panics — neither is reachable from bytecode through the default pass order (MulShiftedValue directly before PackedEncoding), both are reachable through the public Lift / RSVD API
//@dropped RSV::new: assumed callee (contract proved in unit value_size); its no-overflow precondition `child_size() + 1` is not carried to the call site
//@dropped itertools sorted_by_key: ASSUMED to return a permutation with ascending keys (stand-in vx_sorted_by_key); Vec::extend, Arc `==` (derivative PartialEq on SymbolicValue, ignoring instruction pointer and provenance: uninterpreted `val_eq`): assumed
//@dropped PackedEncoding::new (Box::new(Self)), the tests; the inner values of the spans are NOT traversed by this lift (lift_packed_encodings does not recurse: packed encodings nested inside a lifted write's operands stay unlifted) — behaviour noted, no property claims otherwise
//@dropped TypeCheckerState::infer: assumed callee (HashMap/HashSet bookkeeping); its precondition "the variable is known" is ASSUMED at rule entry for the variables of the value and of the word a sub-word is taken from (trait-level precondition of InferenceRule::infer = the typing state's registration invariant); TE::packed_of (itertools map_into) assumed with its exact one-line meaning, monomorphised to Vec<Span>
} // verus!
fn main() {}
