//@unit props=C08,C17,C01
// Unit control — jump-target validation (src/opcode/util.rs), the control-flow opcodes of
// src/opcode/control.rs (STOP, INVALID, RETURN, REVERT, JUMPDEST, JUMP, JUMPI) and SELFDESTRUCT
// (src/opcode/environment.rs) over an ABSTRACT VM: C08 (only EVM-permitted control transfers; halting
// opcodes end the path; both branches of JUMPI), C17 (what JUMP / JUMPI do with a bad target in strict
// and permissive mode), C01 (no panic in these bodies).
//
// Extracted from the repository on every run (real text): the nine bodies above; `ExecutionThread::
// {instruction_pointer, current, instruction, jump, at, len}`; `VMThread::{state_mut, instructions_mut, fork}`;
// `VMState::{stack_mut, memory_mut, record_value, fork}`; `VM::{jump_targets_mut, fork_current_thread,
// kill_current_thread, store_error, build, config}`; all of `Stack` / `LocatedStackHandle`; `Located`,
// `Locatable` and its two impls, `Errors::{new, len, is_empty, add}`, `execution::Error`, `KnownWord::value_le`,
// `Config`, the opcode structs.
// Stand-ins (assumptions, each commented A-CALLEE / A-DERIVE / A-ETHNUM where it is declared): the FIELD LISTS
// of `VM`, `VMThread`, `VMState` (real field names, fields out of reach omitted; the thread queue is split into
// front + rest); the opaque types `Memory`, `JumpTargets`, `ValueBuilder`, `DynOpcode` with `load_slice`,
// `fork_to`, `symbolic_exec`, the downcast chain; the value tree `RSV` / `RSVD` with `constant_fold`; the
// `Opcode` trait reduced to `execute`; and the five VM accessors built on `VecDeque` / closures:
// `current_thread_mut`, `enqueue_thread`, `instruction_pointer`, `stack_handle`, `state`, `execution_thread_mut`
// (three of them are written out as a `match` over `current_thread_mut` and checked against their contract).
// JUMP and JUMPI are verified twice: composed with the real validation (mod control) and against an arbitrary
// validation outcome (mod control_any_outcome) so that the error-dispatch arms unreachable in the composition
// are under contract too.
use vstd::prelude::*;
use std::rc::Rc;
use std::sync::Arc;
//@dropped control.rs: PC, Nop, CallCode/Call/DelegateCall/StaticCall/Create/Create2, store_return_data; every opcode's min_gas_cost/arg_count/as_text_code/as_byte/encode; environment.rs: everything except SelfDestruct::execute
//@dropped VM::{current_thread_mut, enqueue_thread, instruction_pointer, stack_handle, state, execution_thread_mut} (VecDeque front_mut / closures), Memory::load_slice, JumpTargets::fork_to, ValueBuilder::symbolic_exec, SymbolicValue::constant_fold: A-CALLEE contracts only; the main loop VM::execute / advance (which records errors by mode and retires killed threads) is not under contract; fields of VM/VMThread/VMState outside the listed ones (storage, logged values, visit counters, gas, stored states, watchdog) are out of sight
//@dropped Rc::as_ref / downcast_rs as_any / Any::is: A-CALLEE methods of the opaque DynOpcode / OpcodeObject / AnyObject stand-ins (no rewrite)
//@include common/ethnum_prelude.rs

// `u32::try_from(U256)` (ethnum 1.5.3 uint/convert.rs impl_try_into!: `if x <= u32::MAX { Ok(*x.low() as u32) }
// else { Err(..) }`) has its A-ETHNUM contract in the prelude: Ok(r) iff u(x) <= u32::MAX, and then r == u(x).

verus! {
// ---- known words: real struct and accessor (src/vm/value/known.rs) ---------------------------------
// A-DERIVE: #[derive(Clone, Copy)] on KnownWord
#[derive(Clone, Copy)]
//@extract file=src/vm/value/known.rs path="struct KnownWord" kind=type
//@end
impl KnownWord {
    /// the 256-bit number this word denotes
    pub closed spec fn v(self) -> nat { u(self.value) }
}
//@extract file=src/vm/value/known.rs path="impl KnownWord" kind=header
//@end
//@extract file=src/vm/value/known.rs path="impl KnownWord|fn value_le"
//@ret r
//@spec
        ensures u(r) == self.v(),      //@ob C08.ctl.value_le.exact
//@end
}

// The truncating conversions of src/vm/value/known.rs, extracted so that an edit that routes a jump target
// through one of them reaches the contracts (they keep only the low 64 / 32 bits).
impl vstd::std_specs::convert::FromSpecImpl<KnownWord> for usize { open spec fn obeys_from_spec() -> bool { false } open spec fn from_spec(v: KnownWord) -> usize { arbitrary() } }
impl<'a> vstd::std_specs::convert::FromSpecImpl<&'a KnownWord> for usize { open spec fn obeys_from_spec() -> bool { false } open spec fn from_spec(v: &'a KnownWord) -> usize { arbitrary() } }
impl vstd::std_specs::convert::FromSpecImpl<KnownWord> for u32 { open spec fn obeys_from_spec() -> bool { false } open spec fn from_spec(v: KnownWord) -> u32 { arbitrary() } }
impl<'a> vstd::std_specs::convert::FromSpecImpl<&'a KnownWord> for u32 { open spec fn obeys_from_spec() -> bool { false } open spec fn from_spec(v: &'a KnownWord) -> u32 { arbitrary() } }
//@extract file=src/vm/value/known.rs path="impl From<KnownWord> for usize" kind=header
//@end
//@extract file=src/vm/value/known.rs path="impl From<KnownWord> for usize|fn from"
//@ret r
//@spec
        ensures r as nat == value.v() % 0x1_0000_0000_0000_0000,
//@end
}
//@extract file=src/vm/value/known.rs path="impl From<&KnownWord> for usize" kind=header
//@end
//@extract file=src/vm/value/known.rs path="impl From<&KnownWord> for usize|fn from"
//@ret r
//@spec
        ensures r as nat == value.v() % 0x1_0000_0000_0000_0000,
//@end
}
//@extract file=src/vm/value/known.rs path="impl From<KnownWord> for u32" kind=header
//@end
//@extract file=src/vm/value/known.rs path="impl From<KnownWord> for u32|fn from"
//@ret r
//@spec
        ensures r as nat == value.v() % 0x1_0000_0000,
//@end
}
//@extract file=src/vm/value/known.rs path="impl From<&KnownWord> for u32" kind=header
//@end
//@extract file=src/vm/value/known.rs path="impl From<&KnownWord> for u32|fn from"
//@ret r
//@spec
        ensures r as nat == value.v() % 0x1_0000_0000,
//@end
}

// ---- the value tree, reduced ---------------------------------------------------------------------
/// A-CALLEE (type stand-in for `SymbolicValueData<RuntimeAuxData>`): the variants the code under contract
/// names, and one variant for the other 66.
pub enum RSVD {
    KnownData { value: KnownWord },
    Return { data: RuntimeBoxedVal },
    Revert { data: RuntimeBoxedVal },
    SelfDestruct { target: RuntimeBoxedVal },
    OtherVariant { tag: u8 },
}
/// A-CALLEE (type stand-in for `SymbolicValue<RuntimeAuxData>`): only the payload
pub struct RSV { pub data: RSVD }
pub type RuntimeBoxedVal = Arc<RSV>;
/// the constant-folded form of a value (uninterpreted: what folding computes is unit fold_arms / C09)
pub uninterp spec fn fold(v: RSV) -> RSV;
impl RSV {
    // A-CALLEE: SymbolicValue::data is the field accessor
    pub fn data(&self) -> (r: &RSVD) ensures *r == self.data { &self.data }
    // A-CALLEE: SymbolicValue::constant_fold is a pure function of the value
    #[verifier::external_body]
    pub fn constant_fold(&self) -> (r: Arc<RSV>) ensures *r == fold(*self) { unimplemented!() }
}
} // verus!

pub mod container {
use vstd::prelude::*;
verus! {
//@include stack/container_items.rs
} // verus!
}

pub mod execution {
use vstd::prelude::*;
use super::{container, KnownWord};
verus! {
//@include stack/execution_items.rs
} // verus!
}
pub mod disassembly {
use vstd::prelude::*;
use std::rc::Rc;
use super::vm::DynOpcode;
verus! {
// A-DERIVE: #[derive(Clone)] on ExecutionThread copies the pointer and shares the instructions
//@extract file=src/disassembly/mod.rs path="struct ExecutionThread" kind=type
//@end
impl Clone for ExecutionThread {
    #[verifier::external_body]
    fn clone(&self) -> (r: Self) ensures r == *self { unimplemented!() }
}
impl ExecutionThread {
    pub closed spec fn ip(&self) -> u32 { self.instruction_pointer }
    pub closed spec fn code(&self) -> Seq<DynOpcode> { self.instructions@ }
    /// documented invariant of the type: the pointer names an instruction
    pub open spec fn wf(&self) -> bool { (self.ip() as int) < self.code().len() }
}
//@extract file=src/disassembly/mod.rs path="impl ExecutionThread" kind=header
//@end
//@extract file=src/disassembly/mod.rs path="impl ExecutionThread|fn instruction_pointer"
//@ret r
//@spec
        ensures r == self.ip(),
//@end
//@extract file=src/disassembly/mod.rs path="impl ExecutionThread|fn current"
//@ret r
//@spec
        requires self.wf(),
        ensures r == self.code()[self.ip() as int],
//@end
//@extract file=src/disassembly/mod.rs path="impl ExecutionThread|fn instruction"
//@ret r
//@spec
        ensures
            r is Some == ((instruction_pointer as int) < self.code().len()),      //@ob C08.ctl.thread_instruction.some_iff_in_range
            r is Some ==> r->Some_0 == self.code()[instruction_pointer as int],
//@end
//@extract file=src/disassembly/mod.rs path="impl ExecutionThread|fn jump"
//@ret r
//@spec
        ensures
            final(self).code() == old(self).code(),
            (target as int) < old(self).code().len() ==> final(self).ip() == target && final(self).wf(),      //@ob C08.ctl.thread_jump.moves_in_range
            (target as int) >= old(self).code().len() ==> final(self).ip() == old(self).ip(),                 //@ob C08.ctl.thread_jump.stays_out_of_range
            old(self).wf() ==> final(self).wf(),                                                              //@ob C08.ctl.thread_jump.pointer_stays_inside_code
//@end
//@extract file=src/disassembly/mod.rs path="impl ExecutionThread|fn at"
//@ret r
//@spec
        ensures
            final(self).code() == old(self).code(),
            (offset as int) < old(self).code().len() ==> final(self).ip() == offset && final(self).wf(),      //@ob C08.ctl.thread_at.moves_in_range
            (offset as int) >= old(self).code().len() ==> final(self).ip() == old(self).ip(),                 //@ob C08.ctl.thread_at.stays_out_of_range
            old(self).wf() ==> final(self).wf(),                                                              //@ob C08.ctl.thread_at.pointer_stays_inside_code
//@end
//@extract file=src/disassembly/mod.rs path="impl ExecutionThread|fn len"
//@ret r
//@spec
        ensures r == self.code().len(),
//@end
}
} // verus!
}

pub mod vm {
use vstd::prelude::*;
use std::rc::Rc;
use std::sync::Arc;
use super::*;
use super::container::Locatable;
use super::disassembly::ExecutionThread;
use super::execution::{self, Error, Errors, LocatedError, Result};
verus! {
//@include stack/stack_items.rs

// ---- instructions ------------------------------------------------------------------------------------
/// A-CALLEE (trait stand-in): `Opcode` reduced to the one method under contract
pub trait Opcode {
    fn execute(&self, vm: &mut VM) -> ExecuteResult;
}
/// A-CALLEE (opaque stand-in for `DynOpcode = Rc<dyn Opcode>`): an instruction of the stream.  The real alias
/// cannot be used: VM -> VMThread -> ExecutionThread -> dyn Opcode -> execute(&mut VM) is a type/trait cycle
/// Verus rejects.  A-DERIVE: Rc::clone returns the same instruction.
#[verifier::external_body]
pub struct DynOpcode { _opaque: u8 }
impl Clone for DynOpcode {
    #[verifier::external_body]
    fn clone(&self) -> (r: Self) ensures r == *self { unimplemented!() }
}
/// A-CALLEE (opaque stand-ins for `dyn Opcode` and `dyn Any`): the downcast chain
/// `instr.as_ref().as_any().is::<T>()` (Rc::as_ref, downcast_rs::Downcast::as_any, Any::is) is a pure test of
/// the instruction's concrete type; nothing else is assumed about it.
#[verifier::external_body]
pub struct OpcodeObject { _opaque: u8 }
#[verifier::external_body]
pub struct AnyObject { _opaque: u8 }
pub uninterp spec fn object_of(o: DynOpcode) -> OpcodeObject;
pub uninterp spec fn any_of(o: OpcodeObject) -> AnyObject;
pub uninterp spec fn any_is<T>(a: AnyObject) -> bool;
impl DynOpcode {
    #[verifier::external_body]
    pub fn as_ref(&self) -> (r: &OpcodeObject) ensures *r == object_of(*self) { unimplemented!() }
}
impl OpcodeObject {
    #[verifier::external_body]
    pub fn as_any(&self) -> (r: &AnyObject) ensures *r == any_of(*self) { unimplemented!() }
}
impl AnyObject {
    #[verifier::external_body]
    pub fn is<T: 'static>(&self) -> (r: bool) ensures r == any_is::<T>(*self) { unimplemented!() }
}
/// whether an instruction is a JUMPDEST
pub open spec fn op_is_jumpdest(o: DynOpcode) -> bool { any_is::<super::control::JumpDest>(any_of(object_of(o))) }
//@extract file=src/opcode/mod.rs path="type ExecuteResult" kind=type
//@end

// ---- abstract VM: stand-in types ---------------------------------------------------------------------
/// A-CALLEE (opaque stand-in for `Memory`)
#[verifier::external_body]
pub struct Memory { _opaque: u8 }
impl Memory {
    // A-CALLEE: Memory::load_slice returns some value and can change this memory only; it is total
    // (its own arithmetic is the business of another unit, D7)
    #[verifier::external_body]
    pub fn load_slice(&mut self, offset: &RuntimeBoxedVal, size: &RuntimeBoxedVal, instruction_pointer: u32) -> RuntimeBoxedVal { unimplemented!() }
}
/// A-CALLEE (opaque stand-in for `ValueBuilder`)
#[verifier::external_body]
pub struct ValueBuilder { _opaque: u8 }
impl ValueBuilder {
    // A-CALLEE: ValueBuilder::symbolic_exec builds some value (size culling: unit value_size); total
    #[verifier::external_body]
    pub fn symbolic_exec(&self, instruction_pointer: u32, data: RSVD) -> RuntimeBoxedVal { unimplemented!() }
}
/// A-CALLEE (opaque stand-in for `JumpTargets`, the global per-target fork counter)
#[verifier::external_body]
pub struct JumpTargets { _opaque: u8 }
/// whether the fork budget still allows a conditional jump to `target`
pub uninterp spec fn fork_budget(jt: JumpTargets, target: u32) -> bool;
impl JumpTargets {
    // A-CALLEE: JumpTargets::fork_to (src/vm/data.rs) answers Ok(true) and counts the visit while the
    // per-target budget lasts, Ok(false) afterwards; its errors are InstructionPointerOutOfBounds /
    // NotJumpSource / NotJumpTarget, none of them a jump-target kind.  (unit limits has the counter.)
    #[verifier::external_body]
    pub fn fork_to(&mut self, current_instruction: u32, target_instruction: u32) -> (r: execution::Result<bool>)
        ensures
            r is Ok ==> r->Ok_0 == fork_budget(*old(self), target_instruction),
            r is Err ==> !is_jump_target_kind(r->Err_0.payload),
    { unimplemented!() }
}
/// the four error kinds that describe a bad jump target (src/vm/mod.rs VM::execute, JumpI::execute)
pub open spec fn is_jump_target_kind(e: Error) -> bool {
    e is NoConcreteJumpDestination || e is NonExistentJumpTarget || e is InvalidJumpTarget || e is InvalidOffsetForJump
}

//@extract file=src/vm/mod.rs path="struct Config" kind=type
//@end

/// A-CALLEE (type stand-in for `VMState`): the fields the code under contract reaches; storage, logged
/// values, visit counters and the config copy of the real type are out of sight.
pub struct VMState {
    pub fork_point: u32,
    pub stack: Stack,
    pub memory: Memory,
    pub recorded_values: Vec<RuntimeBoxedVal>,
}
// A-DERIVE: #[derive(Clone)] on VMState is a deep copy
impl Clone for VMState {
    #[verifier::external_body]
    fn clone(&self) -> (r: Self) ensures r == *self { unimplemented!() }
}
//@extract file=src/vm/state/mod.rs path="impl VMState" kind=header
//@end
//@extract file=src/vm/state/mod.rs path="impl VMState|fn stack_mut"
//@ret r
//@spec
        ensures *r == old(self).stack, final(self).stack == *final(r),
            final(self).memory == old(self).memory, final(self).recorded_values == old(self).recorded_values, final(self).fork_point == old(self).fork_point,
//@end
//@extract file=src/vm/state/mod.rs path="impl VMState|fn memory_mut"
//@ret r
//@spec
        ensures *r == old(self).memory, final(self).memory == *final(r),
            final(self).stack == old(self).stack, final(self).recorded_values == old(self).recorded_values, final(self).fork_point == old(self).fork_point,
//@end
//@extract file=src/vm/state/mod.rs path="impl VMState|fn record_value"
//@spec
        ensures final(self).recorded_values@ == old(self).recorded_values@.push(value),
            final(self).stack == old(self).stack, final(self).memory == old(self).memory, final(self).fork_point == old(self).fork_point,
//@end
//@extract file=src/vm/state/mod.rs path="impl VMState|fn fork"
//@ret r
//@spec
        ensures r.stack == self.stack, r.memory == self.memory, r.recorded_values == self.recorded_values,      //@ob C08.ctl.state_fork.same_state
//@end
}

/// A-CALLEE (type stand-in for `VMThread`): same fields as the real type
pub struct VMThread {
    pub state: VMState,
    pub thread: ExecutionThread,
    pub gas_usage: usize,
}
// A-DERIVE: #[derive(Clone)] on VMThread is a deep copy
impl Clone for VMThread {
    #[verifier::external_body]
    fn clone(&self) -> (r: Self) ensures r == *self { unimplemented!() }
}
//@extract file=src/vm/thread.rs path="impl VMThread" kind=header
//@end
//@extract file=src/vm/thread.rs path="impl VMThread|fn new"
//@ret r
//@spec
        ensures r.state == state, r.thread == thread, r.gas_usage == 0,          //@ob C03.ctl.thread_new.starts_with_no_gas
//@end
//@extract file=src/vm/thread.rs path="impl VMThread|fn consume_gas"
//@spec
        requires old(self).gas_usage + gas <= usize::MAX,
        ensures final(self).gas_usage == old(self).gas_usage + gas, final(self).state == old(self).state, final(self).thread == old(self).thread,
//@end
//@extract file=src/vm/thread.rs path="impl VMThread|fn gas_usage"
//@ret r
//@spec
        ensures r == self.gas_usage,
//@end
//@extract file=src/vm/thread.rs path="impl VMThread|fn state_mut"
//@ret r
//@spec
        ensures *r == old(self).state, final(self).state == *final(r), final(self).thread == old(self).thread, final(self).gas_usage == old(self).gas_usage,
//@end
//@extract file=src/vm/thread.rs path="impl VMThread|fn instructions_mut"
//@ret r
//@spec
        ensures *r == old(self).thread, final(self).thread == *final(r), final(self).state == old(self).state, final(self).gas_usage == old(self).gas_usage,
//@end
//@extract file=src/vm/thread.rs path="impl VMThread|fn fork"
//@ret r
//@spec
        ensures
            r.thread.code() == self.thread.code(),
            // the new thread starts at the target when the target is an offset of the code
            (target as int) < self.thread.code().len() ==> r.thread.ip() == target,                            //@ob C08.ctl.thread_fork.starts_at_target
            (target as int) >= self.thread.code().len() ==> r.thread.ip() == self.thread.ip(),
            r.state.stack == self.state.stack, r.state.memory == self.state.memory, r.state.recorded_values == self.state.recorded_values,      //@ob C08.ctl.thread_fork.same_state
            r.gas_usage == self.gas_usage,            //@ob C03.ctl.thread_fork.inherits_gas C17.ctl.thread_fork.inherits_gas_so_exhaustion_is_reported
//@end
}

/// A-CALLEE (type stand-in for `VM`): real field names where the code under contract reaches them.
/// `thread_queue: VecDeque<VMThread>` is split into its front (`current`) and the rest (`waiting`);
/// `instructions: InstructionStream` is reduced to its length; stored states and the watchdog are out of sight.
pub struct VM {
    pub instructions_len: u32,
    pub jump_targets: JumpTargets,
    pub current: Option<VMThread>,
    pub waiting: Vec<VMThread>,
    pub config: Config,
    pub current_thread_killed: bool,
    pub errors: Errors,
    pub builder: ValueBuilder,
}
impl VM {
    // ---- the spec state of DESIGN.md C08/C17 ----
    pub open spec fn has_thread(&self) -> bool { self.current is Some }
    /// instruction pointer of the current thread
    pub open spec fn ip(&self) -> u32 { self.current->Some_0.thread.ip() }
    /// the code the current thread runs: instr_at(i) = code()[i], code length = code().len()
    pub open spec fn code(&self) -> Seq<DynOpcode> { self.current->Some_0.thread.code() }
    pub open spec fn stack(&self) -> Seq<RuntimeBoxedVal> { self.current->Some_0.state.stack@ }
    pub open spec fn recorded(&self) -> Seq<RuntimeBoxedVal> { self.current->Some_0.state.recorded_values@ }
    pub open spec fn killed(&self) -> bool { self.current_thread_killed }
    pub open spec fn permissive(&self) -> bool { self.config.permissive_errors }
    /// the error log, oldest first
    pub open spec fn log(&self) -> Seq<LocatedError> { self.errors.log() }
    /// threads waiting in the queue behind the current one
    pub open spec fn queued(&self) -> Seq<VMThread> { self.waiting@ }
    /// control state other than the current thread's own stack / recorded values / memory
    pub open spec fn same_control(&self, o: &VM) -> bool {
        &&& self.has_thread() == o.has_thread()
        &&& self.killed() == o.killed()
        &&& self.config == o.config
        &&& self.log() == o.log()
        &&& self.queued() == o.queued()
        &&& self.instructions_len == o.instructions_len
        &&& self.has_thread() ==> self.ip() == o.ip() && self.code() == o.code()
    }

    // A-CALLEE: VM::current_thread_mut = `thread_queue.front_mut().ok_or(NoSuchThread.locate(instructions_len()))`
    #[verifier::external_body]
    pub fn current_thread_mut(&mut self) -> (r: Result<&mut VMThread>)
        ensures
            old(self).has_thread() ==> r is Ok,
            r is Ok ==> old(self).has_thread() && *r->Ok_0 == old(self).current->Some_0 && final(self).current == Some(*final(r->Ok_0))
                // InstructionStream refuses bytecode longer than u32::MAX (disassembly::Error::BytecodeTooLarge; VM::new panics on it)
                && r->Ok_0.thread.code().len() <= u32::MAX
                && final(self).instructions_len == old(self).instructions_len && final(self).jump_targets == old(self).jump_targets && final(self).waiting == old(self).waiting
                && final(self).config == old(self).config && final(self).current_thread_killed == old(self).current_thread_killed && final(self).errors == old(self).errors
                && final(self).builder == old(self).builder,
            r is Err ==> !old(self).has_thread() && *final(self) == *old(self) && r->Err_0 == (LocatedError { location: old(self).instructions_len, payload: Error::NoSuchThread }),
    { unimplemented!() }
    // A-CALLEE: VM::enqueue_thread = `thread_queue.push_back(thread)`
    pub fn enqueue_thread(&mut self, thread: VMThread)
        ensures final(self).waiting@ == old(self).waiting@.push(thread),
            final(self).instructions_len == old(self).instructions_len, final(self).jump_targets == old(self).jump_targets, final(self).current == old(self).current,
            final(self).config == old(self).config, final(self).current_thread_killed == old(self).current_thread_killed, final(self).errors == old(self).errors,
            final(self).builder == old(self).builder,
    { self.waiting.push(thread); }
    // A-CALLEE: VM::instruction_pointer = `current_thread_mut().map(|thread| thread.instructions_mut().instruction_pointer())`
    // (the closure is written out as a match; checked against the contract below)
    pub fn instruction_pointer(&mut self) -> (r: Result<u32>)
        ensures
            *final(self) == *old(self),
            old(self).has_thread() ==> r == Ok::<u32, LocatedError>(old(self).ip()) && old(self).code().len() <= u32::MAX,
            !old(self).has_thread() ==> r == Err::<u32, LocatedError>(LocatedError { location: old(self).instructions_len, payload: Error::NoSuchThread }),
    {
        match self.current_thread_mut() { Ok(thread) => Ok(thread.instructions_mut().instruction_pointer()), Err(e) => Err(e) }
    }
    // A-CALLEE: VM::stack_handle = `let ip = self.instruction_pointer()?; current_thread_mut().map(|thread|
    // thread.state_mut().stack_mut().new_located(ip))`.  `wf`: every Stack of a VMState was made by Stack::new
    // and changed only through Stack's own methods, which keep it (C07.stack.*.wf); its field is private.
    #[verifier::external_body]
    pub fn stack_handle(&mut self) -> (r: Result<LocatedStackHandle<'_>>)
        ensures
            old(self).has_thread() ==> r is Ok,
            r is Ok ==> old(self).has_thread() && r->Ok_0.ip() == old(self).ip() && r->Ok_0.cur() == old(self).stack() && r->Ok_0.wf()
                && final(self).same_control(old(self)) && final(self).jump_targets == old(self).jump_targets && final(self).builder == old(self).builder
                && final(self).recorded() == old(self).recorded() && final(self).current->Some_0.state.memory == old(self).current->Some_0.state.memory
                && final(self).stack() == r->Ok_0.fin(),
            r is Err ==> !old(self).has_thread() && *final(self) == *old(self) && r->Err_0 == (LocatedError { location: old(self).instructions_len, payload: Error::NoSuchThread }),
    { unimplemented!() }
    // A-CALLEE: VM::state = `current_thread_mut().map(VMThread::state_mut)` (written out as a match; checked)
    pub fn state(&mut self) -> (r: Result<&mut VMState>)
        ensures
            old(self).has_thread() ==> r is Ok,
            r is Ok ==> old(self).has_thread() && *r->Ok_0 == old(self).current->Some_0.state && final(self).has_thread() && final(self).current->Some_0.state == *final(r->Ok_0)
                && final(self).same_control(old(self)) && final(self).jump_targets == old(self).jump_targets && final(self).builder == old(self).builder,
            r is Err ==> !old(self).has_thread() && *final(self) == *old(self) && r->Err_0 == (LocatedError { location: old(self).instructions_len, payload: Error::NoSuchThread }),
    {
        match self.current_thread_mut() { Ok(thread) => Ok(thread.state_mut()), Err(e) => Err(e) }
    }
    // A-CALLEE: VM::execution_thread_mut = `current_thread_mut().map(VMThread::instructions_mut)` (written out as a match; checked)
    pub fn execution_thread_mut(&mut self) -> (r: Result<&mut ExecutionThread>)
        ensures
            old(self).has_thread() ==> r is Ok,
            r is Ok ==> old(self).has_thread() && *r->Ok_0 == old(self).current->Some_0.thread && final(self).has_thread() && final(self).current->Some_0.thread == *final(r->Ok_0)
                && r->Ok_0.code().len() <= u32::MAX
                && final(self).current->Some_0.state == old(self).current->Some_0.state && final(self).current->Some_0.gas_usage == old(self).current->Some_0.gas_usage
                && final(self).instructions_len == old(self).instructions_len && final(self).jump_targets == old(self).jump_targets && final(self).waiting == old(self).waiting
                && final(self).config == old(self).config && final(self).current_thread_killed == old(self).current_thread_killed && final(self).errors == old(self).errors
                && final(self).builder == old(self).builder,
            r is Err ==> !old(self).has_thread() && *final(self) == *old(self) && r->Err_0 == (LocatedError { location: old(self).instructions_len, payload: Error::NoSuchThread }),
    {
        match self.current_thread_mut() { Ok(thread) => Ok(thread.instructions_mut()), Err(e) => Err(e) }
    }
}
//@extract file=src/vm/mod.rs path="impl VM" kind=header
//@end
//@extract file=src/vm/mod.rs path="impl VM|fn jump_targets_mut"
//@ret r
//@spec
        ensures *r == old(self).jump_targets, final(self).jump_targets == *final(r),
            final(self).same_control(old(self)), final(self).current == old(self).current, final(self).builder == old(self).builder,
//@end
//@extract file=src/vm/mod.rs path="impl VM|fn fork_current_thread"
//@ret r
//@spec
        ensures
            old(self).has_thread() ==> r is Ok,
            // one more thread waits, with the current thread's state, at the target (when that is an offset of the code)
            r is Ok ==> final(self).queued().len() == old(self).queued().len() + 1 && final(self).queued().drop_last() == old(self).queued()
                && forks_to(final(self).queued().last(), old(self).current->Some_0, jump_target),           //@ob C08.ctl.fork_current_thread.queues_one_at_target
            r is Err ==> final(self).queued() == old(self).queued() && !is_jump_target_kind(r->Err_0.payload),
            // nothing else moves: the current thread, the kill flag, the mode, the log
            final(self).current == old(self).current, final(self).current_thread_killed == old(self).current_thread_killed, final(self).config == old(self).config,
            final(self).errors == old(self).errors, final(self).jump_targets == old(self).jump_targets, final(self).instructions_len == old(self).instructions_len,
            final(self).builder == old(self).builder,                                                         //@ob C08.ctl.fork_current_thread.current_thread_untouched
//@end
//@extract file=src/vm/mod.rs path="impl VM|fn kill_current_thread"
//@spec
        ensures
            final(self).killed(),                                                                              //@ob C08.ctl.kill_current_thread.sets_flag
            final(self).current == old(self).current, final(self).waiting == old(self).waiting, final(self).config == old(self).config, final(self).errors == old(self).errors,
            final(self).jump_targets == old(self).jump_targets, final(self).instructions_len == old(self).instructions_len, final(self).builder == old(self).builder,
//@end
//@extract file=src/vm/mod.rs path="impl VM|fn store_error"
//@spec
        ensures
            final(self).log() == old(self).log().push(error),                                                  //@ob C17.ctl.store_error.appends
            final(self).current == old(self).current, final(self).waiting == old(self).waiting, final(self).config == old(self).config,
            final(self).current_thread_killed == old(self).current_thread_killed,
            final(self).jump_targets == old(self).jump_targets, final(self).instructions_len == old(self).instructions_len, final(self).builder == old(self).builder,
//@end
//@extract file=src/vm/mod.rs path="impl VM|fn build"
//@ret r
//@spec
        ensures *r == self.builder,
//@end
//@extract file=src/vm/mod.rs path="impl VM|fn config"
//@ret r
//@spec
        ensures *r == self.config,
//@end
}

/// `t` is a fork of `cur` to `target`: same code, same state, positioned at the target
pub open spec fn forks_to(t: VMThread, cur: VMThread, target: u32) -> bool {
    &&& t.thread.code() == cur.thread.code()
    &&& (target as int) < cur.thread.code().len() ==> t.thread.ip() == target
    &&& t.state.stack == cur.state.stack
    &&& t.state.memory == cur.state.memory
    &&& t.state.recorded_values == cur.state.recorded_values
}
} // verus!
}

// ======================================================================================================
// The EVM's rule for a jump target, written from the EVM definition (C08): the FULL 256-bit value of the
// (constant) counter must be an offset of the code and the instruction there must be a JUMPDEST.
// ======================================================================================================
pub mod target {
use vstd::prelude::*;
use super::execution::{Error, LocatedError, Result};
use super::vm::{op_is_jumpdest, DynOpcode, VM};
use super::{fold, RSV, RSVD};
verus! {
pub enum Target {
    /// the counter folds to a constant naming a JUMPDEST of the code
    Valid(u32),
    /// the counter does not fold to a constant
    NotConcrete,
    /// constant, but not an offset of the code
    NonExistent,
    /// constant offset of the code, but the instruction there is not a JUMPDEST
    NotJumpDest(u32),
}
pub open spec fn target_of(code: Seq<DynOpcode>, counter: RSV) -> Target {
    match fold(counter).data {
        RSVD::KnownData { value } =>
            if value.v() >= code.len() { Target::NonExistent }
            else if op_is_jumpdest(code[value.v() as int]) { Target::Valid(value.v() as u32) }
            else { Target::NotJumpDest(value.v() as u32) },
        _ => Target::NotConcrete,
    }
}
/// the error that reports a bad target `t`, located at `ip`
pub open spec fn reports_bad_target(e: LocatedError, t: Target, ip: u32) -> bool {
    e.location == ip && match t {
        Target::NotConcrete => e.payload is NoConcreteJumpDestination,
        Target::NonExistent => e.payload is NonExistentJumpTarget,
        Target::NotJumpDest(o) => e.payload == (Error::InvalidJumpTarget { offset: o }),
        Target::Valid(_) => false,
    }
}
/// validation answers `res` exactly as the EVM rule says for `t`
pub open spec fn validated_as(res: Result<u32>, t: Target, ip: u32) -> bool {
    match t {
        Target::Valid(o) => res == Ok::<u32, LocatedError>(o),
        bad => res is Err && reports_bad_target(res->Err_0, bad, ip),
    }
}
/// the instruction is defined: there is a current thread with `n` operands on its stack
pub open spec fn ready(vm: &VM, n: int) -> bool { vm.has_thread() && vm.stack().len() >= n }
/// the EVM rule applied to the counter on top of the stack
pub open spec fn top_target(vm: &VM) -> Target { target_of(vm.code(), *vm.stack().last()) }
/// `new` is `old` with exactly one more entry at the end
pub open spec fn one_more<T>(new: Seq<T>, old: Seq<T>) -> bool { new.len() == old.len() + 1 && new.drop_last() =~= old }
} // verus!
}

pub mod util {
use vstd::prelude::*;
use super::container::Locatable;
use super::execution;
use super::target::{target_of, validated_as, Target};
use super::control::JumpDest;
use super::vm::{op_is_jumpdest, VM};
use super::{fold, RuntimeBoxedVal, RSVD};
verus! {
//@extract file=src/opcode/util.rs path="fn validate_jump_destination"
//@ret res
// R-MAPERR: Verus does not support the `|_|` closure pattern nor closure results through map_err: `X.map_err(|_| { E })?`
// is written out as `match X { Ok(v) => v, Err(_) => return Err(E) }`; X's argument and E are carried over verbatim ($1, $2).
// `optional`: if the construct is edited away the text goes to Verus as it is.
//@rw R-MAPERR optional
//@old
u32::try_from($1).map_err(|_| {
                $2
            })?
//@new
match u32::try_from($1) { Ok(v) => v, Err(_) => return Err(
                $2
            ) }
//@spec
        ensures
            *final(vm) == *old(vm),                                                                               //@ob C08.ctl.validate.vm_unchanged
            // Ok(t): the folded counter is a constant whose FULL 256-bit value is t, t is an offset of the code, a JUMPDEST is there
            res is Ok ==> old(vm).has_thread() && fold(**counter).data is KnownData
                && fold(**counter).data->KnownData_value.v() == res->Ok_0 as nat
                && (res->Ok_0 as int) < old(vm).code().len()
                && op_is_jumpdest(old(vm).code()[res->Ok_0 as int]),                                              //@ob C08.ctl.validate.ok_is_full_value_in_range_jumpdest
            // the three error kinds, exactly
            old(vm).has_thread() ==> ((res is Err && res->Err_0.payload is NoConcreteJumpDestination) <==> !(fold(**counter).data is KnownData)),      //@ob C08.ctl.validate.no_concrete_iff_not_constant
            old(vm).has_thread() ==> ((res is Err && res->Err_0.payload is NonExistentJumpTarget) <==>
                (fold(**counter).data is KnownData && fold(**counter).data->KnownData_value.v() >= old(vm).code().len())),                           //@ob C08.ctl.validate.non_existent_iff_out_of_range
            old(vm).has_thread() ==> ((res is Err && res->Err_0.payload is InvalidJumpTarget) <==>
                (fold(**counter).data is KnownData && fold(**counter).data->KnownData_value.v() < old(vm).code().len()
                 && !op_is_jumpdest(old(vm).code()[fold(**counter).data->KnownData_value.v() as int]))),                                                 //@ob C08.ctl.validate.invalid_iff_not_jumpdest
            // the same, as one function of the EVM rule (used by JUMP / JUMPI below)
            old(vm).has_thread() ==> validated_as(res, target_of(old(vm).code(), **counter), old(vm).ip()),      //@ob C08.ctl.validate.follows_evm_rule
            // errors are located at the current instruction (C17); without a thread nothing is validated
            res is Err && old(vm).has_thread() ==> res->Err_0.location == old(vm).ip(),                           //@ob C17.ctl.validate.error_located_at_ip
            !old(vm).has_thread() ==> res is Err && res->Err_0.payload is NoSuchThread,
//@proof entry
        proof { broadcast use super::u_range; }
//@end
} // verus!
}

pub mod control {
use vstd::prelude::*;
use super::container::Locatable;
use super::execution::{self, Error};
use super::target::{one_more, ready, reports_bad_target, top_target, Target};
use super::util;
use super::vm::{fork_budget, is_jump_target_kind, op_is_jumpdest, ExecuteResult, Opcode, VMThread, VM};
use super::{RuntimeBoxedVal, RSVD};
verus! {
broadcast use super::vm::lemma_handle_resolved;
/// `t` is the thread JUMPI starts for the taken branch: at `target`, in the same code, with the stack the
/// current thread has after the two operands are gone
pub open spec fn forked_at(t: VMThread, before: &VM, target: u32) -> bool {
    t.thread.ip() == target && t.thread.code() == before.code() && t.state.stack@ == before.stack().drop_last().drop_last()
}
// ---- halting opcodes: the path ends (C08) ------------------------------------------------------------
//@extract file=src/opcode/control.rs path="struct Stop" kind=type
//@end
//@extract file=src/opcode/control.rs path="impl Opcode for Stop" kind=header
//@end
//@extract file=src/opcode/control.rs path="impl Opcode for Stop|fn execute"
//@ret r
//@spec
        ensures
            r is Ok ==> final(vm).killed(),                                                     //@ob C08.ctl.stop.ok_kills_thread C05.ctl.stop.ok_kills_thread_so_dead_code_cannot_report_slots
            r is Ok ==> final(vm).ip() == old(vm).ip() && final(vm).code() == old(vm).code() && final(vm).queued() == old(vm).queued() && final(vm).log() == old(vm).log() && final(vm).config == old(vm).config,      //@ob C08.ctl.stop.nothing_else_moves
            r is Ok && *final(vm) == (VM { current_thread_killed: true, ..*old(vm) }),             //@ob C08.ctl.stop.only_the_flag
//@end
}

//@extract file=src/opcode/control.rs path="struct Invalid" kind=type
//@end
//@extract file=src/opcode/control.rs path="impl Opcode for Invalid" kind=header
//@end
//@extract file=src/opcode/control.rs path="impl Opcode for Invalid|fn execute"
//@ret r
//@spec
        ensures
            r is Ok ==> final(vm).killed(),                                                     //@ob C08.ctl.invalid.ok_kills_thread C05.ctl.invalid.ok_kills_thread_so_dead_code_cannot_report_slots
            r is Ok ==> final(vm).ip() == old(vm).ip() && final(vm).code() == old(vm).code() && final(vm).queued() == old(vm).queued() && final(vm).log() == old(vm).log() && final(vm).config == old(vm).config,      //@ob C08.ctl.invalid.nothing_else_moves
            r is Ok && *final(vm) == (VM { current_thread_killed: true, ..*old(vm) }),             //@ob C08.ctl.invalid.only_the_flag C10.ctl.invalid.every_wrapped_byte_ends_the_path_without_error
//@end
}

//@extract file=src/opcode/control.rs path="struct Return" kind=type
//@end
//@extract file=src/opcode/control.rs path="impl Opcode for Return" kind=header
//@end
//@extract file=src/opcode/control.rs path="impl Opcode for Return|fn execute"
//@ret r
//@spec
        ensures
            r is Ok ==> final(vm).killed(),                                                     //@ob C08.ctl.return.ok_kills_thread C05.ctl.return.ok_kills_thread_so_dead_code_cannot_report_slots
            r is Ok ==> final(vm).ip() == old(vm).ip() && final(vm).code() == old(vm).code() && final(vm).queued() == old(vm).queued() && final(vm).log() == old(vm).log() && final(vm).config == old(vm).config,      //@ob C08.ctl.return.nothing_else_moves
            old(vm).has_thread() && old(vm).stack().len() >= 2 ==> r is Ok,                          //@ob C08.ctl.return.ok_with_operands
            r is Ok ==> old(vm).has_thread() && old(vm).stack().len() >= 2 && final(vm).stack() == old(vm).stack().drop_last().drop_last(),      //@ob C07.ctl.return.pops_operands
            r is Err ==> !is_jump_target_kind(r->Err_0.payload) && (old(vm).has_thread() ==> r->Err_0.location == old(vm).ip()),      //@ob C17.ctl.return.error_kind_and_location
//@end
}

//@extract file=src/opcode/control.rs path="struct Revert" kind=type
//@end
//@extract file=src/opcode/control.rs path="impl Opcode for Revert" kind=header
//@end
//@extract file=src/opcode/control.rs path="impl Opcode for Revert|fn execute"
//@ret r
//@spec
        ensures
            r is Ok ==> final(vm).killed(),                                                     //@ob C08.ctl.revert.ok_kills_thread C05.ctl.revert.ok_kills_thread_so_dead_code_cannot_report_slots
            r is Ok ==> final(vm).ip() == old(vm).ip() && final(vm).code() == old(vm).code() && final(vm).queued() == old(vm).queued() && final(vm).log() == old(vm).log() && final(vm).config == old(vm).config,      //@ob C08.ctl.revert.nothing_else_moves
            old(vm).has_thread() && old(vm).stack().len() >= 2 ==> r is Ok,                          //@ob C08.ctl.revert.ok_with_operands
            r is Ok ==> old(vm).has_thread() && old(vm).stack().len() >= 2 && final(vm).stack() == old(vm).stack().drop_last().drop_last(),      //@ob C07.ctl.revert.pops_operands
            r is Err ==> !is_jump_target_kind(r->Err_0.payload) && (old(vm).has_thread() ==> r->Err_0.location == old(vm).ip()),      //@ob C17.ctl.revert.error_kind_and_location
//@end
}

// ---- JUMPDEST: a no-op ---------------------------------------------------------------------------------
//@extract file=src/opcode/control.rs path="struct JumpDest" kind=type
//@end
//@extract file=src/opcode/control.rs path="impl Opcode for JumpDest" kind=header
//@end
//@extract file=src/opcode/control.rs path="impl Opcode for JumpDest|fn execute"
//@ret r
//@spec
        ensures r is Ok && *final(_vm) == *old(_vm),      //@ob C08.ctl.jumpdest.changes_nothing
//@end
}

// ---- JUMP ----------------------------------------------------------------------------------------------
//@extract file=src/opcode/control.rs path="struct Jump" kind=type
//@end
//@extract file=src/opcode/control.rs path="impl Opcode for Jump" kind=header
//@end
//@extract file=src/opcode/control.rs path="impl Opcode for Jump|fn execute"
//@ret r
//@spec
        ensures
            // a valid target: the thread's pointer is moved there and nothing else happens
            ready(old(vm), 1) && top_target(old(vm)) is Valid ==> r is Ok && final(vm).ip() == top_target(old(vm))->Valid_0,      //@ob C08.ctl.jump.valid_moves_pointer
            ready(old(vm), 1) && top_target(old(vm)) is Valid ==> final(vm).killed() == old(vm).killed()
                && final(vm).queued() == old(vm).queued() && final(vm).log() == old(vm).log(),                                      //@ob C08.ctl.jump.valid_nothing_else
            // no constant target: the path cannot go on; that is not an error of the analysis
            ready(old(vm), 1) && top_target(old(vm)) is NotConcrete ==> r is Ok && final(vm).killed() && final(vm).ip() == old(vm).ip()
                && final(vm).queued() == old(vm).queued() && final(vm).log() == old(vm).log(),                                      //@ob C08.ctl.jump.unresolved_ends_path C17.ctl.jump.unresolved_is_not_an_error
            // a bad constant target: the error goes to the caller unchanged, which decides by mode (C17) ...
            ready(old(vm), 1) && (top_target(old(vm)) is NonExistent || top_target(old(vm)) is NotJumpDest)
                ==> r is Err && reports_bad_target(r->Err_0, top_target(old(vm)), old(vm).ip()),                                    //@ob C17.ctl.jump.bad_target_returned_unchanged
            // ... and JUMP itself neither kills, moves, queues nor logs
            ready(old(vm), 1) && (top_target(old(vm)) is NonExistent || top_target(old(vm)) is NotJumpDest)
                ==> final(vm).killed() == old(vm).killed() && final(vm).ip() == old(vm).ip()
                    && final(vm).queued() == old(vm).queued() && final(vm).log() == old(vm).log(),                                  //@ob C17.ctl.jump.bad_target_not_handled_here
            // the pointer only ever moves to a JUMPDEST inside the code
            r is Ok && old(vm).has_thread() && final(vm).ip() != old(vm).ip() ==> (final(vm).ip() as int) < old(vm).code().len()
                && op_is_jumpdest(old(vm).code()[final(vm).ip() as int]),                                                           //@ob C08.ctl.jump.only_to_jumpdest
            // the counter is consumed
            r is Ok ==> ready(old(vm), 1) && final(vm).stack() == old(vm).stack().drop_last(),                                      //@ob C08.ctl.jump.pops_counter
            final(vm).has_thread() == old(vm).has_thread() && (old(vm).has_thread() ==> final(vm).code() == old(vm).code()) && final(vm).config == old(vm).config,
            // stack underflow / missing thread: an error of another kind, returned
            !ready(old(vm), 1) ==> r is Err && !is_jump_target_kind(r->Err_0.payload),                                              //@ob C17.ctl.jump.other_errors_propagate
//@end
}

// ---- JUMPI ---------------------------------------------------------------------------------------------
//@extract file=src/opcode/control.rs path="struct JumpI" kind=type
//@end
//@extract file=src/opcode/control.rs path="impl Opcode for JumpI" kind=header
//@end
//@extract file=src/opcode/control.rs path="impl Opcode for JumpI|fn execute"
//@ret r
//@spec
        ensures
            // a valid target: both outcomes are explored while the budget lasts - exactly one new thread waits at the
            // target with the current thread's state ...
            ready(old(vm), 2) && top_target(old(vm)) is Valid && r is Ok && fork_budget(old(vm).jump_targets, top_target(old(vm))->Valid_0)
                ==> one_more(final(vm).queued(), old(vm).queued())
                    && forked_at(final(vm).queued().last(), old(vm), top_target(old(vm))->Valid_0),                                 //@ob C08.ctl.jumpi.budget_queues_one_thread_at_target
            // ... and nothing is queued once the budget is used up
            ready(old(vm), 2) && top_target(old(vm)) is Valid && r is Ok && !fork_budget(old(vm).jump_targets, top_target(old(vm))->Valid_0)
                ==> final(vm).queued() == old(vm).queued(),                                                                         //@ob C08.ctl.jumpi.no_budget_nothing_queued
            ready(old(vm), 2) && top_target(old(vm)) is Valid && r is Ok ==> final(vm).log() == old(vm).log(),                      //@ob C17.ctl.jumpi.valid_target_logs_nothing
            ready(old(vm), 2) && top_target(old(vm)) is Valid && r is Err ==> !is_jump_target_kind(r->Err_0.payload),               //@ob C17.ctl.jumpi.valid_target_error_is_other_kind
            // a bad target only concerns the thread that would have started there: Ok, nothing queued ...
            ready(old(vm), 2) && !(top_target(old(vm)) is Valid) ==> r is Ok && final(vm).queued() == old(vm).queued(),             //@ob C17.ctl.jumpi.bad_target_is_ok C08.ctl.jumpi.bad_target_still_explores_fall_through
            // ... not logged when such errors are tolerated ...
            ready(old(vm), 2) && !(top_target(old(vm)) is Valid) && old(vm).permissive() ==> final(vm).log() == old(vm).log(),      //@ob C17.ctl.jumpi.permissive_bad_target_not_logged
            // ... and logged, located at this instruction, in strict mode
            ready(old(vm), 2) && !(top_target(old(vm)) is Valid) && !old(vm).permissive() ==> one_more(final(vm).log(), old(vm).log())
                && reports_bad_target(final(vm).log().last(), top_target(old(vm)), old(vm).ip()),                                   //@ob C17.ctl.jumpi.strict_bad_target_logged
            // the current thread is never moved nor killed: it falls through
            final(vm).killed() == old(vm).killed() && final(vm).has_thread() == old(vm).has_thread() && final(vm).config == old(vm).config
                && (old(vm).has_thread() ==> final(vm).ip() == old(vm).ip() && final(vm).code() == old(vm).code()),                 //@ob C08.ctl.jumpi.current_thread_falls_through
            // both operands are consumed
            r is Ok ==> ready(old(vm), 2) && final(vm).stack() == old(vm).stack().drop_last().drop_last(),                          //@ob C08.ctl.jumpi.pops_two
            // any other error kind (missing thread, stack underflow, fork_to's own errors) is returned, not swallowed
            !ready(old(vm), 2) ==> r is Err && !is_jump_target_kind(r->Err_0.payload),                                              //@ob C17.ctl.jumpi.other_errors_propagate
//@end
}
} // verus!
}

// ======================================================================================================
// JUMP / JUMPI once more, against an ARBITRARY validation outcome.  With the real validation (mod util) the
// `_ => Err(payload)` arms and the InvalidOffsetForJump kind cannot be reached; C17's sentence "any other
// error kind is returned" is about those arms.  Here the same two bodies are extracted again and verified
// against a callee contract that is deliberately WEAKER than what mod util proves: validation leaves the VM
// alone and may answer anything (`outcome`, uninterpreted).
// ======================================================================================================
pub mod control_any_outcome {
use vstd::prelude::*;
use super::container::Locatable;
use super::execution::{self, Error};
use super::target::{one_more, ready};
use super::vm::{fork_budget, is_jump_target_kind, DynOpcode, ExecuteResult, Opcode, VM};
use super::control::forked_at;
use super::{RuntimeBoxedVal, RSV, RSVD};
pub mod util {
use vstd::prelude::*;
use super::super::execution;
use super::super::vm::{DynOpcode, VM};
use super::super::{RuntimeBoxedVal, RSV};
verus! {
/// whatever validation answers for this counter in this code at this instruction
pub uninterp spec fn outcome(code: Seq<DynOpcode>, ip: u32, counter: RSV) -> execution::Result<u32>;
// A-CALLEE (weaker than the proved contract of util::validate_jump_destination): the VM is left alone, the
// answer is some function of code, instruction pointer and counter
#[verifier::external_body]
pub fn validate_jump_destination(counter: &RuntimeBoxedVal, vm: &mut VM) -> (res: execution::Result<u32>)
    ensures
        *final(vm) == *old(vm),
        old(vm).has_thread() ==> res == outcome(old(vm).code(), old(vm).ip(), **counter),
{ unimplemented!() }
} // verus!
}
use util::outcome;
verus! {
broadcast use super::vm::lemma_handle_resolved;
/// the validation outcome for the counter on top of the stack
pub open spec fn top_outcome(vm: &VM) -> execution::Result<u32> { outcome(vm.code(), vm.ip(), *vm.stack().last()) }

//@extract file=src/opcode/control.rs path="struct Jump" kind=type id=control_any_outcome::Jump
//@end
//@extract file=src/opcode/control.rs path="impl Opcode for Jump" kind=header id=control_any_outcome::Opcode_for_Jump
//@end
//@extract file=src/opcode/control.rs path="impl Opcode for Jump|fn execute" id=control_any_outcome::Opcode_for_Jump::execute
//@ret r
//@spec
        ensures
            ready(old(vm), 1) && top_outcome(old(vm)) is Ok && (top_outcome(old(vm))->Ok_0 as int) < old(vm).code().len()
                ==> r is Ok && final(vm).ip() == top_outcome(old(vm))->Ok_0 && final(vm).killed() == old(vm).killed(),               //@ob C08.ctl.jump_any.ok_moves_pointer
            // an unresolvable target ends the path and is not an error
            ready(old(vm), 1) && top_outcome(old(vm)) is Err && top_outcome(old(vm))->Err_0.payload is NoConcreteJumpDestination
                ==> r is Ok && final(vm).killed() && final(vm).log() == old(vm).log(),                                               //@ob C17.ctl.jump_any.unresolved_ends_path
            // every other error - the bad-target kinds and anything else - is returned unchanged; JUMP neither kills nor logs
            ready(old(vm), 1) && top_outcome(old(vm)) is Err && !(top_outcome(old(vm))->Err_0.payload is NoConcreteJumpDestination)
                ==> r == Err::<(), execution::LocatedError>(top_outcome(old(vm))->Err_0)
                    && final(vm).killed() == old(vm).killed() && final(vm).log() == old(vm).log() && final(vm).ip() == old(vm).ip(),  //@ob C17.ctl.jump_any.other_errors_returned_unchanged
//@end
}

//@extract file=src/opcode/control.rs path="struct JumpI" kind=type id=control_any_outcome::JumpI
//@end
//@extract file=src/opcode/control.rs path="impl Opcode for JumpI" kind=header id=control_any_outcome::Opcode_for_JumpI
//@end
//@extract file=src/opcode/control.rs path="impl Opcode for JumpI|fn execute" id=control_any_outcome::Opcode_for_JumpI::execute
//@ret r
//@spec
        ensures
            // an error of one of the four jump-target kinds: Ok, the thread lives, nothing queued ...
            ready(old(vm), 2) && top_outcome(old(vm)) is Err && is_jump_target_kind(top_outcome(old(vm))->Err_0.payload)
                ==> r is Ok && final(vm).killed() == old(vm).killed() && final(vm).queued() == old(vm).queued(),                     //@ob C17.ctl.jumpi_any.target_kind_is_ok C08.ctl.jumpi_any.bad_target_still_explores_fall_through
            // ... the log is untouched when permissive ...
            ready(old(vm), 2) && top_outcome(old(vm)) is Err && is_jump_target_kind(top_outcome(old(vm))->Err_0.payload) && old(vm).permissive()
                ==> final(vm).log() == old(vm).log(),                                                                                //@ob C17.ctl.jumpi_any.permissive_log_unchanged
            // ... and gets exactly that error appended otherwise
            ready(old(vm), 2) && top_outcome(old(vm)) is Err && is_jump_target_kind(top_outcome(old(vm))->Err_0.payload) && !old(vm).permissive()
                ==> final(vm).log() == old(vm).log().push(top_outcome(old(vm))->Err_0),                                              //@ob C17.ctl.jumpi_any.strict_log_gets_the_error
            // any other error kind is returned, not swallowed, not logged here
            ready(old(vm), 2) && top_outcome(old(vm)) is Err && !is_jump_target_kind(top_outcome(old(vm))->Err_0.payload)
                ==> r == Err::<(), execution::LocatedError>(top_outcome(old(vm))->Err_0) && final(vm).log() == old(vm).log()
                    && final(vm).queued() == old(vm).queued(),                                                                       //@ob C17.ctl.jumpi_any.other_kinds_are_returned
            // Ok(t) with budget: one thread queued at t (when t is an offset of the code); without: none; log untouched
            ready(old(vm), 2) && top_outcome(old(vm)) is Ok && r is Ok && fork_budget(old(vm).jump_targets, top_outcome(old(vm))->Ok_0)
                && (top_outcome(old(vm))->Ok_0 as int) < old(vm).code().len()
                ==> one_more(final(vm).queued(), old(vm).queued()) && forked_at(final(vm).queued().last(), old(vm), top_outcome(old(vm))->Ok_0),      //@ob C08.ctl.jumpi_any.budget_queues_one
            ready(old(vm), 2) && top_outcome(old(vm)) is Ok && r is Ok && !fork_budget(old(vm).jump_targets, top_outcome(old(vm))->Ok_0)
                ==> final(vm).queued() == old(vm).queued(),                                                                          //@ob C08.ctl.jumpi_any.no_budget_none
            ready(old(vm), 2) && top_outcome(old(vm)) is Ok && r is Ok ==> final(vm).log() == old(vm).log(),                         //@ob C17.ctl.jumpi_any.ok_logs_nothing
            // never moved, never killed
            final(vm).killed() == old(vm).killed() && (old(vm).has_thread() ==> final(vm).has_thread() && final(vm).ip() == old(vm).ip()),      //@ob C08.ctl.jumpi_any.falls_through
//@end
}
} // verus!
}

pub mod environment {
use vstd::prelude::*;
use super::vm::{is_jump_target_kind, ExecuteResult, Opcode, VM};
use super::RSVD;
verus! {
broadcast use super::vm::lemma_handle_resolved;
//@extract file=src/opcode/environment.rs path="struct SelfDestruct" kind=type
//@end
//@extract file=src/opcode/environment.rs path="impl Opcode for SelfDestruct" kind=header
//@end
//@extract file=src/opcode/environment.rs path="impl Opcode for SelfDestruct|fn execute"
//@ret r
//@spec
        ensures
            r is Ok ==> final(vm).killed(),                                                     //@ob C08.ctl.selfdestruct.ok_kills_thread C05.ctl.selfdestruct.ok_kills_thread_so_dead_code_cannot_report_slots
            r is Ok ==> final(vm).ip() == old(vm).ip() && final(vm).code() == old(vm).code() && final(vm).queued() == old(vm).queued() && final(vm).log() == old(vm).log() && final(vm).config == old(vm).config,      //@ob C08.ctl.selfdestruct.nothing_else_moves
            old(vm).has_thread() && old(vm).stack().len() >= 1 ==> r is Ok,                          //@ob C08.ctl.selfdestruct.ok_with_operands
            r is Ok ==> old(vm).has_thread() && old(vm).stack().len() >= 1 && final(vm).stack() == old(vm).stack().drop_last(),      //@ob C07.ctl.selfdestruct.pops_operands
            r is Err ==> !is_jump_target_kind(r->Err_0.payload) && (old(vm).has_thread() ==> r->Err_0.location == old(vm).ip()),      //@ob C17.ctl.selfdestruct.error_kind_and_location
//@end
}

} // verus!
}
fn main() {}
