//@unit props=C12,C15,C14,C16,C01
// Unit merge_packed — src/tc/unification.rs `merge` on its `Packed` fragment: every operand pair with a packed
// encoding on either side (the complement of unit merge, which blanks exactly these arms).
//
//   (1) Packed x Packed   the two encodings are re-partitioned on the union of their span boundaries:
//         C12  the result's spans are exactly the gaps between adjacent boundaries of the operands' spans (`repartitioned`):
//              sorted, pairwise disjoint, non-empty, contiguous, inside the operands' extent (in particular: operands inside the
//              256-bit word => result inside the 256-bit word), and no result span straddles a boundary of an operand span
//         C01  `span.offset + span.size`, `*end - *start`, `offset - span.offset` do not wrap (the boundary list is strictly
//              ascending: needs the sort AND the de-duplication), `first().expect(..)` does not panic
//         C14  every span of the result carries its own fresh variable, all of them reported in `ty_vars` (this is what
//              unit unify ASSUMES of merge for pairs with a packed side); every operand span is related to the new spans that
//              tile it (one new span: an equality; otherwise a judgement with the tiles shifted to the span's origin, each inside
//              the span's width)
//         C16  the geometry of merge(a, b) and merge(b, a) is the same (the boundary set is symmetric) — lemma + client harness
//   (2) Packed x Word     what a word selects: nothing known/full width numeric => the encoding is kept; a narrower numeric
//         word => a new span [0, w) on the PARENT variable; a sized word of another usage => pushed onto the first span when that
//         is [0, w), else conflict (known finding D13 lives here: see `post_pw`)
//   (3) Packed x DynamicArray|Bytes   the string-encoding recognition: dynamic bytes exactly when the spans are a selection of
//         {[0,1) [1,8) [8,256)} (each at most once), else conflict
//   plus: Any is the identity, conflicts absorb, a packed encoding against a mapping / fixed array is a conflict, equal
//   operands give that operand, no `Equal` is ever produced.
use vstd::prelude::*;

// A-ETHNUM: stand-in for ethnum::U256 (payload of TypeExpression::FixedArray; only compared by the blanked arms).
mod ext {
    #[derive(Clone, Copy, PartialEq, Eq)]
    pub struct U256(pub [u128; 2]);
}
use ext::U256;

verus! {

#[verifier::external_type_specification]
#[verifier::external_body]
pub struct ExU256(U256);
// A-ETHNUM: ethnum's `#[derive(PartialEq)]` on `U256([u128; 2])` is structural: `a == b` iff same value
impl vstd::std_specs::cmp::PartialEqSpecImpl for U256 {
    open spec fn obeys_eq_spec() -> bool { true }
    open spec fn eq_spec(&self, other: &U256) -> bool { *self == *other }
}
pub assume_specification[ <U256 as core::cmp::PartialEq>::eq ](a: &U256, b: &U256) -> (r: bool);

//@include word_use/items.rs
//@dropped merge, arms WITHOUT a packed operand (Word x Word, Bytes x Word, DynamicArray x Bytes, DynamicArray x Word, DynamicArray x DynamicArray, FixedArray x FixedArray, Mapping x Mapping): R-OPAQUE here (bodies replaced by a stand-in with NO postcondition) — they are under contract in unit merge; the rewrites are `optional`: an edited arm is passed to the verifier verbatim (nothing is claimed about it in this unit)
//@dropped merge's precondition for two packed operands — every span end `offset + size` is a representable usize (spans_fit) — is NOT discharged at the call site in `unify` (unit unify takes merge as an assumed callee). It is preserved by merge itself (C01.mp.packed_packed.result_span_ends_representable: result spans, emitted sub-spans and the narrow-word span all fit), but the producers of packed encodings (rule/packed_encoding.rs, rule/masked_word.rs, rule/mapping_access.rs: `Span::new(v, projection * 256, 256)`) are outside this unit
//@dropped TypeExpression::conflict_with: closure + Vec::extend, assumed to return a `Conflict` (A-CALLEE); conflict payloads are not compared
//@dropped Packed x Packed: the ORDER in which equalities / judgements are emitted by `process_spans` (sorted_by_key on (offset, size)) is not under contract: the sort is only assumed to return a rearrangement; per emitted item: it is about an operand span, exact tiling, variables; plus one item per operand span by COUNT (that the items are about pairwise different operand spans is not stated)
//@dropped Packed x Packed is under contract for operands that are not the same encoding (`abs(left) != abs(right)`); equal operands return that operand (C15.mp.merge.idempotent) whatever its geometry — an operand with overlapping or unsorted spans is returned as it is
//@dropped Packed x Word: the contract is the arm's case table (C15 names no packed case); the span a sized special-usage word is matched with is the FIRST in vector order (`.exact` clause) — equal to "the span [0, w)" only for encodings whose spans start at ascending offsets and are non-empty and disjoint (lemma_first_span_rule); word widths above 256 are not excluded (the narrow-word span [0, w) then leaves the word)
//@dropped itertools / std iterator adapters are NOT verified: `iter, into_iter, chain, unique, sorted, sorted_by_key, collect_vec, into_iter().skip` are stand-ins over Seq with assumed contracts (A-STD, listed in assumptions.json); `flat_map`, `map`, `copied`, `skip_while`, `take_while` and the closure `process_spans` are desugared into loops whose bodies are the closures' bodies carried over verbatim (R-FOREACH); laziness of the adapters (closures run at `collect_vec`, not where they are written) is not modelled — it cannot change results here: no closure has a side effect
//@dropped C16 grouping (associativity) is NOT claimed for packed operands (C16's finite domain has no packed encodings); order (symmetry) is: law_packed_packed_symmetric / law_packed_other_symmetric
//@dropped unify / abi_type_for / the lifting passes: other units

// =================================================================================================
// Types (extracted verbatim; derive lists replaced as A-DERIVE says)
// =================================================================================================
// A-DERIVE: #[derive(Copy, Clone, Eq, PartialEq)] on a struct of scalars is structural
#[derive(Copy, Clone, Eq, PartialEq, Structural)]
//@extract file=src/tc/state/type_variable.rs path="struct TypeVariable" kind=type
//@end

#[derive(Copy, Clone, Eq, PartialEq, Structural)]
//@extract file=src/tc/expression.rs path="struct Span" kind=type
//@end

//@extract file=src/tc/expression.rs path="type TE" kind=type
//@end

//@extract file=src/tc/expression.rs path="enum TypeExpression" kind=type
//@end

//@extract file=src/tc/unification.rs path="struct Merge" kind=type
//@end

#[derive(Copy, Clone, Eq, PartialEq, Structural)]
//@extract file=src/tc/unification.rs path="struct Equality" kind=type
//@end

//@extract file=src/tc/unification.rs path="struct Judgement" kind=type
//@end

// =================================================================================================
// Stand-ins for the iterator pipeline (A-STD): an iterator is viewed as the sequence of items it will yield
// =================================================================================================
#[verifier::external_body]
#[verifier::reject_recursive_types(T)]
pub struct VxIter<T> { _v: Vec<T> }

/// `a <= b` in the `Ord` instance of K
pub uninterp spec fn ord_le<K>(a: K, b: K) -> bool;
// A-STD: `Ord` on usize is the numeric order
pub broadcast axiom fn ord_le_usize(a: usize, b: usize)
    ensures #[trigger] ord_le(a, b) == (a <= b);

/// `r` is a rearrangement of `s`: an explicit bijection between the positions (p: position in r -> position in s, q its inverse)
pub open spec fn perm_by<T>(r: Seq<T>, s: Seq<T>, p: Seq<int>, q: Seq<int>) -> bool {
    &&& r.len() == s.len() && p.len() == s.len() && q.len() == s.len()
    &&& forall|i: int| 0 <= i < s.len() ==> 0 <= #[trigger] p[i] < s.len() && q[p[i]] == i && r[i] == s[p[i]]
    &&& forall|j: int| 0 <= j < s.len() ==> 0 <= #[trigger] q[j] < s.len() && p[q[j]] == j
}
pub open spec fn is_perm_of<T>(r: Seq<T>, s: Seq<T>) -> bool { exists|p: Seq<int>, q: Seq<int>| perm_by(r, s, p, q) }

impl<T> VxIter<T> {
    pub uninterp spec fn seq(&self) -> Seq<T>;
    // A-STD: `IntoIterator::into_iter` on an iterator is the identity
    #[verifier::external_body]
    pub fn into_iter(self) -> (r: Self) ensures r.seq() == self.seq() { unimplemented!() }
    // A-STD: `Iterator::chain`: all of the first, then all of the second
    #[verifier::external_body]
    pub fn chain(self, other: VxIter<T>) -> (r: Self) ensures r.seq() == self.seq() + other.seq() { unimplemented!() }
    // A-STD: itertools `unique`: no element twice, the same elements (the first occurrence of each is kept, in order — not needed here)
    #[verifier::external_body]
    pub fn unique(self) -> (r: Self)
        ensures r.seq().no_duplicates(), forall|x: T| #[trigger] r.seq().contains(x) <==> self.seq().contains(x),
    { unimplemented!() }
    // A-STD: itertools `sorted`: a rearrangement, ascending in `Ord`
    #[verifier::external_body]
    pub fn sorted(self) -> (r: Self) where T: Ord
        ensures is_perm_of(r.seq(), self.seq()), forall|i: int, j: int| 0 <= i < j < r.seq().len() ==> ord_le(#[trigger] r.seq()[i], #[trigger] r.seq()[j]),
    { unimplemented!() }
    // A-STD: itertools `sorted_by_key`: a rearrangement, ascending in `Ord` on the keys the closure yields
    #[verifier::external_body]
    pub fn sorted_by_key<K: Ord, F: Fn(&T) -> K>(self, f: F) -> (r: Self)
        requires forall|x: &T| #[trigger] f.requires((x,)),
        ensures
            is_perm_of(r.seq(), self.seq()),
            forall|i: int, j: int, ki: K, kj: K| 0 <= i < j < r.seq().len() && #[trigger] f.ensures((&r.seq()[i],), ki) && #[trigger] f.ensures((&r.seq()[j],), kj) ==> ord_le(ki, kj),
            forall|i: int| #![trigger r.seq()[i]] 0 <= i < r.seq().len() ==> exists|k: K| #[trigger] f.ensures((&r.seq()[i],), k),   // the key function returned for every element
    { unimplemented!() }
    // A-STD: itertools `collect_vec`: the items in order
    #[verifier::external_body]
    pub fn collect_vec(self) -> (r: Vec<T>) ensures r@ == self.seq() { unimplemented!() }
}
// A-STD: `slice::iter` yields a reference to every element, in index order
#[verifier::external_body]
pub fn vx_iter<'a, T>(v: &'a Vec<T>) -> (r: VxIter<&'a T>)
    ensures r.seq().len() == v@.len(), forall|i: int| 0 <= i < v@.len() ==> *#[trigger] r.seq()[i] == v@[i],
{ unimplemented!() }
// A-STD (R-FOREACH glue): a vector handed on as an iterator yields its elements in order
#[verifier::external_body]
pub fn vx_from_vec<T>(v: Vec<T>) -> (r: VxIter<T>) ensures r.seq() == v@ { unimplemented!() }
// A-STD: `Vec::into_iter().skip(n)`: the elements from position n on, in order
#[verifier::external_body]
pub fn vx_skip<T>(v: Vec<T>, n: usize) -> (r: Vec<T>)
    ensures n <= v@.len() ==> r@ == v@.skip(n as int), n > v@.len() ==> r@.len() == 0,
{ unimplemented!() }

/// consequences of `is_perm_of` used below
pub proof fn lemma_perm_props<T>(r: Seq<T>, s: Seq<T>)
    requires is_perm_of(r, s),
    ensures
        r.len() == s.len(),
        forall|x: T| #[trigger] r.contains(x) <==> s.contains(x),
        s.no_duplicates() ==> r.no_duplicates(),
{
    let (p, q) = choose|p: Seq<int>, q: Seq<int>| perm_by(r, s, p, q);
    assert forall|x: T| #[trigger] r.contains(x) <==> s.contains(x) by {
        if r.contains(x) { let i = choose|i: int| 0 <= i < r.len() && r[i] == x; assert(s[p[i]] == x); }
        if s.contains(x) { let j = choose|j: int| 0 <= j < s.len() && s[j] == x; assert(r[q[j]] == s[p[q[j]]]); }
    }
    if s.no_duplicates() {
        assert forall|i: int, j: int| 0 <= i < r.len() && 0 <= j < r.len() && i != j implies r[i] != r[j] by {
            assert(q[p[i]] == i && q[p[j]] == j);
        }
    }
}
/// the rearrangements of at most three items, spelled out
pub proof fn lemma_perm_small<T>(r: Seq<T>, s: Seq<T>)
    requires is_perm_of(r, s), s.len() <= 3,
    ensures
        r.len() == s.len(),
        r.len() == 2 ==> r =~= s || r =~= seq![s[1], s[0]],
        r.len() == 3 ==> r =~= s || r =~= seq![s[0], s[2], s[1]] || r =~= seq![s[1], s[0], s[2]] || r =~= seq![s[1], s[2], s[0]]
            || r =~= seq![s[2], s[0], s[1]] || r =~= seq![s[2], s[1], s[0]],
{
    let (p, q) = choose|p: Seq<int>, q: Seq<int>| perm_by(r, s, p, q);
    if r.len() == 2 { assert(q[p[0]] == 0 && q[p[1]] == 1); }
    if r.len() == 3 { assert(q[p[0]] == 0 && q[p[1]] == 1 && q[p[2]] == 2); }
}

// =================================================================================================
// Vocabulary of the contract
// =================================================================================================
/// a type expression with vectors read as sequences (conflict payloads forgotten)
pub enum A {
    Any,
    Bytes,
    Word { width: Option<usize>, usage: WordUse },
    Fixed { element: TypeVariable, length: U256 },
    Map { key: TypeVariable, value: TypeVariable },
    Dyn { element: TypeVariable },
    Conflict,
    Packed { types: Seq<Span>, is_struct: bool },
    Equal { id: TypeVariable },
}
pub open spec fn abs(t: TypeExpression) -> A {
    match t {
        TypeExpression::Any => A::Any,
        TypeExpression::Equal { id } => A::Equal { id },
        TypeExpression::Word { width, usage } => A::Word { width, usage },
        TypeExpression::Bytes => A::Bytes,
        TypeExpression::FixedArray { element, length } => A::Fixed { element, length },
        TypeExpression::Mapping { key, value } => A::Map { key, value },
        TypeExpression::DynamicArray { element } => A::Dyn { element },
        TypeExpression::Packed { types, is_struct } => A::Packed { types: types@, is_struct },
        TypeExpression::Conflict { .. } => A::Conflict,
    }
}
/// the pair has a packed side: the fragment of `merge` under contract in this unit
pub open spec fn has_packed(l: TypeExpression, r: TypeExpression) -> bool { l is Packed || r is Packed }
/// the packed operand (the left one when both are) and the other one
pub open spec fn pside(l: TypeExpression, r: TypeExpression) -> TypeExpression { if l is Packed { l } else { r } }
pub open spec fn oside(l: TypeExpression, r: TypeExpression) -> TypeExpression { if l is Packed { r } else { l } }
/// nothing but the expression comes out of the merge
pub open spec fn no_side_output(m: Merge) -> bool { m.equalities@.len() == 0 && m.judgements@.len() == 0 && m.ty_vars@.len() == 0 }
/// the result is the given packed encoding (same spans in the same order, same struct flag)
pub open spec fn is_packed_of(e: TypeExpression, types: Seq<Span>, is_struct: bool) -> bool {
    e is Packed && e->types@ =~= types && e->is_struct == is_struct
}

// ---- span geometry -------------------------------------------------------------------------------------------
/// first bit after the span
pub open spec fn s_end(s: Span) -> int { s.offset + s.size }
/// C01: every span end is a representable number (the code computes `offset + size` in usize)
pub open spec fn spans_fit(t: Seq<Span>) -> bool { forall|i: int| 0 <= i < t.len() ==> s_end(#[trigger] t[i]) <= usize::MAX }
/// x is where a span of t starts or ends
pub open spec fn is_bound(t: Seq<Span>, x: int) -> bool { exists|i: int| 0 <= i < t.len() && ((#[trigger] t[i]).offset == x || s_end(t[i]) == x) }
pub open spec fn strictly_ascending(b: Seq<usize>) -> bool { forall|i: int, j: int| 0 <= i < j < b.len() ==> #[trigger] b[i] < #[trigger] b[j] }
/// `res` is the partition on the boundary list `b`, and `b` is the ascending list of all span boundaries of `l` and `r`
pub open spec fn partition_on(b: Seq<usize>, l: Seq<Span>, r: Seq<Span>, res: Seq<Span>) -> bool {
    &&& b.len() >= 1
    &&& strictly_ascending(b)
    &&& forall|x: usize| #[trigger] b.contains(x) <==> (is_bound(l, x as int) || is_bound(r, x as int))
    &&& res.len() == b.len() - 1
    &&& forall|i: int| 0 <= i < res.len() ==> (#[trigger] res[i]).offset == b[i] && s_end(res[i]) == b[i + 1]
}
/// C12 ("re-partitioned on boundaries when merged"): the spans of the result are the gaps between adjacent boundaries of the operands' spans
pub open spec fn repartitioned(l: Seq<Span>, r: Seq<Span>, res: Seq<Span>) -> bool { exists|b: Seq<usize>| partition_on(b, l, r, res) }
/// sorted by offset and pairwise non-overlapping
pub open spec fn disjoint_sorted(t: Seq<Span>) -> bool { forall|i: int, j: int| 0 <= i < j < t.len() ==> s_end(#[trigger] t[i]) <= (#[trigger] t[j]).offset }
pub open spec fn all_non_empty(t: Seq<Span>) -> bool { forall|i: int| 0 <= i < t.len() ==> (#[trigger] t[i]).size > 0 }
pub open spec fn contiguous(t: Seq<Span>) -> bool { forall|i: int| 0 <= i < t.len() - 1 ==> s_end(#[trigger] t[i]) == t[i + 1].offset }
pub open spec fn ends_le(t: Seq<Span>, b: int) -> bool { forall|i: int| 0 <= i < t.len() ==> s_end(#[trigger] t[i]) <= b }
pub open spec fn starts_ge(t: Seq<Span>, b: int) -> bool { forall|i: int| 0 <= i < t.len() ==> (#[trigger] t[i]).offset >= b }
pub open spec fn inside(a: Span, b: Span) -> bool { b.offset <= a.offset && s_end(a) <= s_end(b) }
pub open spec fn apart(a: Span, b: Span) -> bool { s_end(a) <= b.offset || s_end(b) <= a.offset }
/// no span of `res` straddles a boundary of a span of `op`: it lies inside that span or apart from it
pub open spec fn refines(res: Seq<Span>, op: Seq<Span>) -> bool {
    forall|i: int, k: int| 0 <= i < res.len() && 0 <= k < op.len() ==> inside(#[trigger] res[i], #[trigger] op[k]) || apart(res[i], op[k])
}
/// every boundary of `op` is a boundary of `res` or lies outside/at the rim of what `res` covers — with `contiguous` this says
/// every operand span is tiled exactly
pub open spec fn covers_bounds(res: Seq<Span>, op: Seq<Span>) -> bool {
    forall|x: int| #[trigger] is_bound(op, x) && res.len() > 0 ==> res[0].offset <= x <= s_end(res.last()) && is_bound(res, x)
}
/// the geometry (offsets and sizes, variables forgotten) of two encodings is the same
pub open spec fn same_geometry(a: Seq<Span>, b: Seq<Span>) -> bool {
    a.len() == b.len() && forall|i: int| 0 <= i < a.len() ==> (#[trigger] a[i]).offset == b[i].offset && a[i].size == b[i].size
}

/// every boundary of an operand sits at some position of b
pub proof fn lemma_bound_position(b: Seq<usize>, l: Seq<Span>, r: Seq<Span>, res: Seq<Span>, x: int) -> (p: int)
    requires partition_on(b, l, r, res), spans_fit(l), spans_fit(r), is_bound(l, x) || is_bound(r, x),
    ensures 0 <= p < b.len(), b[p] == x,
{
    if is_bound(l, x) { let k = choose|k: int| 0 <= k < l.len() && ((#[trigger] l[k]).offset == x || s_end(l[k]) == x); assert(0 <= x <= usize::MAX); }
    else { let k = choose|k: int| 0 <= k < r.len() && ((#[trigger] r[k]).offset == x || s_end(r[k]) == x); assert(0 <= x <= usize::MAX); }
    let xu = x as usize;
    assert(is_bound(l, xu as int) || is_bound(r, xu as int));
    assert(b.contains(xu));
    choose|p: int| 0 <= p < b.len() && b[p] == xu
}
pub proof fn lemma_refines(b: Seq<usize>, l: Seq<Span>, r: Seq<Span>, res: Seq<Span>, op: Seq<Span>)
    requires partition_on(b, l, r, res), spans_fit(l), spans_fit(r), op == l || op == r,
    ensures refines(res, op), covers_bounds(res, op),
{
    assert forall|i: int, k: int| 0 <= i < res.len() && 0 <= k < op.len() implies inside(#[trigger] res[i], #[trigger] op[k]) || apart(res[i], op[k]) by {
        let o = op[k].offset as int;
        let e = s_end(op[k]);
        assert(is_bound(op, o));
        assert(is_bound(op, e));
        let po = lemma_bound_position(b, l, r, res, o);
        let pe = lemma_bound_position(b, l, r, res, e);
        if po <= i { if po < i { assert(b[po] < b[i]); } } else { if i + 1 < po { assert(b[i + 1] < b[po]); } }
        if pe <= i { if pe < i { assert(b[pe] < b[i]); } } else { if i + 1 < pe { assert(b[i + 1] < b[pe]); } }
    }
    assert forall|x: int| #[trigger] is_bound(op, x) && res.len() > 0 implies res[0].offset <= x <= s_end(res.last()) && is_bound(res, x) by {
        let px = lemma_bound_position(b, l, r, res, x);
        if 0 < px { assert(b[0] < b[px]); }
        if px < b.len() - 1 { assert(b[px] < b[b.len() - 1]); }
        if px < res.len() { assert(res[px].offset == x); } else { assert(s_end(res[px - 1]) == x); }
    }
}
pub proof fn lemma_partition_props(b: Seq<usize>, l: Seq<Span>, r: Seq<Span>, res: Seq<Span>)
    requires partition_on(b, l, r, res), spans_fit(l), spans_fit(r),
    ensures
        disjoint_sorted(res), all_non_empty(res), contiguous(res),
        refines(res, l), refines(res, r),
        covers_bounds(res, l), covers_bounds(res, r),
        forall|e: int| ends_le(l, e) && ends_le(r, e) ==> #[trigger] ends_le(res, e),
        forall|e: int| starts_ge(l, e) && starts_ge(r, e) ==> #[trigger] starts_ge(res, e),
{
    assert forall|i: int| 0 <= i < res.len() implies (#[trigger] res[i]).size > 0 by { assert(b[i] < b[i + 1]); }
    assert forall|i: int, j: int| 0 <= i < j < res.len() implies s_end(#[trigger] res[i]) <= (#[trigger] res[j]).offset by {
        if i + 1 < j { assert(b[i + 1] < b[j]); }
    }
    lemma_refines(b, l, r, res, l);
    lemma_refines(b, l, r, res, r);
    assert forall|e: int| ends_le(l, e) && ends_le(r, e) implies #[trigger] ends_le(res, e) by {
        assert forall|i: int| 0 <= i < res.len() implies s_end(#[trigger] res[i]) <= e by {
            assert(b.contains(b[i + 1]));
            let x = b[i + 1] as int;
            if is_bound(l, x) { let k = choose|k: int| 0 <= k < l.len() && ((#[trigger] l[k]).offset == x || s_end(l[k]) == x); assert(s_end(l[k]) <= e); }
            else { let k = choose|k: int| 0 <= k < r.len() && ((#[trigger] r[k]).offset == x || s_end(r[k]) == x); assert(s_end(r[k]) <= e); }
        }
    }
    assert forall|e: int| starts_ge(l, e) && starts_ge(r, e) implies #[trigger] starts_ge(res, e) by {
        assert forall|i: int| 0 <= i < res.len() implies (#[trigger] res[i]).offset >= e by {
            assert(b.contains(b[i]));
            let x = b[i] as int;
            if is_bound(l, x) { let k = choose|k: int| 0 <= k < l.len() && ((#[trigger] l[k]).offset == x || s_end(l[k]) == x); assert(l[k].offset >= e); }
            else { let k = choose|k: int| 0 <= k < r.len() && ((#[trigger] r[k]).offset == x || s_end(r[k]) == x); assert(r[k].offset >= e); }
        }
    }
}
/// two strictly ascending lists with the same elements are the same list
pub proof fn lemma_ascending_unique(a: Seq<usize>, b: Seq<usize>)
    requires strictly_ascending(a), strictly_ascending(b), forall|x: usize| #[trigger] a.contains(x) <==> b.contains(x),
    ensures a =~= b,
    decreases a.len(),
{
    if a.len() == 0 {
        if b.len() > 0 { assert(b.contains(b[0])); assert(a.contains(b[0])); }
    } else {
        assert(a.contains(a[0]));
        assert(b.contains(a[0]));
        let k = choose|k: int| 0 <= k < b.len() && b[k] == a[0];
        assert(b.contains(b[0]));
        assert(a.contains(b[0]));
        let m = choose|m: int| 0 <= m < a.len() && a[m] == b[0];
        if m > 0 { assert(a[0] < a[m]); }
        if k > 0 { assert(b[0] < b[k]); }
        assert(a[0] == b[0]);
        let a1 = a.skip(1);
        let b1 = b.skip(1);
        assert forall|x: usize| #[trigger] a1.contains(x) <==> b1.contains(x) by {
            if a1.contains(x) {
                let i = choose|i: int| 0 <= i < a1.len() && a1[i] == x;
                assert(a[i + 1] == x && a[0] < a[i + 1]);
                assert(a.contains(x));
                assert(b.contains(x));
                let j = choose|j: int| 0 <= j < b.len() && b[j] == x;
                assert(j > 0);
                assert(b1[j - 1] == x);
            }
            if b1.contains(x) {
                let i = choose|i: int| 0 <= i < b1.len() && b1[i] == x;
                assert(b[i + 1] == x && b[0] < b[i + 1]);
                assert(b.contains(x));
                assert(a.contains(x));
                let j = choose|j: int| 0 <= j < a.len() && a[j] == x;
                assert(j > 0);
                assert(a1[j - 1] == x);
            }
        }
        assert forall|i: int, j: int| 0 <= i < j < a1.len() implies #[trigger] a1[i] < #[trigger] a1[j] by { assert(a[i + 1] < a[j + 1]); }
        assert forall|i: int, j: int| 0 <= i < j < b1.len() implies #[trigger] b1[i] < #[trigger] b1[j] by { assert(b[i + 1] < b[j + 1]); }
        lemma_ascending_unique(a1, b1);
        assert(a =~= seq![a[0]] + a1);
        assert(b =~= seq![b[0]] + b1);
        assert(a1 == b1);
    }
}
/// C16: the geometry does not depend on the order of the operands
pub proof fn lemma_repartition_symmetric(l: Seq<Span>, r: Seq<Span>, res1: Seq<Span>, res2: Seq<Span>)
    requires repartitioned(l, r, res1), repartitioned(r, l, res2),
    ensures same_geometry(res1, res2),                 //@ob C16.mp.packed_packed.geometry_symmetric
{
    let b1 = choose|b: Seq<usize>| partition_on(b, l, r, res1);
    let b2 = choose|b: Seq<usize>| partition_on(b, r, l, res2);
    lemma_ascending_unique(b1, b2);
}

// =================================================================================================
// Callees
// =================================================================================================
// A-DERIVE: `#[derive(PartialEq)]` on TypeExpression is deep structural equality (Vec fields compared by content).
// Assumed only as far as needed: values that compare equal read the same (vectors as sequences), equal values compare equal.
impl vstd::std_specs::cmp::PartialEqSpecImpl for TypeExpression {
    open spec fn obeys_eq_spec() -> bool { false }
    open spec fn eq_spec(&self, other: &TypeExpression) -> bool { true }
}
impl PartialEq for TypeExpression {
    #[verifier::external_body]
    fn eq(&self, other: &Self) -> (r: bool)
        ensures
            r ==> abs(*self) == abs(*other),
            *self == *other ==> r,
    { unimplemented!() }
}

//@extract file=src/tc/expression.rs path="impl Span" kind=header
//@end
//@extract file=src/tc/expression.rs path="impl Span|fn new" props=C12,C01
//@ret r
//@spec
        ensures r == (Span { typ, offset, size }),       //@ob C12.mp.span.new.fields
//@end
//@extract file=src/tc/expression.rs path="impl Span|fn typ" props=C12,C01
//@ret r
//@spec
        ensures r == self.typ,       //@ob C12.mp.span.typ
//@end
//@extract file=src/tc/expression.rs path="impl Span|fn offset_bits" props=C12,C01
//@ret r
//@spec
        ensures r == self.offset,       //@ob C12.mp.span.offset_bits
//@end
//@extract file=src/tc/expression.rs path="impl Span|fn offset_bytes" props=C12,C01
//@ret r
//@spec
        ensures r == self.offset / 8,       //@ob C12.mp.span.offset_bytes
//@end
//@extract file=src/tc/expression.rs path="impl Span|fn size_bits" props=C12,C01
//@ret r
//@spec
        ensures r == self.size,       //@ob C12.mp.span.size_bits
//@end
//@extract file=src/tc/expression.rs path="impl Span|fn size_bytes" props=C12,C01
//@ret r
//@spec
        ensures r == self.size / 8,       //@ob C12.mp.span.size_bytes
//@end
//@extract file=src/tc/expression.rs path="impl Span|fn start_bit" props=C12,C01
//@ret r
//@spec
        ensures r == self.offset,       //@ob C12.mp.span.start_bit
//@end
//@extract file=src/tc/expression.rs path="impl Span|fn start_byte" props=C12,C01
//@ret r
//@spec
        ensures r == self.offset / 8,       //@ob C12.mp.span.start_byte
//@end
//@extract file=src/tc/expression.rs path="impl Span|fn end_bit" props=C12,C01
//@ret r
//@spec
        requires s_end(*self) <= usize::MAX,          // C01: `self.offset + self.size`
        ensures r == s_end(*self),       //@ob C12.mp.span.end_bit
//@end
//@extract file=src/tc/expression.rs path="impl Span|fn end_byte" props=C12,C01
//@ret r
//@spec
        requires s_end(*self) <= usize::MAX,
        ensures r == s_end(*self) / 8,       //@ob C12.mp.span.end_byte
//@end
}

//@extract file=src/tc/expression.rs path="impl TypeExpression" kind=header
//@end
//@extract file=src/tc/expression.rs path="impl TypeExpression|fn word" props=C15,C01
//@ret r
//@spec
        ensures r == (TypeExpression::Word { width, usage }),
//@end

//@extract file=src/tc/expression.rs path="impl TypeExpression|fn conflict" props=C15,C01
//@ret r
//@rw R-IMPL-INTO
//@old
reason: impl Into<String>
//@new
reason: &str
//@spec
        ensures r is Conflict,       //@ob C15.mp.te.conflict
//@end

    // A-CALLEE: `conflict_with` gathers both sides (flattening nested conflicts) through a `&mut`
    // capturing closure and `Vec::extend` — outside Verus' subset. Assumed: it returns a `Conflict`
    // (its body ends in the `Self::Conflict { .. }` constructor); nothing is assumed about the payload.
    #[verifier::external_body]
    pub fn conflict_with(self, other: Self, reason: &str) -> (r: Self)
        ensures r is Conflict,
    { unimplemented!() }

    // A-CALLEE: `packed_of` converts its elements with itertools' `map_into().collect()` (outside Verus' subset); monomorphised to
    // `Vec<Span>` (R-IMPL-INTO; the only element type used by `merge`, for which `Into<Span>` is the identity). Assumed EXACTLY
    // as its body reads: the same spans, in order, not a struct.
    #[verifier::external_body]
    pub fn packed_of(types: Vec<Span>) -> (r: Self)
        ensures is_packed_of(r, types@, false),
    { unimplemented!() }
}

//@extract file=src/tc/unification.rs path="impl Merge" kind=header
//@end
//@extract file=src/tc/unification.rs path="impl Merge|fn new" props=C14,C01
//@ret r
//@spec
        ensures r.expression == expression, r.equalities == equalities, r.judgements == judgements, r.ty_vars == ty_vars,      //@ob C14.mp.Merge.new
//@end

//@extract file=src/tc/unification.rs path="impl Merge|fn expression" props=C14,C01
//@ret r
//@spec
        ensures r.expression == expression, r.equalities@.len() == 0, r.judgements@.len() == 0, r.ty_vars@.len() == 0,      //@ob C14.mp.Merge.expression
//@end

//@extract file=src/tc/unification.rs path="impl Merge|fn equalities" props=C14,C01
//@ret r
//@spec
        ensures r.expression == expression, r.equalities == equalities, r.judgements@.len() == 0, r.ty_vars@.len() == 0,      //@ob C14.mp.Merge.equalities
//@end

//@extract file=src/tc/unification.rs path="impl Merge|fn judgements" props=C14,C01
//@ret r
//@spec
        ensures r.expression == expression, r.equalities@.len() == 0, r.judgements == judgements, r.ty_vars@.len() == 0,      //@ob C14.mp.Merge.judgements
//@end
}

//@extract file=src/tc/unification.rs path="impl Equality" kind=header
//@end
//@extract file=src/tc/unification.rs path="impl Equality|fn new" props=C14,C01
//@ret r
//@spec
        ensures r == (Equality { left, right }),      //@ob C14.mp.Equality.new
//@end
}

//@extract file=src/tc/unification.rs path="impl Judgement" kind=header
//@end
//@extract file=src/tc/unification.rs path="impl Judgement|fn new" props=C14,C01
//@ret r
//@spec
        ensures r.tv == tv, r.expr == expr,      //@ob C14.mp.Judgement.new
//@end
}

// A-CALLEE (type stand-in): `TypeCheckerState` reduced to the type variables it knows: those registered before (`registered0`,
// never changed by `merge`) plus the ghost history of the variables issued by `allocate_ty_var`.
#[verifier::external_body]
pub struct TypeCheckerState { _p: u8 }
impl TypeCheckerState {
    pub uninterp spec fn registered0(&self, v: TypeVariable) -> bool;
    pub uninterp spec fn issued(&self) -> Seq<TypeVariable>;
    /// the state knows the variable
    pub open spec fn is_var(&self, v: TypeVariable) -> bool { self.registered0(v) || self.issued().contains(v) }
    // A-CALLEE / A-UNSAFE: `unsafe fn allocate_ty_var` ("unsafe" marks an API discipline, no memory unsafety; declared safe here, the
    // call sites keep their `unsafe { }` block) returns a variable the source never issued before (`tyvar_source.fresh()`: an atomic
    // counter) and registers it; it forgets none.
    #[verifier::external_body]
    pub fn allocate_ty_var(&mut self) -> (r: TypeVariable)
        ensures
            !old(self).is_var(r),
            final(self).issued() == old(self).issued().push(r),
            forall|v: TypeVariable| #[trigger] final(self).registered0(v) == old(self).registered0(v),
    { unimplemented!() }
}
/// what `merge` may do to the state: issue exactly the variables `vs`, in order
pub open spec fn issues(s0: TypeCheckerState, s1: TypeCheckerState, vs: Seq<TypeVariable>) -> bool {
    s1.issued() =~= s0.issued() + vs && forall|v: TypeVariable| #[trigger] s1.registered0(v) == s0.registered0(v)
}
pub proof fn lemma_issues(s0: TypeCheckerState, s1: TypeCheckerState, vs: Seq<TypeVariable>)
    requires issues(s0, s1, vs),
    ensures forall|v: TypeVariable| #[trigger] s1.is_var(v) <==> (s0.is_var(v) || vs.contains(v)),       //@ob C14.mp.merge.fresh_variables_all_reported
{
    assert forall|v: TypeVariable| #[trigger] s1.is_var(v) <==> (s0.is_var(v) || vs.contains(v)) by {
        let a = s0.issued();
        if (a + vs).contains(v) { let k = choose|k: int| 0 <= k < (a + vs).len() && (a + vs)[k] == v; if k < a.len() { assert(a[k] == v); } else { assert(vs[k - a.len() as int] == v); } }
        if a.contains(v) { let k = choose|k: int| 0 <= k < a.len() && a[k] == v; assert((a + vs)[k] == v); }
        if vs.contains(v) { let k = choose|k: int| 0 <= k < vs.len() && vs[k] == v; assert((a + vs)[k + a.len() as int] == v); }
    }
}
pub open spec fn fst3(t: (TypeVariable, usize, usize)) -> TypeVariable { t.0 }

// R-OPAQUE stand-in for the arms of `merge` WITHOUT a packed operand (under contract in unit merge): NO postcondition.
#[verifier::external_body]
fn opaque_nonpacked_arm(left: TE, right: TE, parent_tv: TypeVariable, state: &mut TypeCheckerState) -> Merge
{ unimplemented!() }

// R-CALL stand-in for `panic!(..)` with a formatted message: calling it is a violated precondition.
#[verifier::external_body]
fn vx_panic() -> Merge
    requires false,
{ unimplemented!() }

/// number of "delegate to the flipped case" steps still possible: the termination measure of `merge`
pub open spec fn flips(l: TypeExpression, r: TypeExpression) -> nat {
    if (l is Word && (r is Bytes || r is DynamicArray || r is Packed))
        || ((l is DynamicArray || l is Bytes) && r is Packed) { 1 } else { 0 }
}

// ---- (3) Packed x DynamicArray|Bytes -------------------------------------------------------------------------
/// one of the three regions of the word that holds a short string / the length of a long one:
/// bit 0 (the long/short flag), bits 1..8 (rest of the length byte), bits 8..256 (the data)
pub open spec fn str_part(s: Span) -> bool {
    (s.offset == 0 && s.size == 1) || (s.offset == 1 && s.size == 7) || (s.offset == 8 && s.size == 248)
}
/// the spans are a selection of the string-encoding regions, each at most once (in any order)
pub open spec fn string_geometry(t: Seq<Span>) -> bool {
    &&& t.len() <= 3
    &&& forall|i: int| 0 <= i < t.len() ==> str_part(#[trigger] t[i])
    &&& forall|i: int, j: int| 0 <= i < j < t.len() ==> (#[trigger] t[i]).offset != (#[trigger] t[j]).offset
}

// ---- (2) Packed x Word -----------------------------------------------------------------------------------------
/// usages that carry no width of their own and say nothing a packed encoding does not: raw bits, number, unsigned number
pub open spec fn plain_use(u: WordUse) -> bool { u == WordUse::UnsignedNumeric || u == WordUse::Numeric || u == WordUse::Bytes }
/// the spans start at ascending offsets (what every producer of packed encodings emits)
pub open spec fn offsets_ascending(t: Seq<Span>) -> bool { forall|i: int, j: int| 0 <= i < j < t.len() ==> (#[trigger] t[i]).offset <= (#[trigger] t[j]).offset }

// ---- what `process_spans` emits (Packed x Packed) ---------------------------------------------------------------
/// the new spans as (variable, start, end) triples: the gaps between adjacent boundaries
pub open spec fn spans_ctx(spans: Seq<(TypeVariable, usize, usize)>, b: Seq<usize>) -> bool {
    &&& b.len() == spans.len() + 1
    &&& strictly_ascending(b)
    &&& forall|i: int| 0 <= i < spans.len() ==> (#[trigger] spans[i]).1 == b[i] && spans[i].2 == b[i + 1]
}
/// c is the new span t, and t lies inside the operand span sp
pub open spec fn tile_of(c: Span, t: (TypeVariable, usize, usize), sp: Span) -> bool {
    c.typ == t.0 && c.offset == t.1 && s_end(c) == t.2 && sp.offset <= t.1 && t.2 <= s_end(sp)
}
/// z is c moved to the origin of sp
pub open spec fn shifted(z: Span, c: Span, sp: Span) -> bool { z.typ == c.typ && z.offset == c.offset - sp.offset && z.size == c.size }
/// z (relative to the origin of sp) is the i-th new span, and lies inside the width of sp
pub open spec fn tile_at_i(z: Span, sp: Span, res: Seq<(TypeVariable, usize, usize)>, i: int) -> bool {
    0 <= i < res.len() && res[i].0 == z.typ && res[i].1 == z.offset + sp.offset && res[i].2 - res[i].1 == z.size && s_end(z) <= sp.size
}
pub open spec fn tile_at(z: Span, sp: Span, res: Seq<(TypeVariable, usize, usize)>) -> bool { exists|i: int| tile_at_i(z, sp, res, i) }
/// the judgement `tv : packed(ts)` is about an operand span sp (tv is its variable): every sub-span is one of the new spans,
/// positioned relative to sp and inside sp's width (C12: a nested encoding stays inside its parent span)
pub open spec fn jtiles(tv: TypeVariable, ts: Seq<Span>, l: Seq<Span>, r: Seq<Span>, res: Seq<(TypeVariable, usize, usize)>) -> bool {
    exists|sp: Span| (l.contains(sp) || r.contains(sp)) && tv == sp.typ && #[trigger] tiles_exactly(ts, sp) && forall|k: int| 0 <= k < ts.len() ==> tile_at(#[trigger] ts[k], sp, res)
}
/// the sub-spans cover the width of sp exactly: from bit 0 to sp.size without gap or overlap (none at all for an empty sp)
pub open spec fn tiles_exactly(ts: Seq<Span>, sp: Span) -> bool {
    &&& ts.len() == 0 ==> sp.size == 0
    &&& ts.len() > 0 ==> ts[0].offset == 0 && s_end(ts.last()) == sp.size
    &&& contiguous(ts)
}
/// the boundary list holds exactly the span boundaries of the operands
pub open spec fn bounds_in(b: Seq<usize>, l: Seq<Span>, r: Seq<Span>) -> bool {
    forall|x: usize| #[trigger] b.contains(x) <==> (is_bound(l, x as int) || is_bound(r, x as int))
}
/// where an operand span starts and ends in the boundary list
pub proof fn lemma_span_positions(b: Seq<usize>, l: Seq<Span>, r: Seq<Span>, sp: Span) -> (pq: (int, int))
    requires strictly_ascending(b), bounds_in(b, l, r), spans_fit(l), spans_fit(r), l.contains(sp) || r.contains(sp),
    ensures 0 <= pq.0 <= pq.1 < b.len(), b[pq.0] == sp.offset, b[pq.1] == s_end(sp),
{
    if l.contains(sp) { let w = choose|w: int| 0 <= w < l.len() && l[w] == sp; assert(is_bound(l, l[w].offset as int) && is_bound(l, s_end(l[w]))); assert(s_end(l[w]) <= usize::MAX); }
    else { let w = choose|w: int| 0 <= w < r.len() && r[w] == sp; assert(is_bound(r, r[w].offset as int) && is_bound(r, s_end(r[w]))); assert(s_end(r[w]) <= usize::MAX); }
    let e = s_end(sp) as usize;
    assert(b.contains(sp.offset));
    assert(b.contains(e));
    let p = choose|p: int| 0 <= p < b.len() && b[p] == sp.offset;
    let q = choose|q: int| 0 <= q < b.len() && b[q] == e;
    if q < p { assert(b[q] < b[p]); }
    (p, q)
}
pub open spec fn judgement_ok(j: Judgement, l: Seq<Span>, r: Seq<Span>, res: Seq<(TypeVariable, usize, usize)>) -> bool {
    j.expr is Packed && !j.expr->is_struct && jtiles(j.tv, j.expr->types@, l, r, res)
}
/// the equality relates an operand span's variable to the variable of THE new span with the same extent (the span was not split)
pub open spec fn equality_ok(e: Equality, l: Seq<Span>, r: Seq<Span>, res: Seq<(TypeVariable, usize, usize)>) -> bool {
    exists|sp: Span, i: int| (l.contains(sp) || r.contains(sp)) && e.left == sp.typ && 0 <= i < res.len() && e.right == (#[trigger] res[i]).0
        && sp.offset == res[i].1 && res[i].2 == #[trigger] s_end(sp)
}
pub open spec fn emitted_ok(js: Seq<Judgement>, es: Seq<Equality>, l: Seq<Span>, r: Seq<Span>, res: Seq<(TypeVariable, usize, usize)>) -> bool {
    &&& forall|k: int| 0 <= k < js.len() ==> judgement_ok(#[trigger] js[k], l, r, res)
    &&& forall|k: int| 0 <= k < es.len() ==> equality_ok(#[trigger] es[k], l, r, res)
}
/// a packed encoding's spans as (variable, start, end) triples
pub open spec fn triples(t: Seq<Span>) -> Seq<(TypeVariable, usize, usize)> { t.map_values(|x: Span| (x.typ, x.offset, (x.offset + x.size) as usize)) }

/// the boundaries of the spans, in span order: start, end, start, end, ...
pub open spec fn bounds(s: Seq<Span>) -> Seq<usize>
    decreases s.len(),
{
    if s.len() == 0 { Seq::empty() } else { bounds(s.drop_last()) + seq![s.last().offset, (s.last().offset + s.last().size) as usize] }
}
pub proof fn lemma_bounds_contains(s: Seq<Span>, x: usize)
    requires spans_fit(s),
    ensures bounds(s).contains(x) <==> is_bound(s, x as int),
    decreases s.len(),
{
    if s.len() > 0 {
        let s0 = s.drop_last();
        let t = seq![s.last().offset, (s.last().offset + s.last().size) as usize];
        lemma_bounds_contains(s0, x);
        assert(s_end(s[s.len() - 1]) <= usize::MAX);
        if bounds(s).contains(x) {
            let i = choose|i: int| 0 <= i < bounds(s).len() && bounds(s)[i] == x;
            if i < bounds(s0).len() {
                assert(bounds(s0)[i] == x);
                assert(bounds(s0).contains(x));
                let k = choose|k: int| 0 <= k < s0.len() && ((#[trigger] s0[k]).offset == x as int || s_end(s0[k]) == x as int);
                assert(s[k] == s0[k]);
            } else {
                assert(t[i - bounds(s0).len() as int] == x);
                assert(s[s.len() - 1].offset == x as int || s_end(s[s.len() - 1]) == x as int);
            }
        }
        if is_bound(s, x as int) {
            let k = choose|k: int| 0 <= k < s.len() && ((#[trigger] s[k]).offset == x as int || s_end(s[k]) == x as int);
            if k < s0.len() {
                assert(s0[k] == s[k]);
                assert(is_bound(s0, x as int));
                let i = choose|i: int| 0 <= i < bounds(s0).len() && bounds(s0)[i] == x;
                assert(bounds(s)[i] == x);
            } else {
                if s[k].offset == x as int { assert(bounds(s)[bounds(s0).len() as int] == t[0]); } else { assert(bounds(s)[bounds(s0).len() as int + 1] == t[1]); }
            }
        }
    }
}
/// the sorted, de-duplicated chain of the two boundary lists is THE ascending boundary list
pub proof fn lemma_boundary_list(l: Seq<Span>, r: Seq<Span>, u: Seq<usize>, b: Seq<usize>)
    requires
        spans_fit(l), spans_fit(r), l.len() > 0,
        u.no_duplicates(),                                                                                     //@ob C01.mp.packed_packed.boundaries_deduplicated C12.mp.packed_packed.boundaries_deduplicated
        forall|x: usize| #[trigger] u.contains(x) <==> (bounds(l) + bounds(r)).contains(x),                    //@ob C12.mp.packed_packed.boundaries_of_both_operands
        is_perm_of(b, u),                                                                                      //@ob C12.mp.packed_packed.boundaries_of_both_operands
        forall|i: int, j: int| 0 <= i < j < b.len() ==> #[trigger] b[i] <= #[trigger] b[j],                    //@ob C01.mp.packed_packed.boundaries_sorted C12.mp.packed_packed.boundaries_sorted
    ensures
        b.len() >= 1, strictly_ascending(b),
        forall|x: usize| #[trigger] b.contains(x) <==> (is_bound(l, x as int) || is_bound(r, x as int)),
{
    lemma_perm_props(b, u);
    assert forall|x: usize| #[trigger] b.contains(x) <==> (is_bound(l, x as int) || is_bound(r, x as int)) by {
        lemma_bounds_contains(l, x);
        lemma_bounds_contains(r, x);
        let c = bounds(l) + bounds(r);
        assert(u.contains(x) <==> c.contains(x));
        if c.contains(x) {
            let i = choose|i: int| 0 <= i < c.len() && c[i] == x;
            if i < bounds(l).len() { assert(bounds(l)[i] == x); } else { assert(bounds(r)[i - bounds(l).len() as int] == x); }
        }
        if bounds(l).contains(x) { let i = choose|i: int| 0 <= i < bounds(l).len() && bounds(l)[i] == x; assert(c[i] == x); }
        if bounds(r).contains(x) { let i = choose|i: int| 0 <= i < bounds(r).len() && bounds(r)[i] == x; assert(c[i + bounds(l).len() as int] == x); }
    }
    assert(is_bound(l, l[0].offset as int));
    assert(b.contains(l[0].offset));
}

//@extract file=src/tc/unification.rs path="fn merge" props=C12,C15,C14,C16,C01
//@ret m
//@rw R-CALL
// ---- rewrites ---------------------------------------------------------------------------------------------------------------
// R-CALL: `panic!(..)` with a formatted message -> stand-in with `requires false` (as in unit merge)
//@old
panic!(
    "Equalities should not exist when unifying, but found: {:?}",
    left.clone()
)
//@new
vx_panic()
//@rw R-CALL
//@old
panic!(
    "Equalities should not exist when unifying, but found: {:?}",
    right.clone()
)
//@new
vx_panic()
//@rw R-OPAQUE optional
// R-OPAQUE (optional): the bodies of the arms that cannot see a packed operand are blanked (NO postcondition); patterns and
// guards stay verbatim.  An arm whose text was edited is simply not blanked and goes to the verifier as it is.
//@old
(
            TE::Word {
                width: width_l,
                usage: usage_l,
            },
            TE::Word {
                width: width_r,
                usage: usage_r,
            },
        ) => { $1 }

        // To combine bytes with words we delegate
        (TE::Word { .. }, TE::Bytes) =>
//@new
(
            TE::Word {
                width: width_l,
                usage: usage_l,
            },
            TE::Word {
                width: width_r,
                usage: usage_r,
            },
        ) => opaque_nonpacked_arm(left, right, parent_tv, state),

        // To combine bytes with words we delegate
        (TE::Word { .. }, TE::Bytes) =>
//@rw R-OPAQUE optional
//@old
(TE::Bytes, TE::Word { usage, .. }) if !usage.is_definitely_signed() => { $1 }

        // Bytes are just a kind of dynamic array
//@new
(TE::Bytes, TE::Word { usage, .. }) if !usage.is_definitely_signed() => opaque_nonpacked_arm(left, right, parent_tv, state),

        // Bytes are just a kind of dynamic array
//@rw R-OPAQUE optional
//@old
(TE::DynamicArray { .. }, TE::Bytes) | (TE::Bytes, TE::DynamicArray { .. }) => { $1 }

        // To combine a dynamic array with a packed we delegate
//@new
(TE::DynamicArray { .. }, TE::Bytes) | (TE::Bytes, TE::DynamicArray { .. }) => opaque_nonpacked_arm(left, right, parent_tv, state),

        // To combine a dynamic array with a packed we delegate
//@rw R-OPAQUE optional
//@old
(TE::DynamicArray { .. }, TE::Word { usage, .. }) => { $1 }

        // Dynamic arrays can combine with dynamic arrays
//@new
(TE::DynamicArray { .. }, TE::Word { usage, .. }) => opaque_nonpacked_arm(left, right, parent_tv, state),

        // Dynamic arrays can combine with dynamic arrays
//@rw R-OPAQUE optional
//@old
(TE::DynamicArray { element: element_l }, TE::DynamicArray { element: element_r }) => { $1 }

        // Fixed arrays can combine with fixed arrays
//@new
(TE::DynamicArray { element: element_l }, TE::DynamicArray { element: element_r }) => opaque_nonpacked_arm(left, right, parent_tv, state),

        // Fixed arrays can combine with fixed arrays
//@rw R-OPAQUE optional
//@old
(
            TE::FixedArray {
                element: element_l,
                length: length_l,
            },
            TE::FixedArray {
                element: element_r,
                length: length_r,
            },
        ) => { $1 }

        // Mappings can combine with mappings
//@new
(
            TE::FixedArray {
                element: element_l,
                length: length_l,
            },
            TE::FixedArray {
                element: element_r,
                length: length_r,
            },
        ) => opaque_nonpacked_arm(left, right, parent_tv, state),

        // Mappings can combine with mappings
//@rw R-OPAQUE optional
//@old
(
            TE::Mapping {
                key: key_l,
                value: value_l,
            },
            TE::Mapping {
                key: key_r,
                value: value_r,
            },
        ) => { $1 }

        // Packed encodings can combine with packed encodings
//@new
(
            TE::Mapping {
                key: key_l,
                value: value_l,
            },
            TE::Mapping {
                key: key_r,
                value: value_r,
            },
        ) => opaque_nonpacked_arm(left, right, parent_tv, state),

        // Packed encodings can combine with packed encodings
//@rw R-SIG count=2
// ---- (3) Packed x DynamicArray|Bytes ----
// R-CALL `types.iter()` -> A-STD stand-in `vx_iter(types)`; R-SIG: the key closure gets its type and the postcondition "the key is
// the span's offset" (its BODY is carried over verbatim: the wildcard); `sorted_by_key` / `collect_vec` are methods of the stand-in.
//@old
let types = types.iter().sorted_by_key(|s| $1).collect_vec();
//@new
let ghost vx_p = types@;
                let vx_it0 = vx_iter(types);
                let ghost vx_q = vx_it0.seq();
                let types = vx_it0.sorted_by_key(|s: &&Span| -> (vx_key: usize)
                    ensures vx_key == s.offset        //@ob C15.mp.packed_bytes.sorted_by_offset
                    { $1 }).collect_vec();
                proof {
                    broadcast use ord_le_usize;
                    lemma_perm_small(types@, vx_q);
                    assert(forall|i: int, j: int| 0 <= i < j < types@.len() ==> types@[i].offset <= types@[j].offset);
                }
//@rw R-FOREACH
// ---- (1) Packed x Packed ----
// R-FOREACH: `xs.iter().flat_map(|span| BODY)` -> a loop appending BODY (carried over verbatim: `span.offset + span.size` stays in
// front of the verifier) for every element in order; the result is handed on as an iterator (vx_from_vec)
//@old
let boundaries_l = types_l
                .iter()
                .flat_map(|span| $1);
//@new
let mut vx_acc_l: Vec<usize> = Vec::new();
            let mut vx_kl: usize = 0;
            while vx_kl < types_l.len()
                invariant
                    vx_kl <= types_l.len(),
                    spans_fit(types_l@),
                    vx_acc_l@ == bounds(types_l@.take(vx_kl as int)),             //@ob C12.mp.packed_packed.boundaries_are_span_starts_and_ends
                decreases types_l.len() - vx_kl,
            {
                let span = &types_l[vx_kl];
                vx_kl += 1;
                let mut vx_v: Vec<usize> = $1;
                vx_acc_l.append(&mut vx_v);
                proof { assert(types_l@.take(vx_kl as int).drop_last() =~= types_l@.take(vx_kl - 1)); }
            }
            proof { assert(types_l@.take(vx_kl as int) =~= types_l@); }
            let boundaries_l = vx_from_vec(vx_acc_l);
            let ghost vx_bl = boundaries_l.seq();
//@rw R-FOREACH
//@old
let boundaries_r = types_r
                .iter()
                .flat_map(|span| $1);
//@new
let mut vx_acc_r: Vec<usize> = Vec::new();
            let mut vx_kr: usize = 0;
            while vx_kr < types_r.len()
                invariant
                    vx_kr <= types_r.len(),
                    spans_fit(types_r@),
                    vx_acc_r@ == bounds(types_r@.take(vx_kr as int)),             //@ob C12.mp.packed_packed.boundaries_are_span_starts_and_ends
                decreases types_r.len() - vx_kr,
            {
                let span = &types_r[vx_kr];
                vx_kr += 1;
                let mut vx_v: Vec<usize> = $1;
                vx_acc_r.append(&mut vx_v);
                proof { assert(types_r@.take(vx_kr as int).drop_last() =~= types_r@.take(vx_kr - 1)); }
            }
            proof { assert(types_r@.take(vx_kr as int) =~= types_r@); }
            let boundaries_r = vx_from_vec(vx_acc_r);
            let ghost vx_br = boundaries_r.seq();
//@rw R-FOREACH
// R-FOREACH: `for x in v.into_iter().skip(N)` -> by-value loop over the A-STD stand-in vx_skip(v, N) (N carried over verbatim)
//@old
for end in boundaries.into_iter().skip($1) {
//@new
let ghost vx_b = boundaries@;
            let vx_rest = vx_skip(boundaries, $1);
            for end in vx_it: vx_rest
                invariant
                    vx_it.seq() == vx_b.skip(1),                                                                   //@ob C12.mp.packed_packed.one_span_per_adjacent_pair_of_boundaries
                    spans@.len() == vx_it.index@,
                    vx_b.len() >= 1,
                    start == vx_b[vx_it.index@ as int],                                                            //@ob C12.mp.packed_packed.spans_between_adjacent_boundaries
                    forall|i: int| 0 <= i < spans@.len() ==> (#[trigger] spans@[i]).1 == vx_b[i] && spans@[i].2 == vx_b[i + 1],      //@ob C12.mp.packed_packed.spans_between_adjacent_boundaries
                    forall|i: int| 0 <= i < spans@.len() ==> !vx_s0.is_var((#[trigger] spans@[i]).0),               //@ob C14.mp.packed_packed.span_variables_fresh
                    forall|i: int, j: int| 0 <= i < j < spans@.len() ==> (#[trigger] spans@[i]).0 != (#[trigger] spans@[j]).0,       //@ob C14.mp.packed_packed.span_variables_distinct
                    issues(vx_s0, *state, spans@.map_values(|t: (TypeVariable, usize, usize)| fst3(t))),              //@ob C14.mp.packed_packed.fresh_variables_all_recorded
            {
                proof {
                    assert(vx_b.skip(1)[vx_it.index@ as int] == end);
                    let vx_vs = spans@.map_values(|t: (TypeVariable, usize, usize)| fst3(t));
                    lemma_issues(vx_s0, *state, vx_vs);
                    assert forall|i: int| 0 <= i < spans@.len() implies state.is_var((#[trigger] spans@[i]).0) by { assert(vx_vs[i] == spans@[i].0); }
                }
//@rw R-FOREACH
// R-FOREACH: `spans.iter().map(|(ty, ..)| BODY).copied().collect_vec()` -> a loop pushing a copy of BODY (carried over verbatim)
//@old
let new_ty_vars = spans.iter().map(|(ty, ..)| $1).copied().collect_vec();
//@new
let mut new_ty_vars: Vec<TypeVariable> = Vec::new();
            let mut vx_k2: usize = 0;
            while vx_k2 < spans.len()
                invariant
                    vx_k2 <= spans.len(),
                    new_ty_vars@.len() == vx_k2,
                    forall|i: int| 0 <= i < vx_k2 ==> #[trigger] new_ty_vars@[i] == spans@[i].0,           //@ob C14.mp.packed_packed.fresh_variables_all_reported
                decreases spans.len() - vx_k2,
            {
                let (ty, ..) = &spans[vx_k2];
                vx_k2 += 1;
                let vx_r: &TypeVariable = $1;
                new_ty_vars.push(*vx_r);
            }
//@rw R-FOREACH
// R-FOREACH: a closure defined once and applied to two arguments in a row -> a two-round loop whose body is the closure's body
// (carried over verbatim: $1) with the parameter bound to the first, then the second argument (carried over verbatim: $2, $3).
// (Verus has no closures that capture `&mut` variables.)
//@old
let mut process_spans = |input: &Vec<Span>| { $1 };

            process_spans($2);
            process_spans($3);
//@new
let mut vx_n: usize = 0;
            while vx_n < 2
                invariant
                    vx_n <= 2,
                    spans_ctx(spans@, vx_b), spans_fit(types_l@), spans_fit(types_r@), bounds_in(vx_b, types_l@, types_r@),
                    emitted_ok(inferences@, equalities@, types_l@, types_r@, spans@),       //@ob C14.mp.packed_packed.operand_spans_related_to_their_tiles C12.mp.packed_packed.sub_spans_inside_their_parent_span
                    equalities@.len() + inferences@.len() == (if vx_n == 0 { 0 } else if vx_n == 1 { types_l@.len() } else { types_l@.len() + types_r@.len() }),       //@ob C14.mp.packed_packed.one_item_per_operand_span
                decreases 2 - vx_n,
            {
                let input: &Vec<Span> = if vx_n == 0 { $2 } else { $3 };
                vx_n += 1;
                $1
            }
//@rw R-FOREACH
// R-FOREACH: `for x in xs.iter().sorted_by_key(KEY)` -> index loop over the collected A-STD stand-in (the key closure is carried over
// verbatim; the ORDER of the visits is not under contract, only that every element is visited: the sort returns a rearrangement)
//@old
for span in input.iter().sorted_by_key(|s| $1) {
//@new
let vx_in0 = vx_iter(input);
                let ghost vx_inq = vx_in0.seq();
                let vx_sorted = vx_in0.sorted_by_key(|s: &&Span| $1).collect_vec();
                proof {
                    lemma_perm_props(vx_sorted@, vx_inq);
                    assert forall|k: int| 0 <= k < vx_sorted@.len() implies input@.contains(*#[trigger] vx_sorted@[k]) by {
                        assert(vx_sorted@.contains(vx_sorted@[k]));
                        let j = choose|j: int| 0 <= j < vx_inq.len() && vx_inq[j] == vx_sorted@[k];
                        assert(*vx_inq[j] == input@[j]);
                    }
                }
                let mut vx_m: usize = 0;
                let ghost vx_base = equalities@.len() + inferences@.len();
                while vx_m < vx_sorted.len()
                    invariant
                        vx_m <= vx_sorted.len(), vx_sorted@.len() == input@.len(),
                        equalities@.len() + inferences@.len() == vx_base + vx_m,       //@ob C14.mp.packed_packed.one_item_per_operand_span
                        spans_ctx(spans@, vx_b), spans_fit(types_l@), spans_fit(types_r@), bounds_in(vx_b, types_l@, types_r@),
                        input@ == types_l@ || input@ == types_r@,
                        forall|k: int| 0 <= k < vx_sorted@.len() ==> input@.contains(*#[trigger] vx_sorted@[k]),
                        emitted_ok(inferences@, equalities@, types_l@, types_r@, spans@),       //@ob C14.mp.packed_packed.operand_spans_related_to_their_tiles C12.mp.packed_packed.sub_spans_inside_their_parent_span
                    decreases vx_sorted.len() - vx_m,
                {
                    let span = vx_sorted[vx_m];
                    vx_m += 1;
                    proof {
                        assert(input@.contains(*vx_sorted@[vx_m - 1]));
                        let vx_w = choose|w: int| 0 <= w < input@.len() && input@[w] == *span;
                        assert(s_end(input@[vx_w]) <= usize::MAX);
                    }
                    let ghost vx_pq = lemma_span_positions(vx_b, types_l@, types_r@, *span);
                    let ghost vx_p = vx_pq.0;
                    let ghost vx_q = vx_pq.1;
//@rw R-FOREACH
// R-FOREACH: `xs.iter().skip_while(P).take_while(Q).map(F).collect_vec()` -> a loop that passes over the leading elements satisfying P,
// then a loop that pushes F(x) while Q(x) holds; P, Q, F are the closures' bodies carried over verbatim ($1, $2, $3), the closure
// parameter patterns become `let` patterns on a reference to the element (Verus rejects tuple patterns and `_` as closure parameters)
//@old
let corresponding_new_spans = spans
                        .iter()
                        .skip_while(|(_, start, _)| $1)
                        .take_while(|(_, _, end)| $2)
                        .map(|(ty, start, end)| $3)
                        .collect_vec();
//@new
let mut corresponding_new_spans: Vec<Span> = Vec::new();
                    let mut vx_j: usize = 0;
                    while vx_j < spans.len()
                        invariant
                            vx_j <= spans.len(), vx_j <= vx_p,                       //@ob C12.mp.packed_packed.tiles_start_at_the_span_start
                            spans_ctx(spans@, vx_b), 0 <= vx_p < vx_b.len(), vx_b[vx_p] == span.offset,
                        ensures
                            vx_j == vx_p,                       //@ob C12.mp.packed_packed.tiles_start_at_the_span_start
                        decreases spans.len() - vx_j,
                    {
                        let (_, start, _) = &spans[vx_j];
                        proof { if vx_p < vx_j { assert(vx_b[vx_p] < vx_b[vx_j as int]); } if vx_j < vx_p { assert(vx_b[vx_j as int] < vx_b[vx_p]); } }
                        if !($1) { break; }
                        vx_j += 1;
                    }
                    let ghost vx_j0 = vx_j as int;
                    while vx_j < spans.len()
                        invariant
                            0 <= vx_j0 <= vx_j <= spans.len(), vx_j0 == vx_p, vx_j <= vx_q,                       //@ob C12.mp.packed_packed.tiles_end_at_the_span_end
                            spans_ctx(spans@, vx_b), s_end(*span) <= usize::MAX,
                            0 <= vx_p <= vx_q < vx_b.len(), vx_b[vx_p] == span.offset, vx_b[vx_q] == s_end(*span),
                            corresponding_new_spans@.len() == vx_j - vx_j0,
                            forall|k: int| 0 <= k < corresponding_new_spans@.len() ==> tile_of(#[trigger] corresponding_new_spans@[k], spans@[vx_j0 + k], *span),       //@ob C12.mp.packed_packed.sub_spans_inside_their_parent_span
                        ensures
                            vx_j == vx_q,                       //@ob C12.mp.packed_packed.tiles_end_at_the_span_end
                        decreases spans.len() - vx_j,
                    {
                        let (_, _, end) = &spans[vx_j];
                        proof { if vx_q < vx_j + 1 { assert(vx_b[vx_q] < vx_b[vx_j + 1]); } if vx_j + 1 < vx_q { assert(vx_b[vx_j + 1] < vx_b[vx_q]); } }
                        if !($2) { break; }
                        let (ty, start, end) = &spans[vx_j];
                        proof { assert(vx_b[vx_j as int] < vx_b[vx_j + 1]); if vx_p < vx_j { assert(vx_b[vx_p] < vx_b[vx_j as int]); } }
                        corresponding_new_spans.push($3);
                        vx_j += 1;
                    }
                    proof {
                        if corresponding_new_spans@.len() == 1 {
                            assert(tile_of(corresponding_new_spans@[0], spans@[vx_j0], *span));
                            assert(equality_ok(Equality { left: span.typ, right: corresponding_new_spans@[0].typ }, types_l@, types_r@, spans@));
                        }
                    }
//@rw R-FOREACH
// R-FOREACH: `xs.into_iter().map(|Span { typ, offset, size }| BODY).collect_vec()` -> by-value loop pushing BODY (carried over verbatim:
// `offset - span.offset` stays in front of the verifier); the closure's parameter pattern becomes a `let` pattern
//@old
let spans_at_zero = corresponding_new_spans
                            .into_iter()
                            .map(|Span { typ, offset, size }| { $1 })
                            .collect_vec();
//@new
let ghost vx_c = corresponding_new_spans@;
                        let mut spans_at_zero: Vec<Span> = Vec::new();
                        for vx_s in vx_ct: corresponding_new_spans
                            invariant
                                vx_ct.seq() == vx_c, 0 <= vx_j0, vx_j0 + vx_c.len() <= spans@.len(),
                                vx_j0 == vx_p, vx_c.len() == vx_q - vx_p, spans_ctx(spans@, vx_b), 0 <= vx_p <= vx_q < vx_b.len(), vx_b[vx_p] == span.offset, vx_b[vx_q] == s_end(*span),
                                spans_at_zero@.len() == vx_ct.index@,
                                forall|k: int| 0 <= k < vx_c.len() ==> tile_of(#[trigger] vx_c[k], spans@[vx_j0 + k], *span),
                                forall|k: int| 0 <= k < spans_at_zero@.len() ==> shifted(#[trigger] spans_at_zero@[k], vx_c[k], *span),       //@ob C12.mp.packed_packed.sub_spans_inside_their_parent_span
                        {
                            proof { assert(vx_c[vx_ct.index@ as int] == vx_s); }
                            let Span { typ, offset, size } = vx_s;
                            spans_at_zero.push({ $1 });
                        }
                        proof {
                            assert forall|k: int| 0 <= k < spans_at_zero@.len() implies tile_at(#[trigger] spans_at_zero@[k], *span, spans@) by {
                                assert(shifted(spans_at_zero@[k], vx_c[k], *span) && tile_of(vx_c[k], spans@[vx_j0 + k], *span));
                                assert(tile_at_i(spans_at_zero@[k], *span, spans@, vx_j0 + k));
                            }
                            assert(tiles_exactly(spans_at_zero@, *span)) by {
                                let z = spans_at_zero@;
                                assert forall|k: int| 0 <= k < z.len() implies #[trigger] z[k].offset == vx_b[vx_p + k] - vx_b[vx_p] && s_end(z[k]) == vx_b[vx_p + k + 1] - vx_b[vx_p] by {
                                    assert(shifted(z[k], vx_c[k], *span) && tile_of(vx_c[k], spans@[vx_j0 + k], *span));
                                }
                                if z.len() > 0 { assert(z[0].offset == 0); assert(s_end(z[z.len() - 1]) == span.size); }
                                assert forall|k: int| 0 <= k < z.len() - 1 implies s_end(#[trigger] z[k]) == z[k + 1].offset by { assert(z[k + 1].offset == vx_b[vx_p + k + 1] - vx_b[vx_p]); }
                            }
                            assert(jtiles(span.typ, spans_at_zero@, types_l@, types_r@, spans@));
                        }
//@rw R-FOREACH
// R-FOREACH: `spans.iter().map(|(ty, start, end)| BODY).collect_vec()` -> a loop pushing BODY (carried over verbatim: `*end - *start`
// stays in front of the verifier)
//@old
let all_new_spans = spans
                .iter()
                .map(|(ty, start, end)| $1)
                .collect_vec();
//@new
let mut all_new_spans: Vec<Span> = Vec::new();
            let mut vx_k3: usize = 0;
            proof { assert forall|i: int| 0 <= i < spans@.len() implies (#[trigger] spans@[i]).1 <= spans@[i].2 by { assert(vx_b[i] < vx_b[i + 1]); } }
            while vx_k3 < spans.len()
                invariant
                    vx_k3 <= spans.len(),
                    all_new_spans@.len() == vx_k3,
                    forall|i: int| 0 <= i < spans@.len() ==> (#[trigger] spans@[i]).1 <= spans@[i].2,
                    forall|i: int| 0 <= i < vx_k3 ==> (#[trigger] all_new_spans@[i]).typ == spans@[i].0
                        && all_new_spans@[i].offset == spans@[i].1 && s_end(all_new_spans@[i]) == spans@[i].2,        //@ob C12.mp.packed_packed.spans_between_adjacent_boundaries
                decreases spans.len() - vx_k3,
            {
                let (ty, start, end) = &spans[vx_k3];
                vx_k3 += 1;
                all_new_spans.push($1);
            }
            let ghost vx_res = all_new_spans@;
//@proof entry
    let ghost vx_s0 = *state;
//@proof before "let mut spans:"
            proof {
                broadcast use ord_le_usize;
                // the list is a rearrangement (the sort) of a duplicate-free list (unique) of the boundaries of BOTH operands (chain)
                assert(exists|u: Seq<usize>| #[trigger] is_perm_of(boundaries@, u));                                //@ob C01.mp.packed_packed.boundaries_sorted C12.mp.packed_packed.boundaries_sorted
                assert(exists|u: Seq<usize>| #[trigger] is_perm_of(boundaries@, u) && u.no_duplicates());         //@ob C01.mp.packed_packed.boundaries_deduplicated C12.mp.packed_packed.boundaries_deduplicated
                assert(exists|u: Seq<usize>| #[trigger] is_perm_of(boundaries@, u) && u.no_duplicates()
                    && forall|x: usize| #[trigger] u.contains(x) <==> (vx_bl + vx_br).contains(x));               //@ob C12.mp.packed_packed.boundaries_of_both_operands
                let vx_u = choose|u: Seq<usize>| #[trigger] is_perm_of(boundaries@, u) && u.no_duplicates()
                    && forall|x: usize| #[trigger] u.contains(x) <==> (vx_bl + vx_br).contains(x);
                lemma_boundary_list(types_l@, types_r@, vx_u, boundaries@);
            }
//@proof before "let output_expr = TE::Packed {"
            proof {
                assert(partition_on(vx_b, types_l@, types_r@, vx_res));
                assert(new_ty_vars@ =~= spans@.map_values(|t: (TypeVariable, usize, usize)| fst3(t)));
                assert(new_ty_vars@ =~= vx_res.map_values(|s: Span| s.typ));
                lemma_issues(vx_s0, *state, new_ty_vars@);
                assert(triples(vx_res) =~= spans@);
            }
//@spec
    requires
        // C14: equalities are turned into unions before any merge; an `Equal` operand is a bug (the code panics)
        !(left is Equal), !(right is Equal),                                                                       //@ob C14.mp.merge.no_equal_operand
        // C01: two packed encodings are re-partitioned through `span.offset + span.size`
        left is Packed && right is Packed ==> spans_fit(left->types@) && spans_fit(right->types@),                 //@ob C01.mp.merge.span_ends_representable
    ensures
        // ---- every pair with a packed side ----
        has_packed(left, right) && (left is Conflict || right is Conflict) ==> m.expression is Conflict && no_side_output(m),           //@ob C15.mp.merge.conflict_absorbs
        has_packed(left, right) && oside(left, right) is Any
            ==> m.expression == pside(left, right) && no_side_output(m),                                          //@ob C15.mp.merge.any_identity
        has_packed(left, right) && (oside(left, right) is Mapping || oside(left, right) is FixedArray)
            ==> m.expression is Conflict && no_side_output(m),                                                     //@ob C15.mp.merge.packed_vs_mapping_or_fixed_array
        has_packed(left, right) && left == right ==> m.expression == left && no_side_output(m),                    //@ob C15.mp.merge.idempotent
        has_packed(left, right) ==> !(m.expression is Equal),                                                      //@ob C14.mp.merge.never_equal
        has_packed(left, right) ==> forall|k: int| 0 <= k < m.judgements@.len() ==> !((#[trigger] m.judgements@[k]).expr is Equal),     //@ob C14.mp.merge.no_equal_judgement
        // C14 (what unit unify assumes of its callee): the only thing merge does to the state is to issue the variables it reports
        has_packed(left, right) ==> issues(*old(state), *final(state), m.ty_vars@),                                //@ob C14.mp.merge.fresh_variables_all_reported
        has_packed(left, right) ==> forall|k: int| 0 <= k < m.ty_vars@.len() ==> !old(state).is_var(#[trigger] m.ty_vars@[k]),        //@ob C14.mp.merge.reported_variables_are_fresh
        // ---- (1) Packed x Packed ----
        pp_case(left, right) && left->types@.len() == 0
            ==> is_packed_of(m.expression, right->types@, pp_struct(left, right)) && no_side_output(m),           //@ob C15.mp.packed_packed.empty_side_is_no_evidence
        pp_case(left, right) && right->types@.len() == 0
            ==> is_packed_of(m.expression, left->types@, pp_struct(left, right)) && no_side_output(m),            //@ob C15.mp.packed_packed.empty_side_is_no_evidence
        pp_full(left, right) ==> m.expression is Packed && m.expression->is_struct == pp_struct(left, right),      //@ob C15.mp.packed_packed.struct_flag_kept
        pp_full(left, right) ==> repartitioned(left->types@, right->types@, m.expression->types@),                //@ob C12.mp.packed_packed.repartitioned_on_the_operands_boundaries
        pp_full(left, right) ==> m.ty_vars@ =~= m.expression->types@.map_values(|s: Span| s.typ)
            && m.ty_vars@.no_duplicates(),                                                                         //@ob C14.mp.packed_packed.one_fresh_variable_per_span
        pp_full(left, right) ==> emitted_ok(m.judgements@, m.equalities@, left->types@, right->types@, triples(m.expression->types@)),      //@ob C14.mp.packed_packed.operand_spans_related_to_their_tiles C12.mp.packed_packed.sub_spans_inside_their_parent_span
        pp_full(left, right) ==> m.equalities@.len() + m.judgements@.len() == left->types@.len() + right->types@.len(),       //@ob C14.mp.packed_packed.one_item_per_operand_span
        // ---- (3) Packed x DynamicArray|Bytes ----
        pb_case(left, right) ==> no_side_output(m) && (m.expression is Bytes || m.expression is Conflict),         //@ob C15.mp.packed_bytes.bytes_or_conflict
        pb_case(left, right) && string_geometry(pside(left, right)->types@) ==> m.expression is Bytes,             //@ob C15.mp.packed_bytes.string_encoding_is_dynamic_bytes
        pb_case(left, right) && !string_geometry(pside(left, right)->types@) ==> m.expression is Conflict,         //@ob C15.mp.packed_bytes.only_for_string_encoding_geometry
        // ---- (2) Packed x Word ----
        pw_case(left, right) && pw_p(left, right).len() == 0
            ==> m.expression == oside(left, right) && no_side_output(m),                                          //@ob C15.mp.packed_word.empty_packed_is_no_evidence
        pw_case(left, right) && pw_p(left, right).len() > 0 && plain_use(pw_u(left, right)) && (pw_w(left, right) is None || pw_w(left, right) == Some(256usize))
            ==> m.expression == pside(left, right) && no_side_output(m),                                          //@ob C15.mp.packed_word.full_or_unknown_width_keeps_the_packed
        pw_case(left, right) && pw_p(left, right).len() > 0 && plain_use(pw_u(left, right)) && pw_w(left, right) is Some && pw_w(left, right) != Some(256usize)
            ==> m.expression == pside(left, right) && m.equalities@.len() == 0 && m.ty_vars@.len() == 1 && m.judgements@.len() == 1
                && m.judgements@[0].tv == parent_tv
                && is_packed_of(m.judgements@[0].expr, seq![Span { typ: m.ty_vars@[0], offset: 0, size: pw_w(left, right)->0 }], false),      //@ob C15.mp.packed_word.narrow_word_becomes_a_span_of_the_parent
        pw_case(left, right) && pw_p(left, right).len() > 0 && !plain_use(pw_u(left, right)) && pw_w(left, right) is None
            ==> m.expression is Conflict && no_side_output(m),                                                     //@ob C15.mp.packed_word.special_usage_without_width_conflicts
        // the code consults the FIRST span in vector order (exact); known finding D13 is this clause: the word is handed down to the
        // span's variable as a judgement while the packed encoding stays — `unify` re-emits it every round
        pw_case(left, right) && pw_p(left, right).len() > 0 && !plain_use(pw_u(left, right)) && pw_w(left, right) is Some
            && first_span_rule(pw_p(left, right), pw_w(left, right)->0)
            ==> m.expression == pside(left, right) && m.equalities@.len() == 0 && m.ty_vars@.len() == 0 && m.judgements@.len() == 1
                && m.judgements@[0].tv == pw_p(left, right)[0].typ && m.judgements@[0].expr == oside(left, right),     //@ob C15.mp.packed_word.sized_special_word_goes_to_the_first_span.exact C14.mp.packed_word.d13_word_re_emitted_on_first_span
        pw_case(left, right) && pw_p(left, right).len() > 0 && !plain_use(pw_u(left, right)) && pw_w(left, right) is Some
            && !first_span_rule(pw_p(left, right), pw_w(left, right)->0)
            ==> m.expression is Conflict && no_side_output(m),                                                     //@ob C15.mp.packed_word.sized_special_word_goes_to_the_first_span.exact
    decreases flips(left, right),
//@end

/// two packed operands that are not the same encoding (equal operands are returned as they are)
pub open spec fn pp_case(l: TypeExpression, r: TypeExpression) -> bool { l is Packed && r is Packed && abs(l) != abs(r) }
pub open spec fn pp_full(l: TypeExpression, r: TypeExpression) -> bool { pp_case(l, r) && l->types@.len() > 0 && r->types@.len() > 0 }
/// struct-ness is kept: the result is a struct when either operand is
pub open spec fn pp_struct(l: TypeExpression, r: TypeExpression) -> bool { l->is_struct || r->is_struct }
/// a packed encoding against dynamic bytes / a dynamic array, in either order
pub open spec fn pb_case(l: TypeExpression, r: TypeExpression) -> bool {
    (l is Packed && (r is Bytes || r is DynamicArray)) || (r is Packed && (l is Bytes || l is DynamicArray))
}
/// what the code consults for a sized word of a special usage: the FIRST span in vector order must be [0, w)
pub open spec fn first_span_rule(p: Seq<Span>, w: usize) -> bool { p[0].offset == 0 && p[0].size == w }
/// ... which is "there is a span [0, w)" whenever the spans start at ascending offsets and none is empty (what every producer emits)
pub proof fn lemma_first_span_rule(p: Seq<Span>, w: usize)
    requires p.len() > 0, offsets_ascending(p), all_non_empty(p), disjoint_sorted(p),
    ensures first_span_rule(p, w) <==> exists|k: int| 0 <= k < p.len() && (#[trigger] p[k]).offset == 0 && p[k].size == w,       //@ob C15.mp.packed_word.sized_special_word_selects_the_span_at_bit_0
{
    if exists|k: int| 0 <= k < p.len() && (#[trigger] p[k]).offset == 0 && p[k].size == w {
        let k = choose|k: int| 0 <= k < p.len() && (#[trigger] p[k]).offset == 0 && p[k].size == w;
        if k > 0 { assert(s_end(p[0]) <= p[k].offset); assert(p[0].size > 0); }
    }
}
/// a packed encoding against a word, in either order; its spans, the word's usage and width
pub open spec fn pw_case(l: TypeExpression, r: TypeExpression) -> bool { (l is Packed && r is Word) || (r is Packed && l is Word) }
pub open spec fn pw_p(l: TypeExpression, r: TypeExpression) -> Seq<Span> { pside(l, r)->types@ }
pub open spec fn pw_u(l: TypeExpression, r: TypeExpression) -> WordUse { oside(l, r)->usage }
pub open spec fn pw_w(l: TypeExpression, r: TypeExpression) -> Option<usize> { oside(l, r)->width }




// =================================================================================================
// What follows from `repartitioned` (C12), stated on the abstract geometry and then on the REAL merge by client harnesses (template
// code, never compiled into the crate): they call the extracted function and are verified against its contract — if merge's
// postcondition is weakened they stop verifying.
// =================================================================================================
pub proof fn lemma_repartitioned_props(l: Seq<Span>, r: Seq<Span>, res: Seq<Span>)
    requires repartitioned(l, r, res), spans_fit(l), spans_fit(r),
    ensures
        disjoint_sorted(res) && all_non_empty(res),                                                                //@ob C12.mp.packed_packed.disjoint_sorted
        forall|e: int| ends_le(l, e) && ends_le(r, e) ==> #[trigger] ends_le(res, e),                              //@ob C12.mp.packed_packed.spans_inside_the_operands_extent
        forall|e: int| starts_ge(l, e) && starts_ge(r, e) ==> #[trigger] starts_ge(res, e),                        //@ob C12.mp.packed_packed.spans_inside_the_operands_extent
        ends_le(l, 256) && ends_le(r, 256) ==> ends_le(res, 256),                                                  //@ob C12.mp.packed_packed.spans_inside_the_word
        refines(res, l) && refines(res, r),                                                                        //@ob C12.mp.packed_packed.no_span_straddles_an_operand_boundary
        contiguous(res) && covers_bounds(res, l) && covers_bounds(res, r),                                         //@ob C12.mp.packed_packed.operand_spans_are_tiled
        spans_fit(res),                                                                                            //@ob C01.mp.packed_packed.result_span_ends_representable
{
    let b = choose|b: Seq<usize>| partition_on(b, l, r, res);
    lemma_partition_props(b, l, r, res);
}

fn client_packed_packed(l: TE, r: TE, tv: TypeVariable, state: &mut TypeCheckerState)
    requires pp_full(l, r), spans_fit(l->types@), spans_fit(r->types@),
{
    let ghost lt = l->types@;
    let ghost rt = r->types@;
    let m = merge(l, r, tv, state);
    proof { lemma_repartitioned_props(lt, rt, m.expression->types@); }
    let ghost res = m.expression->types@;
    assert(disjoint_sorted(res) && all_non_empty(res));                                                            //@ob C12.mp.client.packed_packed.disjoint_sorted
    assert(ends_le(lt, 256) && ends_le(rt, 256) ==> ends_le(res, 256));                                            //@ob C12.mp.client.packed_packed.spans_inside_the_word
    assert(refines(res, lt) && refines(res, rt) && contiguous(res));                                               //@ob C12.mp.client.packed_packed.no_span_straddles_an_operand_boundary
    assert(spans_fit(res));                                                                                        //@ob C01.mp.client.packed_packed.result_can_be_merged_again
}

/// C16 (order): merging two packed encodings in either order gives the same span geometry and struct flag (the variables are
/// fresh either way: "up to the choice of representative")
fn law_packed_packed_symmetric(l1: TE, r1: TE, l2: TE, r2: TE, tv: TypeVariable, state: &mut TypeCheckerState)
    requires l1 == l2, r1 == r2, pp_full(l1, r1), spans_fit(l1->types@), spans_fit(r1->types@),
{
    let ghost lt = l1->types@;
    let ghost rt = r1->types@;
    let m1 = merge(l1, r1, tv, state);
    let m2 = merge(r2, l2, tv, state);
    proof { lemma_repartition_symmetric(lt, rt, m1.expression->types@, m2.expression->types@); }
    assert(same_geometry(m1.expression->types@, m2.expression->types@));                                           //@ob C16.mp.law.packed_packed_symmetric_geometry
    assert(m1.expression->is_struct == m2.expression->is_struct);                                                  //@ob C16.mp.law.packed_packed_symmetric_struct_flag
}
/// C16 (order): a packed encoding against anything that is not packed gives the same expression in either order
fn law_packed_other_symmetric(l1: TE, r1: TE, l2: TE, r2: TE, tv: TypeVariable, state: &mut TypeCheckerState)
    requires l1 == l2, r1 == r2, l1 is Packed, !(r1 is Packed), !(r1 is Equal),
{
    let m1 = merge(l1, r1, tv, state);
    let m2 = merge(r2, l2, tv, state);
    assert(abs(m1.expression) == abs(m2.expression));                                                              //@ob C16.mp.law.packed_other_symmetric
    assert(m1.judgements@.len() == m2.judgements@.len() && m1.equalities@.len() == m2.equalities@.len() && m1.ty_vars@.len() == m2.ty_vars@.len());      //@ob C16.mp.law.packed_other_symmetric
}

} // verus!
fn main() {}
