# Mutation self-test for unit rules.
# Usage: git -C /repo worktree add --detach /tmp/wt_rules HEAD; python3 units/rules/mutations.py [Mnn ...]; git -C /repo worktree remove --force /tmp/wt_rules
# M* = property-breaking edits (must give status=failed on the expected labelled obligation),
# H* = behaviour-preserving edits (must give status=ok, or undecided — never failed).
import subprocess
import sys
import time

WT = '/tmp/wt_rules'
R = 'src/tc/rule/'

# (id + description, file, old text, new text, label that must be among the failures)
MUTS = [
    ('M01 SIGNEXTEND: the bound `width <= WORD_SIZE_BITS` dropped', R + 'arithmetic_operations.rs',
     'if width <= WORD_SIZE_BITS {\n                        Some(width)\n                    } else {\n                        None\n                    }',
     'Some(width)', 'C12.rule.arithmetic.width_at_most_the_word'),
    ('M02 SIGNEXTEND result: signed_word -> unsigned_word', R + 'arithmetic_operations.rs',
     'state.infer_for(value, TE::signed_word(width));', 'state.infer_for(value, TE::unsigned_word(width));',
     'C15.rule.arithmetic.judgements_as_documented'),
    ('M03 SDIV/SMOD: infers for the dividend twice, never for the divisor', R + 'arithmetic_operations.rs',
     'state.infer_for_many([value, dividend, divisor], TE::signed_word(None));', 'state.infer_for_many([value, dividend, dividend], TE::signed_word(None));',
     'C15.rule.arithmetic.judgements_as_documented'),
    ('M04 arithmetic rule also fires on KnownData', R + 'arithmetic_operations.rs',
     '            _ => (),\n        }\n\n        Ok(())',
     '            TCSVD::KnownData { .. } => {\n                state.infer_for(value, TE::numeric(None));\n            }\n            _ => (),\n        }\n\n        Ok(())',
     'C05.rule.arithmetic.only_on_its_constructors'),
    ('M05 DIV/MOD typed as signed', R + 'arithmetic_operations.rs',
     'state.infer_for_many([value, dividend, divisor], TE::unsigned_word(None));', 'state.infer_for_many([value, dividend, divisor], TE::signed_word(None));',
     'C15.rule.arithmetic.judgements_as_documented'),
    ('M06 SAR: the shifted value typed as bytes, not signed', R + 'bit_shifts.rs',
     'state.infer_for_many([value, shift_val], TE::signed_word(None));', 'state.infer_for_many([value, shift_val], TE::bytes(None));',
     'C15.rule.bit_shifts.judgements_as_documented'),
    ('M07 SHL/SHR: the shift amount judgement dropped', R + 'bit_shifts.rs',
     '                // The shift amount is always interpreted as unsigned\n                state.infer_for(shift, TE::unsigned_word(None));\n\n                // We know little',
     '                // We know little', 'C15.rule.bit_shifts.judgements_as_documented'),
    ('M08 boolean rule: And treated like a comparison (result bool)', R + 'boolean_operations.rs',
     'TCSVD::And { left, right } | TCSVD::Or { left, right } | TCSVD::Xor { left, right } => {\n                state.infer_for_many([left, right, value], TE::bytes(None));',
     'TCSVD::And { left, right } => {\n                state.infer_for_many([left, right], TE::bytes(None));\n                state.infer_for(value, TE::bool());\n            }\n            TCSVD::Or { left, right } | TCSVD::Xor { left, right } => {\n                state.infer_for_many([left, right, value], TE::bytes(None));',
     'C15.rule.boolean.judgements_as_documented'),
    ('M09 LT/GT operands typed signed', R + 'boolean_operations.rs',
     'TCSVD::LessThan { left, right } | TCSVD::GreaterThan { left, right } => {\n                state.infer_for_many([left, right], TE::unsigned_word(None));',
     'TCSVD::LessThan { left, right } | TCSVD::GreaterThan { left, right } => {\n                state.infer_for_many([left, right], TE::signed_word(None));',
     'C15.rule.boolean.judgements_as_documented'),
    ('M10 ISZERO: the bool goes to the operand, numeric to the result', R + 'boolean_operations.rs',
     'state.infer_for(number, TE::numeric(None));\n                state.infer_for(value, TE::bool());',
     'state.infer_for(value, TE::numeric(None));\n                state.infer_for(number, TE::bool());', 'C15.rule.boolean.judgements_as_documented'),
    ('M11 call_data: width = size in bytes, not size * 8', R + 'call_data.rs',
     '<KnownWord as Into<usize>>::into(byte_size) * BYTE_SIZE_BITS;', '<KnownWord as Into<usize>>::into(byte_size);',
     'C15.rule.call_data.judgements_as_documented'),
    ('M12 call_data: width = size * 16 (beyond the word)', R + 'call_data.rs',
     '<KnownWord as Into<usize>>::into(byte_size) * BYTE_SIZE_BITS;', '<KnownWord as Into<usize>>::into(byte_size) * BYTE_SIZE_BITS * 2;',
     'C12.rule.call_data.width_at_most_the_word'),
    ('M13 call_data: fires on a non-constant size too (width unknown)', R + 'call_data.rs',
     'let TCSVD::KnownData { value: byte_size } = size.data().constant_fold() else {\n            return Ok(());\n        };',
     'let TCSVD::KnownData { value: byte_size } = size.data().constant_fold() else {\n            state.infer_for(value, TE::bytes(None));\n            return Ok(());\n        };',
     'C05.rule.call_data.only_on_its_constructors'),
    ('M14 CREATE2 salt: width 160', R + 'create.rs',
     'state.infer_for(salt, TE::bytes(Some(WORD_SIZE_BITS)));', 'state.infer_for(salt, TE::bytes(Some(160)));', 'C15.rule.create.judgements_as_documented'),
    ('M15 CREATE2 salt: width 512', R + 'create.rs',
     'state.infer_for(salt, TE::bytes(Some(WORD_SIZE_BITS)));', 'state.infer_for(salt, TE::bytes(Some(WORD_SIZE_BITS * 2)));', 'C12.rule.create.width_at_most_the_word'),
    ('M16 CREATE: the result typed bool', R + 'create.rs',
     'TCSVD::Create {\n                value: create_val, ..\n            } => {\n                state.infer_for(value, TE::address());',
     'TCSVD::Create {\n                value: create_val, ..\n            } => {\n                state.infer_for(value, TE::bool());', 'C15.rule.create.judgements_as_documented'),
    ('M17 dynamic_array_write: element and index swapped (index gets the array type)', R + 'dynamic_array_write.rs',
     'state.infer_for(f, TE::unsigned_word(None));\n\n        // `d = dynamic_array<b>`\n        state.infer_for(d, TE::dyn_array(b_tv));',
     'state.infer_for(d, TE::unsigned_word(None));\n\n        // `d = dynamic_array<b>`\n        state.infer_for(f, TE::dyn_array(b_tv));',
     'C15.rule.dynamic_array_write.judgements_as_documented'),
    ('M18 dynamic_array_write: array of the written VALUE\'s variable... of g instead of b', R + 'dynamic_array_write.rs',
     'state.infer_for(d, TE::dyn_array(b_tv));', 'state.infer_for(d, TE::dyn_array(g_tv));', 'C15.rule.dynamic_array_write.judgements_as_documented'),
    ('M19 dynamic_array_write: the equality b = g dropped', R + 'dynamic_array_write.rs',
     '        state.infer(b_tv, TE::eq(g_tv));\n', '', 'C14.rule.dynamic_array_write.equalities_as_documented'),
    ('M20 dynamic_array_write: fires without the inner storage slot', R + 'dynamic_array_write.rs',
     '        let TCSVD::StorageSlot { .. } = d.data() else {\n            return Ok(());\n        };\n', '', 'C05.rule.dynamic_array_write.only_on_its_constructors'),
    ('M21 environment: CALLER typed unsigned', R + 'environment_opcodes.rs',
     'TCSVD::Address | TCSVD::Origin | TCSVD::Caller | TCSVD::CoinBase => {', 'TCSVD::Address | TCSVD::Origin | TCSVD::CoinBase => {',
     'C15.rule.environment.judgements_as_documented'),
    ('M21b environment: CALLER moved to the unsigned group', R + 'environment_opcodes.rs',
     'TCSVD::Address | TCSVD::Origin | TCSVD::Caller | TCSVD::CoinBase => {\n                state.infer_for(value, TE::address());\n            }',
     'TCSVD::Address | TCSVD::Origin | TCSVD::CoinBase => {\n                state.infer_for(value, TE::address());\n            }\n            TCSVD::Caller => {\n                state.infer_for(value, TE::unsigned_word(None));\n            }',
     'C15.rule.environment.judgements_as_documented'),
    ('M22 environment: BALANCE result typed address, operand unsigned', R + 'environment_opcodes.rs',
     'state.infer_for(address, TE::address());\n                state.infer_for(value, TE::unsigned_word(None));',
     'state.infer_for(value, TE::address());\n                state.infer_for(address, TE::unsigned_word(None));', 'C15.rule.environment.judgements_as_documented'),
    ('M23 ext_code: EXTCODECOPY address typed unsigned with the others', R + 'ext_code.rs',
     'state.infer_for_many([offset, size], TE::unsigned_word(None));\n                state.infer_for(address, TE::address());',
     'state.infer_for_many([offset, size, address], TE::unsigned_word(None));', 'C15.rule.ext_code.judgements_as_documented'),
    ('M24 external_calls: call_with_value address operand typed bool', R + 'external_calls.rs',
     '                // c = address\n                state.infer_for(c, TE::address());\n\n                // d = unsigned',
     '                // c = address\n                state.infer_for(c, TE::bool());\n\n                // d = unsigned', 'C15.rule.external_calls.judgements_as_documented'),
    ('M25 external_calls: call_without_value binds argument_data as ret_offset', R + 'external_calls.rs',
     'address: c,\n                ret_offset: e,\n                ret_size: f,\n                ..', 'address: c,\n                argument_data: e,\n                ret_size: f,\n                ..',
     'C15.rule.external_calls.judgements_as_documented'),
    ('M26 offset_size: numeric -> signed', R + 'offset_size.rs',
     'state.infer_for_many([offset, size], TE::unsigned_word(None));', 'state.infer_for_many([offset, size], TE::signed_word(None));',
     'C15.rule.offset_size.judgements_as_documented'),
    ('M27 offset_size: also fires on ExtCodeCopy', R + 'offset_size.rs',
     '| TCSVD::ReturnData { offset, size } => {', '| TCSVD::ReturnData { offset, size }\n            | TCSVD::ExtCodeCopy { offset, size, .. } => {',
     'C05.rule.offset_size.only_on_its_constructors'),
    ('M28 s_load rule fires on the storage write (SStore) instead', R + 's_load_is_inner_types.rs',
     'let TCSVD::SLoad {\n            value: inner_value,\n            key,\n        } = value.data()', 'let TCSVD::StorageWrite {\n            value: inner_value,\n            key,\n        } = value.data()',
     'C05.rule.s_load.only_on_its_constructors'),
    ('M29 s_load: a = c dropped (only the key is equated)', R + 's_load_is_inner_types.rs',
     '        state.infer_for(value, TE::eq(inner_value_tv));\n', '', 'C14.rule.s_load.equalities_as_documented'),
    ('M30 s_load: key equated with the loaded value instead of a = b', R + 's_load_is_inner_types.rs',
     'state.infer_for(value, TE::eq(slot_tv));', 'state.infer_for(inner_value, TE::eq(slot_tv));', 'C14.rule.s_load.equalities_as_documented'),
    ('M31 sha3: bytes(Some(256)) -> Some(512)', R + 'sha3.rs',
     'TCSVD::Sha3 { .. } => {\n                state.infer_for(value, TE::bytes(Some(WORD_SIZE_BITS)));', 'TCSVD::Sha3 { .. } => {\n                state.infer_for(value, TE::bytes(Some(WORD_SIZE_BITS * 2)));',
     'C12.rule.sha3.width_at_most_the_word'),
    ('M32 sha3: the hash typed as an address', R + 'sha3.rs',
     'TCSVD::Sha3 { .. } => {\n                state.infer_for(value, TE::bytes(Some(WORD_SIZE_BITS)));', 'TCSVD::Sha3 { .. } => {\n                state.infer_for(value, TE::address());',
     'C15.rule.sha3.judgements_as_documented'),
    ('M33 storage_key: the slot itself (not its key) typed unsigned', R + 'storage_key.rs',
     'state.infer_for(key, TE::unsigned_word(None));', 'state.infer_for(value, TE::unsigned_word(None));', 'C15.rule.storage_key.judgements_as_documented'),
    ('M34 storage_write: equates the key with itself instead of with the value', R + 'storage_write.rs',
     'let value_tv = state.var_unchecked(value);', 'let value_tv = state.var_unchecked(key);', 'C14.rule.storage_write.equalities_as_documented'),
    ('M35 storage_write: equates the write node (a) with the value', R + 'storage_write.rs',
     'TCSVD::StorageWrite { key, value } => {\n                // An equality for the key\'s type\n                let key_tv = state.var_unchecked(key);',
     'TCSVD::StorageWrite { key: _, value: inner } => {\n                let key = value;\n                let value = inner;\n                // An equality for the key\'s type\n                let key_tv = state.var_unchecked(key);',
     'C14.rule.storage_write.equalities_as_documented'),
    ('M36 InferenceRules::infer: a rule\'s error is ignored', R + 'mod.rs',
     'rule.infer(value, state)?;', 'let _ = rule.infer(value, state);', 'C15.rule.run_all.'),
    ('M37 InferenceRules::infer: stops after the first rule', R + 'mod.rs',
     'rule.infer(value, state)?;\n        }', 'rule.infer(value, state)?;\n            break;\n        }', 'C15.rule.run_all.'),
    ('M38 TE::address(): built from the Function usage (192 bits)', 'src/tc/expression.rs',
     'let usage = WordUse::Address;', 'let usage = WordUse::Function;', 'C15.rule.te_address.160_bit_address'),
    ('M39 ADDRESS_WIDTH_BITS = 320', 'src/constant.rs',
     'pub const ADDRESS_WIDTH_BITS: usize = 160;', 'pub const ADDRESS_WIDTH_BITS: usize = 320;', 'C12.rule.word_use_size.'),
    ('M40 TE::unsigned_word builds a signed word', 'src/tc/expression.rs',
     'Self::word(width, WordUse::UnsignedNumeric)', 'Self::word(width, WordUse::SignedNumeric)', 'C15.rule.te_unsigned_word.width_kept_usage_unsigned'),
    ('M41 infer_for records the judgement for nothing (call dropped)', 'src/tc/state/mod.rs',
     '        let var = value.type_var();\n        self.infer(var, expression);\n        var', '        let var = value.type_var();\n        var', 'infer_for'),
    # ---- behaviour-preserving edits
    ('H01 arithmetic: or-pattern arms split, operands in another order (sets do not care)', R + 'arithmetic_operations.rs',
     'TCSVD::Add { left, right }\n            | TCSVD::Multiply { left, right }\n            | TCSVD::Subtract { left, right } => {\n                state.infer_for_many([value, left, right], TE::numeric(None));\n            }',
     'TCSVD::Add { left, right } => {\n                state.infer_for_many([left, right, value], TE::numeric(None));\n            }\n            TCSVD::Multiply { left: l, right: r } | TCSVD::Subtract { left: l, right: r } => {\n                state.infer_for(r, TE::numeric(None));\n                state.infer_for(value, TE::numeric(None));\n                state.infer_for(l, TE::numeric(None));\n            }',
     None),
    ('H02 SIGNEXTEND: operand judgements reordered, signed word built with TE::word, width through a match', R + 'arithmetic_operations.rs',
     ['tc::{expression::TE, rule::InferenceRule, state::TypeCheckerState},',
      'state.infer_for(extend_val, TE::signed_word(None));\n                state.infer_for(size, TE::unsigned_word(None));',
      'if width <= WORD_SIZE_BITS {\n                        Some(width)\n                    } else {\n                        None\n                    }'],
     ['tc::{expression::{WordUse, TE}, rule::InferenceRule, state::TypeCheckerState},',
      'state.infer_for(size, TE::unsigned_word(None));\n                state.infer_for(extend_val, TE::word(None, WordUse::SignedNumeric));',
      'match width <= WORD_SIZE_BITS {\n                        true => Some(width),\n                        false => None,\n                    }'],
     None),
    ('H03 create: shared judgements hoisted, salt judgement first', R + 'create.rs',
     'state.infer_for(value, TE::address());\n                state.infer_for(create_val, TE::unsigned_word(None));\n                state.infer_for(salt, TE::bytes(Some(WORD_SIZE_BITS)));',
     'state.infer_for(salt, TE::bytes(Some(WORD_SIZE_BITS)));\n                state.infer_for_many([create_val], TE::unsigned_word(None));\n                state.infer_for(value, TE::address());\n                state.infer_for(value, TE::address());',
     None),
    ('H04 storage_key: let-else -> if let', R + 'storage_key.rs',
     'let TCSVD::StorageSlot { key } = value.data() else {\n            return Ok(());\n        };\n        state.infer_for(key, TE::unsigned_word(None));',
     'if let TCSVD::StorageSlot { key } = value.data() {\n            let unsigned = TE::unsigned_word(None);\n            state.infer_for(key, unsigned);\n        }',
     None),
    ('H05 storage_write: one call instead of the two symmetric ones (the state adds both directions itself)', R + 'storage_write.rs',
     '                state.infer(key_tv, value_type);\n                state.infer(value_tv, key_type);', '                let _unused = key_type;\n                state.infer(key_tv, value_type);',
     None),
    ('H06 s_load: equalities recorded from the other side, other order', R + 's_load_is_inner_types.rs',
     'state.infer_for(value, TE::eq(inner_value_tv));\n        state.infer_for(value, TE::eq(slot_tv));',
     'let a_tv = state.var_unchecked(value);\n        state.infer(slot_tv, TE::eq(a_tv));\n        state.infer(inner_value_tv, TE::eq(a_tv));',
     None),
    ('H07 external_calls: judgements regrouped with infer_for_many', R + 'external_calls.rs',
     '                // e = unsigned\n                state.infer_for(e, TE::unsigned_word(None));\n\n                // f = unsigned\n                state.infer_for(f, TE::unsigned_word(None));',
     '                state.infer_for_many([f, e], TE::unsigned_word(None));',
     None),
    ('H08 call_data: size named, the word built with TE::word, early return spelled with match', R + 'call_data.rs',
     ['tc::{expression::TE, rule::InferenceRule, state::TypeCheckerState},',
      'let value_bits: usize = <KnownWord as Into<usize>>::into(byte_size) * BYTE_SIZE_BITS;\n        state.infer_for(value, TE::bytes(Some(value_bits)));'],
     ['tc::{expression::{WordUse, TE}, rule::InferenceRule, state::TypeCheckerState},',
      'let bytes: usize = <KnownWord as Into<usize>>::into(byte_size);\n        let value_bits: usize = bytes * BYTE_SIZE_BITS;\n        let ty = TE::word(Some(value_bits), WordUse::Bytes);\n        state.infer_for(value, ty);'],
     None),
    ('H09 InferenceRules::infer: explicit match instead of `?`', R + 'mod.rs',
     'rule.infer(value, state)?;', 'match rule.infer(value, state) {\n                Ok(()) => {}\n                Err(e) => return Err(e),\n            }',
     None),
    ('H11 dynamic_array_write: nested let-else chain -> one nested pattern; judgements in another order', R + 'dynamic_array_write.rs',
     ['state.infer(b_tv, TE::eq(g_tv));\n\n        // `f = unsigned`\n        state.infer_for(f, TE::unsigned_word(None));\n\n        // `d = dynamic_array<b>`\n        state.infer_for(d, TE::dyn_array(b_tv));'],
     ['state.infer_for(d, TE::dyn_array(b_tv));\n        state.infer_for_many([f], TE::unsigned_word(None));\n        state.infer(g_tv, TE::eq(b_tv));'],
     None),
    ('H12 boolean: Equals arm judgements one by one, bool first', R + 'boolean_operations.rs',
     'TCSVD::Equals { left, right } => {\n                state.infer_for_many([left, right], TE::bytes(None));\n                state.infer_for(value, TE::bool());',
     'TCSVD::Equals { left: l, right: r } => {\n                state.infer_for(value, TE::bool());\n                state.infer_for(r, TE::bytes(None));\n                state.infer_for(l, TE::bytes(None));\n                state.infer_for(value, TE::bool());',
     None),
    ('H10 environment: the address group split in two arms, comments', R + 'environment_opcodes.rs',
     'TCSVD::Address | TCSVD::Origin | TCSVD::Caller | TCSVD::CoinBase => {\n                state.infer_for(value, TE::address());\n            }',
     'TCSVD::Address | TCSVD::Origin => {\n                // an address\n                state.infer_for(value, TE::address());\n            }\n            TCSVD::Caller | TCSVD::CoinBase => {\n                let t = TE::address();\n                state.infer_for(value, t);\n            }',
     None),
]


def run(name, path, old, new, want):
    subprocess.run(['git', '-C', WT, 'checkout', '--', '.'], check=True)
    p = f'{WT}/{path}'
    s = open(p).read()
    pairs = list(zip(old, new)) if isinstance(old, list) else [(old, new)]
    for o, n in pairs:
        assert s.count(o) == 1, (name, o, s.count(o))
        s = s.replace(o, n)
    open(p, 'w').write(s)
    t0 = time.time()
    r = subprocess.run(['python3', '/verif/vx/vx.py', 'unit', 'rules', '--raw'], capture_output=True, text=True,
                       env={**__import__('os').environ, 'VX_REPO': WT}, cwd='/verif')
    out = r.stdout + r.stderr
    first = out.splitlines()[0] if out else ''
    status = first.split('status=')[1].split()[0] if 'status=' in first else '?'
    labels = sorted(set(__import__('re').findall(r"C\d\d\.rule\.[A-Za-z0-9_.]+", out)))
    fails = [l for l in out.splitlines() if l.strip().startswith('FAIL')]
    if want is None:
        verdict = 'OK' if status in ('ok', 'undecided') else 'FALSE-ALARM'
    else:
        hit = any(want in l for l in labels) or any(want in f for f in fails)
        verdict = 'CAUGHT' if status == 'failed' and hit else ('CAUGHT-OTHER' if status == 'failed' else 'MISSED(' + status + ')')
    print(f'{verdict:13} {name}\n              status={status} {time.time() - t0:.0f}s labels={labels[:6]}')
    if verdict not in ('OK', 'CAUGHT'):
        print('\n'.join('              ' + l[:260] for l in out.splitlines()[:8]))
    sys.stdout.flush()
    return verdict


if __name__ == '__main__':
    sel = sys.argv[1:]
    res = []
    for m in MUTS:
        if sel and not any(m[0].startswith(x) for x in sel):
            continue
        res.append((m[0], run(*m)))
    subprocess.run(['git', '-C', WT, 'checkout', '--', '.'], check=True)
    bad = [r for r in res if r[1] not in ('OK', 'CAUGHT')]
    print(f'\n{len(res)} edits, {len(bad)} not as expected')
    for b in bad:
        print('  ', b)
